"""C12 -- optimisers honour bounds and fixed parameters and report the point they found.

Static theorems: coq/theories/Props/C12.v (model coq/theories/Model/Optim.v).
Per run:
  (0) descriptor obligations: the pre/post-processing of each scipy wrapper and the three repaired/unrepaired lines are
      re-read from the current source (python ast) and compared with the configuration table of the model; every
      conditional test of the modelled functions (the `is None` / `is not None` tests on fixed values, bound entries and
      whole lists in particular) is re-read in a canonical form and compared with the tests of the model (fail-closed);
  (0') _project_params_down / _project_params_up on their own: exact correspondence with the model and the two inverse
      identities on the real code, over every Python spelling of a value fixed at zero, every position, every container;
  (1) scripted correspondence: nlopt.opt / scipy.optimize.* replaced by stubs that play a generated list of proposals;
      the same script runs through the Coq model over Q (closed-form quadratic likelihoods on both sides); returned
      vector, reported value, evaluation trace, and the bounds/start handed to the optimiser must agree;
  (2) the property clauses themselves, on the real code: scripted runs whose script honours the optimiser contract,
      and real nlopt / scipy optimisers on closed-form Spectrum-valued models (every model evaluation logged, the
      returned point re-evaluated);
  (3) Misc.perturb_params with numpy.random.uniform replaced by given draws: model correspondence + "stays in bounds".
(0') also runs, on every run, every element type and container of the free vector / the full vector (Python int, float,
bool, numpy int64 / int32 / float32 / float64 / bool_ scalars, 0-d arrays, lists / tuples / arrays of each dtype, the bare
scalar) against fixed values that are non-integers, negative, zero and not float32 numbers: the expanded vector holds the fixed
and the free values exactly (the model has values, not machine types).  (1) and (2) run, for every wrapper, whole-number boxes
and starts written with integer types (`p0=[1, 2]`, `upper_bound=[10, 10]`, int arrays) beside fixed values that are not
whole, in leading / middle / trailing position; optimize_grid with every typing of its ranges (all Python ints -- numpy.mgrid
is then an integer array that scipy.optimize.brute hands to the objective as it is --, int/float mixed, complex step `5j`):
every model evaluation carries the fixed values, the likelihood of the returned point is the reported optimum, and the search
returns the grid point on which the likelihood peaks.  The scripted scipy stubs evaluate the start as it was handed to them.
In (1) and (2) a systematic block of edge patterns runs for every wrapper on every run: parameters fixed at exactly zero
(before, between, after the free ones; several; all), negative and at-a-bound fixed values, bound entries equal to zero,
arguments as list / tuple / numpy array.  In the model "fixed at 0" is [Some 0] and "no bound" is [None]: truthiness has no
counterpart there, and the theorems (C12_up_down_inverse, C12_down_up_inverse, ...) are stated for every [Some v].
Keyword / optional-argument combinations (harness/props/c12_kw.py) run in (1) and (2) on every run for every wrapper: only
lower_bound / only upper_bound / both / neither / None entries in one list, crossed with every way of giving fixed_params, in
every spelling (left out, None, positional), every other optional keyword alone and combined; the scripted optimiser of that
stream honours the box it is handed (Model/Optim.v scripted_clip) while its script proposes points beyond every bound, so that a
bound that is not handed over shows as a model evaluation and a returned point beyond it (a failing input), and the real
optimisers get data whose parameters lie beyond the given bound(s).  The signatures (parameter order, defaults) are pinned by
a source obligation.  When a source obligation or the scripted correspondence of a wrapper breaks, a targeted search
(resolve_broken) runs the keyword-combination streams on that wrapper with random boxes and every subset of fixed parameters
before anything is reported as no-failing-input-found; violations that carry an input are listed first.
"""
import ast, itertools, json, math, os, random, re
from fractions import Fraction
from harness import lib
from harness.lib import q, ql, b

TOL = Fraction(1, 10 ** 10)
TOL_TXT = 'tol 1e-10 x max-norm'
INFERENCE = os.path.join(lib.REPO, 'dadi', 'Inference.py')
NLOPT_MOD = os.path.join(lib.REPO, 'dadi', 'NLopt_mod.py')
MISC = os.path.join(lib.REPO, 'dadi', 'Misc.py')

SCIPY_FNS = ['optimize', 'optimize_log', 'optimize_lbfgsb', 'optimize_log_lbfgsb', 'optimize_log_fmin',
             'optimize_log_powell', 'optimize_cons']
FN_TAG = {'opt': 'FOpt', 'optimize': 'FOptimize', 'optimize_log': 'FOptimizeLog', 'optimize_lbfgsb': 'FLbfgsb',
          'optimize_log_lbfgsb': 'FLogLbfgsb', 'optimize_log_fmin': 'FLogFmin', 'optimize_log_powell': 'FLogPowell',
          'optimize_cons': 'FCons', 'optimize_grid': 'FGrid'}
# forms of the original snapshot (Model/Optim.v cfg_*_snapshot); the descriptor reader accepts them too, the defect they
# carry is then reported by the property clauses with a concrete input
CFG_SNAPSHOT = {'optimize_lbfgsb':     (False, True, False, False, 'BPlain', True),
                'optimize_log_lbfgsb': (True,  True, True,  False, 'BLog',   True)}
# the model's configuration table (Model/Optim.v cfg_*), current code: objective works on exp(x) / start is log(p0) / result is exp'd /
# bounds go to _object_func / bounds handed to the optimiser / ll_scale forwarded
CFG = {'optimize':            (False, False, False, True,  'BNone',  True),
       'optimize_log':        (True,  True,  True,  True,  'BNone',  True),
       'optimize_lbfgsb':     (False, False, False, False, 'BPlain', True),
       'optimize_log_lbfgsb': (True,  True,  True,  False, 'BLogNone', True),
       'optimize_log_fmin':   (True,  True,  True,  True,  'BNone',  False),
       'optimize_log_powell': (True,  True,  True,  True,  'BNone',  False),
       'optimize_cons':       (False, False, False, False, 'BPlain', True)}
LOG_SPACE = {fn: CFG[fn][0] for fn in CFG}            # the optimiser works in log(params)
NEEDS_POSITIVE = {fn for fn in CFG if CFG[fn][1]}     # numpy.log(p0) is taken
ORACLE_BOUNDED = {fn for fn in CFG if CFG[fn][4] != 'BNone'} | {'opt'}
SCALE_FORWARDED = {fn for fn in CFG if CFG[fn][5]}
LOCAL_NLOPT = ['LN_BOBYQA', 'LN_COBYLA', 'LN_NELDERMEAD', 'LN_SBPLX']
GLOBAL_NLOPT = ['GN_DIRECT_L', 'GN_CRS2_LM']

# ------------------------------------------------------------------------------------------------
# (0) descriptors read from the source

def _src(node):
    return ast.unparse(node).replace(' ', '')

def wrapper_descriptor(fn_node):
    """(obj_log, start_log, ret_exp, obj_bounds, oracle_bounds, ll_scale_forwarded) of one scipy wrapper, or raise"""
    calls = [n for n in ast.walk(fn_node) if isinstance(n, ast.Call) and _src(n.func).startswith('scipy.optimize.')]
    if len(calls) != 1:
        raise ValueError('expected exactly one scipy.optimize call')
    call = calls[0]
    obj = _src(call.args[0])
    if obj not in ('_object_func', '_object_func_log'):
        raise ValueError('unexpected objective %s' % obj)
    start = _src(call.args[1])
    if start not in ('p0', 'numpy.log(p0)'):
        raise ValueError('unexpected start %s' % start)
    kws = {k.arg: _src(k.value) for k in call.keywords}
    args_assign = [n for n in ast.walk(fn_node) if isinstance(n, ast.Assign) and _src(n.targets[0]) == 'args']
    if len(args_assign) != 1 or not isinstance(args_assign[0].value, ast.Tuple):
        raise ValueError('args tuple not found')
    elts = [_src(e) for e in args_assign[0].value.elts]
    if elts[:3] != ['data', 'model_func', 'pts'] or elts[5:11] != ['verbose', 'multinom', 'flush_delay', 'func_args', 'func_kwargs', 'fixed_params'] or elts[12] != 'output_stream':
        raise ValueError('args tuple has an unexpected layout: %r' % elts)
    if elts[3:5] == ['lower_bound', 'upper_bound']:
        obj_bounds = True
    elif elts[3:5] == ['None', 'None']:
        obj_bounds = False
    else:
        raise ValueError('unexpected bounds in args: %r' % elts[3:5])
    if elts[11] == 'll_scale':
        scale = True
    elif elts[11] in ('1.0', '1'):
        scale = False
    else:
        raise ValueError('unexpected ll_scale in args: %r' % elts[11])
    # post-processing
    ups = [n for n in ast.walk(fn_node) if isinstance(n, ast.Assign) and _src(n.targets[0]) == 'xopt'
           and isinstance(n.value, ast.Call) and _src(n.value.func) == '_project_params_up']
    if len(ups) != 1 or _src(ups[0].value.args[1]) != 'fixed_params':
        raise ValueError('xopt = _project_params_up(..., fixed_params) not found')
    a0 = _src(ups[0].value.args[0])
    if a0 not in ('xopt', 'numpy.exp(xopt)'):
        raise ValueError('unexpected post-processing %s' % a0)
    # p0 projected down
    downs = [n for n in ast.walk(fn_node) if isinstance(n, ast.Assign) and _src(n.targets[0]) == 'p0']
    if len(downs) != 1 or _src(downs[0].value) != '_project_params_down(p0,fixed_params)':
        raise ValueError('p0 = _project_params_down(p0, fixed_params) not found')
    # bounds handed to the optimiser
    bkw = kws.get('bounds')
    assigns = [n for n in ast.walk(fn_node) if isinstance(n, ast.Assign) and _src(n.targets[0]) in ('lower_bound', 'upper_bound')
               and 'numpy.log' in _src(n.value)]
    whole = [n for n in assigns if _src(n.value) in ('numpy.log(lower_bound)', 'numpy.log(upper_bound)')]
    # current form, two comprehensions per bound:  [None if v is None else numpy.log(v) for v in B]  and then
    # [None if (v is not None and numpy.isnan(v)) else v for v in B]   (nan, the log of a negative bound, becomes "no bound")
    def norm(n):
        val = n.value
        if isinstance(val, ast.ListComp) and len(val.generators) == 1 and isinstance(val.generators[0].target, ast.Name):
            v = val.generators[0].target.id
            class Ren(ast.NodeTransformer):
                def visit_Name(self, node):
                    return ast.copy_location(ast.Name(id='V', ctx=node.ctx), node) if node.id == v else node
            val = Ren().visit(ast.parse(ast.unparse(val), mode='eval').body)
        return ast.unparse(val).replace(' ', '')
    entrywise = [n for n in assigns if norm(n) in ('[NoneifVisNoneelsenumpy.log(V)forVinlower_bound]', '[NoneifVisNoneelsenumpy.log(V)forVinupper_bound]')]
    nan_none = [n for n in ast.walk(fn_node) if isinstance(n, ast.Assign) and _src(n.targets[0]) in ('lower_bound', 'upper_bound')
                and norm(n) in ('[NoneifVisnotNoneandnumpy.isnan(V)elseVforVinlower_bound]', '[NoneifVisnotNoneandnumpy.isnan(V)elseVforVinupper_bound]')]
    other_nan = [n for n in ast.walk(fn_node) if isinstance(n, ast.Assign) and 'isnan' in _src(n) and n not in nan_none]
    if bkw is None:
        mode = 'BNone'
    elif not assigns:
        mode = 'BPlain'
    elif len(whole) == 2 and len(assigns) == 2 and len(other_nan) == 2 and not nan_none:
        mode = 'BLog'            # snapshot: numpy.log(list); B[numpy.isnan(B)] = None
    elif len(entrywise) == 2 and len(assigns) == 2 and len(nan_none) == 2 and not other_nan:
        mode = 'BLogNone'
    else:
        mode = '?'
    return (obj == '_object_func_log', start == 'numpy.log(p0)', a0 == 'numpy.exp(xopt)', obj_bounds, mode, scale)

def descriptor_obligations(ctx):
    found = {}
    try:
        tree = ast.parse(open(INFERENCE).read())
        fns = {n.name: n for n in tree.body if isinstance(n, ast.FunctionDef)}
    except (OSError, SyntaxError) as e:
        ctx.obligation('parse dadi/Inference.py', False, 'translator', repr(e))
        return found
    for fn in SCIPY_FNS:
        try:
            d = wrapper_descriptor(fns[fn])
        except Exception as e:
            ctx.obligation('descriptor of Inference.%s readable' % fn, False, 'translator', repr(e))
            continue
        found[fn] = d
        expect = [CFG[fn]]
        if fn in CFG_SNAPSHOT:
            expect.append(CFG_SNAPSHOT[fn])
        ctx.obligation('descriptor of Inference.%s = model configuration %s' % (fn, 'cfg_' + fn), d in expect, 'translator',
                       '' if d in expect else 'source: %r, model: %r' % (d, CFG[fn]))
    # the test order inside _object_func: bound tests, then the model call, then the NaN guard
    try:
        of = fns['_object_func']
        order = []
        for n in ast.walk(of):
            if isinstance(n, ast.Return) and '_out_of_bounds_val' in _src(n):
                order.append(('penalty', n.lineno))
            if isinstance(n, ast.Call) and _src(n.func) == 'model_func':
                order.append(('model', n.lineno))
            if isinstance(n, ast.Call) and _src(n.func) == 'numpy.isnan':
                order.append(('nan', n.lineno))
        order.sort(key=lambda t: t[1])
        kinds = [k for k, _ in order]
        ok = kinds == ['penalty', 'penalty', 'model', 'nan']
        ctx.obligation('_object_func: both bound tests precede the model call, NaN guard follows it', ok, 'translator', repr(order))
    except Exception as e:
        ctx.obligation('_object_func structure readable', False, 'translator', repr(e))
    condition_obligations(ctx)
    return found

# ---- every conditional test of the glue, in canonical form ----------------------------------------------------------
# The model distinguishes "absent" (Python's None: `option`) from every number, 0 included: a parameter fixed at 0 is
# [Some 0], a bound of 0 is [Some 0].  The source must therefore test `is None` / `is not None`, never truthiness.  The
# tests of every function the model covers are re-read on each run and compared with the list below (fail-closed: a test
# that is added, dropped, reordered, or rewritten -- `if not fixed_val`, `if bound and ...`, `x or default` -- fails the
# obligation).  Loop and comprehension variables are written as what they range over (EL<fixed_params> is "an entry of
# fixed_params", IDX<..> its index), so that a loop and the equivalent comprehension read the same and a test applied to
# an entry of the wrong list does not.

class _Subst(ast.NodeTransformer):
    def __init__(self, env):
        self.env = env
    def visit_Name(self, node):
        if node.id in self.env:
            return ast.copy_location(ast.Name(id=self.env[node.id], ctx=ast.Load()), node)
        return node

def _canon(expr, env):
    e = ast.parse(ast.unparse(expr), mode='eval').body
    return ast.unparse(_Subst(env).visit(e)).replace(' ', '')

def _bind(target, it, env_new, env_old):
    if isinstance(target, ast.Name):
        env_new[target.id] = 'EL<%s>' % _canon(it, env_old)
        return
    if isinstance(target, (ast.Tuple, ast.List)) and isinstance(it, ast.Call) and not it.keywords:
        f = _src(it.func)
        if f == 'zip' and len(it.args) == len(target.elts):
            for t, a in zip(target.elts, it.args):
                _bind(t, a, env_new, env_old)
            return
        if f == 'enumerate' and len(it.args) == 1 and len(target.elts) == 2 and isinstance(target.elts[0], ast.Name):
            env_new[target.elts[0].id] = 'IDX<%s>' % _canon(it.args[0], env_old)
            _bind(target.elts[1], it.args[0], env_new, env_old)
            return
    if isinstance(target, (ast.Tuple, ast.List)):
        def leaves(t, path):
            if isinstance(t, ast.Name):
                env_new[t.id] = 'EL<%s>%s' % (_canon(it, env_old), path)
            elif isinstance(t, (ast.Tuple, ast.List)):
                for k, u in enumerate(t.elts):
                    leaves(u, path + '.%d' % k)
            else:
                raise ValueError('loop target %s not understood' % _src(target))
        leaves(target, '')
        return
    raise ValueError('loop target %s over %s not understood' % (_src(target), _src(it)))

def cond_tests(fn_node):
    """the tests of all if / while / assert statements, conditional expressions and comprehension filters of a function,
    and every and/or/not expression used as a value, in source order"""
    out = []
    def expr(e, env, in_test=False):
        if e is None:
            return
        if isinstance(e, ast.IfExp):
            out.append(_canon(e.test, env))
            expr(e.test, env, True); expr(e.body, env); expr(e.orelse, env)
        elif isinstance(e, (ast.ListComp, ast.SetComp, ast.GeneratorExp, ast.DictComp)):
            env2 = dict(env)
            for g in e.generators:
                expr(g.iter, env2)
                _bind(g.target, g.iter, env2, dict(env2))
                for c in g.ifs:
                    out.append(_canon(c, env2))
                    expr(c, env2, True)
            if isinstance(e, ast.DictComp):
                expr(e.key, env2); expr(e.value, env2)
            else:
                expr(e.elt, env2)
        elif isinstance(e, ast.BoolOp) or (isinstance(e, ast.UnaryOp) and isinstance(e.op, ast.Not)):
            if not in_test:
                out.append(_canon(e, env))
            for ch in ast.iter_child_nodes(e):
                if isinstance(ch, ast.expr):
                    expr(ch, env, True)
        elif isinstance(e, ast.Lambda):
            expr(e.body, env)
        else:
            for ch in ast.iter_child_nodes(e):
                if isinstance(ch, ast.expr):
                    expr(ch, env, in_test)
                elif isinstance(ch, ast.keyword):
                    expr(ch.value, env, in_test)
    def stmt(s, env):
        if isinstance(s, (ast.For, ast.AsyncFor)):
            expr(s.iter, env)
            env2 = dict(env)
            _bind(s.target, s.iter, env2, env)
            for bb in s.body:
                stmt(bb, env2)
            for bb in s.orelse:
                stmt(bb, env)
        elif isinstance(s, (ast.If, ast.While)):
            out.append(_canon(s.test, env))
            expr(s.test, env, True)
            for bb in s.body + s.orelse:
                stmt(bb, env)
        elif isinstance(s, ast.Assert):
            out.append(_canon(s.test, env))
            expr(s.test, env, True)
        else:
            for _, val in ast.iter_fields(s):
                for v in (val if isinstance(val, list) else [val]):
                    if isinstance(v, ast.stmt):
                        stmt(v, env)
                    elif isinstance(v, ast.expr):
                        expr(v, env)
                    elif isinstance(v, ast.excepthandler):
                        for bb in v.body:
                            stmt(bb, env)
                    elif isinstance(v, ast.withitem):
                        expr(v.context_expr, env)
                    elif isinstance(v, ast.keyword):
                        expr(v.value, env)
                    elif isinstance(v, ast.match_case if hasattr(ast, 'match_case') else ()):
                        raise ValueError('match statement not understood')
    for s in fn_node.body:
        stmt(s, {})
    return out

_OUT = ['output_file', 'output_file', 'notfull_output']
_LOGB = ['EL<%s>isNone', 'EL<%s>isnotNoneandnumpy.isnan(EL<%s>)']
# function -> accepted lists of tests: the current code first, then forms of the original snapshot (whose defects the
# correspondence variants and the property clauses report)
COND_TESTS = {
    ('Inference', '_project_params_down'): [['fixed_paramsisNone', 'len(pin)!=len(fixed_params)', 'EL<fixed_params>isNone']],
    ('Inference', '_project_params_up'): [['fixed_paramsisNone', 'numpy.isscalar(pin)', 'EL<fixed_params>isNone']],
    ('Inference', '_object_func'): [['lower_boundisnotNone', 'EL<lower_bound>isnotNoneandEL<params_up><EL<lower_bound>',
                                     'upper_boundisnotNone', 'EL<upper_bound>isnotNoneandEL<params_up>>EL<upper_bound>',
                                     'multinom', 'store_thetas', 'numpy.isnan(result)', 'verbose>0and_counter%verbose==0']],
    ('Inference', '_object_func_log'): [[]],
    ('Inference', 'optimize'): [_OUT],
    ('Inference', 'optimize_log'): [_OUT],
    ('Inference', 'optimize_log_fmin'): [_OUT],
    ('Inference', 'optimize_log_powell'): [_OUT],
    ('Inference', 'optimize_lbfgsb'): [['output_file', 'lower_boundisNone', 'upper_boundisNone', 'output_file', 'notfull_output']],
    ('Inference', 'optimize_log_lbfgsb'): [
        ['output_file', 'lower_boundisNone'] + [t.replace('%s', 'lower_bound') for t in _LOGB]
        + ['upper_boundisNone'] + [t.replace('%s', 'upper_bound') for t in _LOGB] + ['output_file', 'notfull_output'],
        ['output_file', 'lower_boundisNone', 'upper_boundisNone', 'output_file', 'notfull_output']],
    ('Inference', 'optimize_cons'): [
        ['output_file', 'lower_boundisNone', 'upper_boundisNone', 'lower_boundisnotNoneandupper_boundisnotNone', 'maxiterisNone', 'output_file', 'notfull_output'],
        ['output_file', 'lower_boundisNone', 'upper_boundisNone', 'lower_boundisnotNoneandupper_boundisnotNone', 'output_file', 'notfull_output']],
    ('Inference', 'optimize_grid'): [['output_file', 'full_output', 'full_output', 'output_file', 'notfull_output']],
    ('NLopt_mod', 'opt'): [
        ['lower_boundisNone', 'upper_boundisNone', 'EL<lower_bound>isnotNone', 'EL<upper_bound>isnotNone', 'log_opt', 'EL<lower_bound>>0',
         'grad.size', 'log_opt', 'log_opt', 'log_opt'],
        ['lower_boundisNone', 'upper_boundisNone', 'EL<lower_bound>isnotNone', 'EL<upper_bound>isnotNone', 'log_opt',
         'grad.size', 'log_opt', 'log_opt', 'log_opt']],
    ('Misc', 'perturb_params'): [['lower_boundisnotNone', 'EL<lower_bound>isNone', 'upper_boundisnotNone', 'EL<upper_bound>isNone']],
}

def condition_obligations(ctx):
    for mod, path in (('Inference', INFERENCE), ('NLopt_mod', NLOPT_MOD), ('Misc', MISC)):
        try:
            tree = ast.parse(open(path).read())
            fns = {}
            for n in tree.body:
                if isinstance(n, ast.FunctionDef):
                    fns.setdefault(n.name, []).append(n)
        except (OSError, SyntaxError) as e:
            ctx.obligation('parse dadi/%s.py' % mod, False, 'translator', repr(e))
            continue
        for (m, name), accepted in COND_TESTS.items():
            if m != mod:
                continue
            what = 'conditional tests of %s.%s are the None / bound tests of the model' % (mod, name)
            if len(fns.get(name, [])) != 1:
                ctx.obligation(what, False, 'translator', '%d definitions of %s' % (len(fns.get(name, [])), name))
                continue
            try:
                got = cond_tests(fns[name][0])
            except Exception as e:
                ctx.obligation(what, False, 'translator', 'not readable: %r' % (e,))
                continue
            ok = got in accepted
            detail = ''
            if not ok:
                exp = accepted[0]
                detail = 'source has %r; the model has %r' % ([t for t in got if t not in exp] or got, [t for t in exp if t not in got] or exp)
            ctx.obligation(what, ok, 'translator', detail)

# ------------------------------------------------------------------------------------------------
# Coq literals

def qopt(x):
    return 'None' if x is None else 'Some %s' % q(x)

def qoptlist(xs):
    if xs is None:
        return 'None'
    return 'Some [' + '; '.join(qopt(x) for x in xs) + ']'

def qll_text(spec):
    return '{| q_c0 := %s; q_cs := %s; q_ws := %s; q_nan := %s |}' % (q(spec['c0']), ql(spec['cs']), ql(spec['ws']), qopt(spec.get('nan')))

def xnum_list(xs):
    out = []
    for x in xs:
        if x == 'nan':
            out.append('XNaN')
        elif x == 'inf':
            out.append('XPosInf')
        elif x == '-inf':
            out.append('XNegInf')
        else:
            out.append('XFin %s' % q(x))
    return '[' + '; '.join(out) + ']'

def variants_of(c):
    """model variants a scripted case is compared with: 0 = the current code, 1.. = forms of the snapshot (Model/OptimCheck.v)"""
    if c.get('call') is not None:
        return (0,)               # the keyword-combination stream is compared with the model of the current code alone
    if c['fn'] == 'opt' and c.get('log_opt'):
        return (0, 1, 2)
    if c['fn'] in ('optimize_lbfgsb', 'optimize_log_lbfgsb', 'optimize_grid'):
        return (0, 1)
    return (0,)

def chosen_index(orc):
    vals = orc.get('vals') or []
    k = 0
    for i in range(1, len(vals)):
        if isinstance(vals[i], str) or isinstance(vals[k], str):
            continue
        if (vals[k] < vals[i]) if orc.get('maximize') else (vals[i] < vals[k]):
            k = i
    return k

def near_tie(orc):
    vals = orc.get('vals') or []
    tr = orc.get('trace') or []
    if not vals or any(isinstance(v, str) for v in vals):
        return False
    k = chosen_index(orc)
    return any(i != k and tr[i] != tr[k] and abs(vals[i] - vals[k]) <= 1e-9 * max(1.0, abs(vals[k])) for i in range(len(vals)))

def finite(xs):
    return all(not isinstance(x, str) for x in xs)

def case_text(c, r, variant):
    orc = r.get('oracle') or {}
    raised = 'error' in r
    okvals = (not raised) and finite(r['x']) and (r['f'] is None or not isinstance(r['f'], str)) \
        and all(finite(e) for e in r['evals']) and finite(orc.get('start', [])) and all(finite(t) for t in orc.get('trace', []))
    if not raised and not okvals:
        return None
    props = c['grid_points'] if c['fn'] == 'optimize_grid' else c['props']
    ret = c.get('ret')
    if ret is None and not raised and near_tie(orc):
        # two evaluated points within rounding of each other in value (exp/log in the optimiser's coordinates): the exact
        # model may legitimately rank them the other way round, so the model is told which point the stub picked
        ret = chosen_index(orc)
    return ('{| c_fn := %s; c_log := %s; c_variant := %s; c_p0 := %s; c_lower := %s; c_upper := %s; c_fixed := %s; '
            'c_multinom := %s; c_scale := %s; c_props := %s; c_ret := %s; c_full := %s; c_clip := %s; c_llm := %s; c_llp := %s; '
            'i_raised := %s; i_x := %s; i_f := %s; i_evals := %s; i_lo := %s; i_hi := %s; i_start := %s; i_trace := %s |}') % (
        FN_TAG[c['fn']], b(c.get('log_opt', False)), '%d%%nat' % variant, ql(c['p0'] or []), qoptlist(c['lower']), qoptlist(c['upper']), qoptlist(c['fixed']),
        b(c['multinom']), q(c['ll_scale'] if c['fn'] in SCALE_FORWARDED else 1), lib.qll(props),
        'None' if ret is None else 'Some %d%%nat' % ret, b(c.get('full_output', True)), b(bool(c.get('clip'))), qll_text(c['llm']), qll_text(c['llp']),
        b(raised), ql(r['x']) if not raised else '[]', qopt(r['f']) if not raised else 'None',
        lib.qll(r['evals']) if not raised else '[]', xnum_list(orc.get('lo', [])) if not raised else '[]',
        xnum_list(orc.get('hi', [])) if not raised else '[]', ql(orc.get('start', [])) if not raised else '[]',
        lib.qll(orc.get('trace', [])) if not raised else '[]')

HEADER = ('From Coq Require Import ZArith QArith List.\nFrom Dadi Require Import Base.Num Base.NumQ Model.Optim Model.OptimCheck.\n'
          'Import ListNotations.\nOpen Scope Q_scope.')

# ------------------------------------------------------------------------------------------------
# generators

def subsets(n):
    """all patterns of fixed positions of an n-vector except 'everything fixed'"""
    return [s for k in range(0, n) for s in itertools.combinations(range(n), k)]

def gen_box(rng, n, positive, allow_none=True):
    lower, upper = [], []
    for i in range(n):
        if positive:
            lo = rng.choice([0.125, 0.25, 0.5, 1.0])
            hi = lo * rng.choice([4, 8, 16])
        else:
            lo = lib.dyadic(rng, -4, 1, 3)
            hi = lo + rng.choice([1.0, 2.0, 3.5, 6.0])
        lower.append(lo); upper.append(hi)
    return lower, upper

def inside(rng, lo, hi, bits=6):
    """dyadic point strictly inside (lo,hi), at least 1/16 of the width away from both ends"""
    w = hi - lo
    k = rng.randint(1, 15)
    return lo + w * k / 16.0

def gen_ll(rng, lower, upper, nan_ok):
    n = len(lower)
    spec = {'c0': lib.dyadic(rng, -8, 8, 3), 'cs': [inside(rng, lower[i], upper[i]) for i in range(n)],
            'ws': [rng.choice([0.5, 1.0, 2.0, 0.25, 3.0]) for _ in range(n)], 'nan': None}
    if nan_ok and rng.random() < 0.3:
        spec['nan'] = lower[0] + (upper[0] - lower[0]) * rng.choice([0.53, 0.71, 0.83])
    return spec

def away(x, bnds, rel=1e-6):
    return all(bd is None or abs(x - bd) > rel * max(1.0, abs(bd)) for bd in bnds)

# ---- edge values of fixed parameters and bounds -----------------------------------------------------------------------
# Python's None is "absent"; every number is a value -- 0 in particular (no selection, no migration), whatever its Python
# type.  The patterns below are drawn SYSTEMATICALLY (every run, every wrapper): a parameter fixed at exactly zero in leading,
# middle and trailing position relative to the free ones, several at once, everything fixed; negative fixed values; fixed
# values equal to a bound; bound entries equal to zero; fixed_params / bounds as list, tuple and numpy array.
ZKINDS = ['int', 'float', 'npfloat', 'npint', 'negzero', 'bool']       # 0, 0.0, numpy.float64(0), numpy.int64(0), -0.0, False
CONTAINERS = ['list', 'tuple', 'array']
Z, NEG, ATLO, ATHI = 'zero', 'neg', 'at_lower', 'at_upper'

def edge_patterns(n, all_fixed=True, logspace=False):
    """list of edge specs for an n-vector: {'fix': {position: what}, 'lo0': [free positions with lower bound 0],
    'hi0': [free positions with upper bound 0]}"""
    if n == 1:
        out = ([{'fix': {0: Z}}] if all_fixed else []) + [{'fix': {}, 'lo0': [0]}]
    elif n == 2:
        out = [{'fix': {0: Z}}, {'fix': {1: Z}, 'lo0': [0]}]
    elif n == 3:
        out = [{'fix': {0: Z}}, {'fix': {1: Z}}, {'fix': {2: Z}},                      # leading, middle, trailing
               {'fix': {0: Z, 2: Z}}, {'fix': {0: NEG, 1: Z}}, {'fix': {0: ATLO, 2: ATHI}}]
        if all_fixed:
            out.append({'fix': {0: Z, 1: NEG, 2: Z}})
        out += [{'fix': {}, 'lo0': [0]}, {'fix': {1: Z}, 'lo0': [2], 'hi0': [0]}]
        if not logspace:                               # (no positive parameter below an upper bound of 0)
            out.append({'fix': {}, 'hi0': [1]})
    else:
        out = [{'fix': {0: Z}}, {'fix': {n - 1: Z}}, {'fix': {1: Z, n - 1: Z}}, {'fix': {0: NEG, 2: Z}},
               {'fix': {1: Z}, 'lo0': [2], 'hi0': [0]}]
    return out

class Rot:
    """deterministic rotation through the Python types / containers (one counter per list), so that each occurs on every run"""
    def __init__(self, start=0):
        self.start = start
        self.k = {}
    def count(self, name):
        k = self.k.get(name, self.start)
        self.k[name] = k + 1
        return k
    def next(self, seq):
        return seq[self.count(tuple(seq)) % len(seq)]

def apply_edge(rng, rot, n, lower, upper, edge, logspace):
    """rewrites the box for the edge spec; returns the case fields fixed / kinds / containers"""
    fixed = [None] * n
    fkinds = [None] * n
    lkinds = [None] * n
    ukinds = [None] * n
    for i in edge.get('lo0', []):
        lower[i] = 0.0
        if upper[i] <= 0:
            upper[i] = rng.choice([1.0, 2.0, 4.0])
        lkinds[i] = rot.next(['int', 'float', 'npfloat', 'negzero'])
    for i in edge.get('hi0', []):
        if logspace:
            continue                                   # no positive parameter below an upper bound of 0
        upper[i] = 0.0
        lower[i] = -rng.choice([1.0, 2.0, 4.0])
        ukinds[i] = rot.next(['int', 'float', 'npfloat', 'negzero'])
    for i, what in sorted(edge['fix'].items()):
        if what == Z:
            fixed[i] = 0.0
            fkinds[i] = rot.next(ZKINDS)
            lower[i] = rot.next([0.0, -0.5, -2.0])     # a box that contains 0 (sometimes with 0 as its lower end)
            upper[i] = rng.choice([1.0, 2.0, 4.0])
            if lower[i] == 0.0:
                lkinds[i] = rot.next(['int', 'float'])
        elif what == NEG:
            fixed[i] = -rng.choice([0.5, 1.25, 3.0])
            fkinds[i] = rot.next(['float', 'npfloat'])
            lower[i] = fixed[i] - rng.choice([0.5, 1.0])
            upper[i] = fixed[i] + rng.choice([0.25, 2.0, 5.0])
        elif what == ATLO:
            fixed[i] = lower[i]
            fkinds[i] = rot.next(['float', 'npfloat'])
        elif what == ATHI:
            fixed[i] = upper[i]
            fkinds[i] = rot.next(['float', 'npfloat'])
        else:
            raise ValueError(what)
    k = rot.count('case')                              # all nine pairs of containers come round
    return {'fixed': fixed, 'fixed_kinds': fkinds, 'lower_kinds': lkinds, 'upper_kinds': ukinds,
            'fixed_container': CONTAINERS[k % 3], 'bound_container': CONTAINERS[(k // 3 + k) % 3]}

def edge_tag(edge):
    return ','.join('%d:%s' % (i, w) for i, w in sorted(edge['fix'].items())) + \
        ('|lo0=%s' % edge['lo0'] if edge.get('lo0') else '') + ('|hi0=%s' % edge['hi0'] if edge.get('hi0') else '')

# ---- whole numbers written with integer types -----------------------------------------------------------------------
# `p0=[1, 2]`, `upper_bound=[10, 10]`, `index_exp[2:7:1]` are natural input.  numpy.mgrid over ranges whose numbers are ALL
# Python ints is an integer array, and scipy.optimize.brute hands its rows to the objective as they are; a start projected
# down from a list of ints is an integer array, and an optimiser may evaluate it as handed (scipy.optimize.fmin_powell does).
# The fixed values beside them are not whole numbers.  Every wrapper meets these on every run, with the fixed value before,
# between and after the free ones.
INT_POSITIONS = [(3, [0]), (3, [1]), (3, [2]), (2, [1]), (4, [0, 2])]
INT_P0_SPELLINGS = [('list', 'int'), ('tuple', 'int'), ('array:int64', 'int'), ('list', 'npint'), ('array:int32', 'int'), ('array:auto', 'int'), ('tuple', 'npint32')]
INT_BOUND_CONTAINERS = ['list', 'tuple', 'array:int64', 'list', 'array:int32']
# per free parameter, the Python types of start:stop:step   (I int, F float, C complex step = number of points, ends included)
GRID_TYPINGS = {1: [['III'], ['IIC'], ['FFF'], ['IFI'], ['FFC']],
                2: [['III', 'III'], ['III', 'FFF'], ['IFI', 'III'], ['IIC', 'III'], ['IIC', 'IIC'], ['III', 'FFC'], ['III', 'IIF']],
                3: [['III', 'III', 'III'], ['III', 'IIC', 'III']]}

def int_box(rng, rot, n, ints):
    lower = [float(rng.choice([1, 2])) for _ in range(n)]
    upper = [lower[i] + rng.choice([3.0, 4.0, 6.0]) for i in range(n)]
    fixed = [None] * n
    fkinds = [None] * n
    for j, i in enumerate(ints['fixed_at']):
        fixed[i] = lower[i] + rot.next([0.5, 1.5, 0.25, 2.75, 0.1])       # inside its own box, not a whole number
        fkinds[i] = rot.next(['float', 'npfloat'])
        if j == 1 and not ints.get('positive'):
            fixed[i] = -rot.next([0.75, 2.5]); lower[i] = -3.0; upper[i] = 1.0
    cont, kind = rot.next(INT_P0_SPELLINGS)
    extra = {'fixed_kinds': fkinds, 'fixed_container': rot.next(CONTAINERS), 'p0_kinds': [kind] * n, 'p0_container': cont,
             'lower_kinds': ['int'] * n, 'upper_kinds': ['int'] * n, 'bound_container': rot.next(INT_BOUND_CONTAINERS),
             'ints': 'fixed at %s of %d' % (ints['fixed_at'], n)}
    return lower, upper, fixed, extra

def typed_grid(rng, starts, typing):
    """ranges ([start, stop, step] or, with a complex step, [start, stop, number of points]), the Python type of each number,
    and the values numpy.mgrid gives along each axis"""
    K = {'I': 'int', 'F': 'float', 'C': 'complex'}
    ranges, kinds, axes = [], [], []
    for lo, ty in zip(starts, typing):
        npts = rng.choice([2, 3]) if len(typing) >= 3 else rng.choice([3, 4])
        whole = 'F' not in ty
        start = float(int(lo)) if ty[0] == 'I' else float(int(lo)) + 0.5
        step = float(rng.choice([1, 2])) if whole or ty[2] == 'I' else rng.choice([0.5, 1.0, 0.75])
        if ty[2] == 'C':
            stop = start + step * (npts - 1)              # both ends included: start + k * (stop - start) / (npts - 1)
            if ty[1] == 'I':
                assert stop == int(stop)
            ranges.append([start, stop, float(npts)])
            axes.append([start + k * ((stop - start) / float(npts - 1)) for k in range(npts)])
        else:
            stop = start + step * npts if ty[1] == 'I' else start + step * npts - step / 2.0
            if ty[1] == 'I' and stop != int(stop):
                stop = float(math.ceil(stop))
            ranges.append([start, stop, step])
            axes.append([start + k * step for k in range(int(math.ceil((stop - start) / step)))])
        kinds.append([K[ch] for ch in ty])
    return ranges, kinds, axes

def gen_scripted_types(ctx, cases, fns):
    rng = sub_rng(ctx, 'scripted types')
    rot = Rot(ctx.seed + 3)
    for fn, log_opt in fns:
        if fn == 'optimize_grid':
            continue
        logspace = log_opt if fn == 'opt' else LOG_SPACE.get(fn, False)
        for n, fixed_at in INT_POSITIONS:
            c = gen_one_scripted(rng, fn, log_opt, n, None, rot=rot,
                                 ints={'fixed_at': fixed_at, 'positive': logspace or fn in NEEDS_POSITIVE})
            c['id'] = len(cases)
            cases.append(c)
    # optimize_grid: every typing of the ranges x the fixed value(s) before / between / after the free parameters
    for nfree, typings in sorted(GRID_TYPINGS.items()):
        for typing in typings:
            layouts = [[0], [nfree]] + ([[1]] if nfree >= 2 else []) + [[0, nfree + 1]]
            if nfree == 3:
                layouts = [[rot.next([0, 1, 2, 3])]]
            for fixed_at in layouts:
                n = nfree + len(fixed_at)
                c = gen_one_scripted(rng, 'optimize_grid', False, n, None, rot=rot, ints={'fixed_at': fixed_at, 'grid': typing})
                c['full_output'] = bool(rot.count('grid full_output') % 3)
                c['id'] = len(cases)
                cases.append(c)

def gen_scripted(ctx):
    rng = ctx.rng
    cases = []
    fns = [('opt', False), ('opt', True)] + [(f, False) for f in SCIPY_FNS] + [('optimize_grid', False)]
    reps = ctx.pick(1, 12)
    for fn, log_opt in fns:
        for n in ([1, 2, 3] if ctx.quick else [1, 2, 3, 4]):
            pats = [None] + subsets(n)
            for rep in range(reps):
                for pat in pats:
                    if ctx.quick and n == 3 and pat is not None and len(pat) == 1 and rng.random() < 0.5:
                        continue
                    c = gen_one_scripted(rng, fn, log_opt, n, pat)
                    c['id'] = len(cases)
                    cases.append(c)
    # the systematic edge block: every wrapper x every edge pattern, on every run
    rot = Rot(ctx.seed)
    for fn, log_opt in fns:
        for n in ([1, 2, 3] if ctx.quick else [1, 2, 3, 4]):
            for rep in range(ctx.pick(1, 3)):
                for edge in edge_patterns(n, all_fixed=(fn != 'optimize_grid'), logspace=(log_opt if fn == 'opt' else LOG_SPACE.get(fn, False))):
                    c = gen_one_scripted(rng, fn, log_opt, n, None, edge=edge, rot=rot)
                    c['id'] = len(cases)
                    cases.append(c)
    gen_scripted_types(ctx, cases, fns)
    return cases

def gen_one_scripted(rng, fn, log_opt, n, pat, edge=None, rot=None, ints=None):
    logspace = log_opt if fn == 'opt' else LOG_SPACE.get(fn, False)
    positive = logspace or fn in NEEDS_POSITIVE or (rng.random() < 0.4)
    lower, upper = gen_box(rng, n, positive)
    fixed = None
    extra = {}
    if ints is not None:
        # whole-number box, start and grid, written with integer types; the fixed values are not whole numbers
        lower, upper, fixed, extra = int_box(rng, rot, n, ints)
        edge = {'fix': {}}                               # (full bound lists, short scripts, no NaN region: as for the edge block)
    elif edge is not None:
        extra = apply_edge(rng, rot, n, lower, upper, edge, logspace)
        fixed = extra.pop('fixed')
        extra['edge'] = edge_tag(edge)
    elif pat is not None:
        fixed = [None] * n
        for i in pat:
            fixed[i] = inside(rng, lower[i], upper[i])
    free = [i for i in range(n) if fixed is None or fixed[i] is None]
    p0 = [inside(rng, lower[i], upper[i]) for i in range(n)]
    if ints is not None:
        p0 = [lower[i] + float(rng.randint(1, int(upper[i] - lower[i]) - 1)) for i in range(n)]
    c = {'fn': fn, 'log_opt': log_opt, 'n': n, 'p0': p0, 'fixed': fixed, 'multinom': rng.random() < 0.5,
         'll_scale': rng.choice([1, 1, 2, 0.5, 4]), 'maxiter': 50 if fn == 'optimize_cons' else None,
         'full_output': rng.random() < 0.85, 'ret': None}
    c.update(extra)
    if fn == 'opt':
        c['full_output'] = True
    c['llm'] = gen_ll(rng, lower, upper, edge is None)
    c['llp'] = gen_ll(rng, lower, upper, edge is None)
    # user-visible bounds: entries / whole lists may be None
    ulo, uhi = list(lower), list(upper)
    style = rng.random() if edge is None else 1.0
    if fn == 'optimize_grid':
        ulo = uhi = None
    elif style < 0.12:
        ulo = None
    elif style < 0.2:
        uhi = None
    elif style < 0.4 and fn != 'optimize_log_lbfgsb':
        ulo[rng.randrange(n)] = None
        if rng.random() < 0.5:
            uhi[rng.randrange(n)] = None
    elif style < 0.43 and fn == 'optimize_log_lbfgsb':
        ulo[rng.randrange(n)] = None                    # documented, but numpy.log raises: both worlds must agree on that
    if edge is None and (fn == 'opt' and log_opt or fn == 'optimize_log_lbfgsb') and ulo is not None and rng.random() < 0.25:
        ulo[rng.randrange(n)] = rng.choice([0.0, -1.0])  # log -> -inf / nan, exactly as written
    c['lower'], c['upper'] = ulo, uhi
    nanthr = [c['llm'].get('nan'), c['llp'].get('nan')]
    if fn == 'optimize_grid' and ints is not None:
        for k in ('p0_kinds', 'p0_container', 'lower_kinds', 'upper_kinds', 'bound_container'):
            c.pop(k, None)
        ranges, kinds, axes = typed_grid(rng, [lower[i] for i in free], ints['grid'])
        c['grid'], c['grid_kinds'] = ranges, kinds
        c['grid_points'] = [list(t) for t in itertools.product(*axes)]
        # the likelihoods peak on a grid point: the search must come back with exactly that point
        truth = [rng.choice(ax) for ax in axes]
        for spec in (c['llm'], c['llp']):
            for j, i in enumerate(free):
                spec['cs'][i] = truth[j]
        c['grid_truth'] = [truth[free.index(i)] if i in free else None for i in range(n)]
        c['props'] = []
        c['p0'] = None
        return c
    if fn == 'optimize_grid':
        ranges = []
        for i in free:
            npts = rng.choice([2, 3]) if len(free) >= 3 else rng.choice([2, 3, 4])
            step = (upper[i] - lower[i]) / 8.0 * rng.choice([1, 2])
            start = lower[i] + step * rng.choice([0, 1])
            ranges.append([start, start + step * npts - step / 2.0, step])
            if i == 0:          # keep grid values of parameter 0 off the NaN thresholds (exact anyway, but be safe)
                pass
        c['grid'] = ranges
        axes = [[r[0] + k * r[2] for k in range(int(math.ceil((r[1] - r[0]) / r[2])))] for r in ranges]
        c['grid_points'] = [list(t) for t in itertools.product(*axes)]
        c['props'] = []
        c['p0'] = None
        return c
    # proposals, in the optimiser's coordinates
    nprop = rng.randint(2, 7) if edge is None else rng.randint(2, 3)     # (edge cases are about the vectors, not long traces)
    oracle_bounded = fn in ORACLE_BOUNDED
    honour = oracle_bounded or rng.random() < 0.4        # stay inside the box (oracle contract) or roam freely
    if oracle_bounded and rng.random() < 0.1:
        honour = False                                   # a misbehaving optimiser: the wrapper must pass it through all the same
    if edge is not None and not oracle_bounded and (edge.get('lo0') or edge.get('hi0')):
        honour = False                                   # the bound test of _object_func against a bound of 0 needs points beyond it
    props = []
    for _ in range(nprop):
        for attempt in range(50):
            x = []
            for i in free:
                w = upper[i] - lower[i]
                if honour:
                    v = lower[i] + w * rng.randint(0, 32) / 32.0            # may sit exactly on a bound
                else:
                    v = lower[i] + w * rng.randint(-12, 44) / 32.0
                if logspace and v <= 0:
                    v = lower[i] / 2.0 if lower[i] > 0 else w / 64.0
                x.append(v)
            full = list(p0)
            for j, i in enumerate(free):
                full[i] = x[j]
            ok = True
            if logspace:
                # exp(log(v)) is v up to rounding: keep v off every threshold that decides a branch
                for j, i in enumerate(free):
                    if not away(x[j], [lower[i], upper[i]]) or (i == 0 and not away(x[j], nanthr)):
                        ok = False
                    if x[j] <= 0:
                        ok = False
            if ok:
                break
        props.append([math.log(v) for v in x] if logspace else x)
    if edge is not None and not logspace and not oracle_bounded:
        # one proposal just beyond each bound that is 0, all other coordinates inside the box: the bound test of that very
        # entry decides whether the model is evaluated
        for i, sign in [(i, -1.0) for i in edge.get('lo0', [])] + [(i, 1.0) for i in edge.get('hi0', [])]:
            if i in free:
                x = [inside(rng, lower[j], upper[j]) for j in free]
                x[free.index(i)] = sign * (upper[i] - lower[i]) * rng.randint(1, 12) / 32.0
                props.append(x)
    c['props'] = props
    c['honours_contract'] = bool(honour)
    if rng.random() < 0.12:
        c['ret'] = rng.randint(0, nprop)
        c['honours_contract'] = False
    if logspace:
        # the start goes through exp(log(.)) as well
        for i in free:
            if i == 0 and not away(p0[i], nanthr):
                p0[i] = p0[i] * 1.03125
    return c

def gen_model(rng, n, lower, upper, press=None):
    m = rng.randint(6, 9)
    base = [0.0] + [float(rng.randint(16, 48)) * 8 for _ in range(m - 2)] + [0.0]
    cs = [inside(rng, lower[i], upper[i]) for i in range(n)]
    quad = [[0.0] + [lib.dyadic(rng, -0.5, 0.5, 5) for _ in range(m - 2)] + [0.0] for _ in range(n)]
    for k in range(n):                      # make every parameter matter
        quad[k][1 + k % (m - 2)] = 0.375
    lin = [[0.0] * m for _ in range(n)]
    truth = [inside(rng, lower[i], upper[i]) for i in range(n)]
    for i, v in (press or {}).items():      # the data's parameter lies beyond a bound: the optimiser presses against it
        truth[i] = v
    spec = {'base': base, 'quad': quad, 'lin': lin, 'cs': cs}
    data = list(base)
    for k in range(n):
        for j in range(m):
            data[j] += quad[k][j] * (truth[k] - cs[k]) ** 2
    theta = rng.choice([1.0, 2.0, 0.5])
    spec['data'] = [round(theta * d * 8) / 8 for d in data]
    spec['truth'] = truth
    return spec

def real_variants():
    return [('opt', False, a) for a in LOCAL_NLOPT] + [('opt', True, a) for a in LOCAL_NLOPT[:2]] \
        + [('opt', False, a) for a in GLOBAL_NLOPT] + [('opt', True, GLOBAL_NLOPT[0])] \
        + [(f, False, None) for f in SCIPY_FNS] + [('optimize_grid', False, None)]

def gen_one_real(rng, fn, log_opt, alg, n, pat, edge=None, rot=None, box=None):
    logspace = log_opt if fn == 'opt' else LOG_SPACE.get(fn, False)
    positive = logspace or fn in NEEDS_POSITIVE or rng.random() < 0.6
    lower, upper = [], []
    for i in range(n):
        if positive:
            lo = rng.choice([0.25, 0.5, 1.0]); hi = lo * rng.choice([4, 8])
        else:
            lo = lib.dyadic(rng, -3, -0.5, 2); hi = lo + rng.choice([2.0, 3.0, 4.0])
        lower.append(lo); upper.append(hi)
    fixed = None
    extra = {}
    press = {}
    if box is not None:
        lower, upper, fixed, extra = box                 # whole-number box with integer types, fixed values not whole (int_box)
        extra = dict(extra)
    elif edge is not None:
        extra = apply_edge(rng, rot, n, lower, upper, edge, logspace)
        fixed = extra.pop('fixed')
        extra['edge'] = edge_tag(edge)
        if edge.get('press'):
            # the optimum of the unconstrained problem lies beyond the bound that is 0
            for i in edge.get('lo0', []):
                press[i] = -1.0
            for i in edge.get('hi0', []):
                if not logspace:
                    press[i] = 1.0
    elif pat is not None:
        fixed = [None] * n
        for i in pat:
            fixed[i] = inside(rng, lower[i], upper[i])
    c = {'fn': fn, 'log_opt': log_opt, 'algorithm': alg, 'n': n,
         'p0': [inside(rng, lower[i], upper[i]) for i in range(n)], 'fixed': fixed,
         'lower': list(lower), 'upper': list(upper), 'multinom': rng.random() < 0.5,
         'll_scale': rng.choice([1, 1, 2, 0.5]), 'full_output': True,
         'model': gen_model(rng, n, lower, upper, press), 'seed': rng.randint(1, 10 ** 6),
         'box': [list(lower), list(upper)]}
    c.update(extra)
    if box is not None:
        c['p0'] = [lower[i] + float(rng.randint(1, int(upper[i] - lower[i]) - 1)) for i in range(n)]
    if fn == 'opt':
        c['maxeval'] = 150 if alg in GLOBAL_NLOPT else 400
        if alg in GLOBAL_NLOPT:
            c['global'] = True
    elif fn == 'optimize_cons':
        c['maxiter'] = 40
    elif fn in ('optimize', 'optimize_log'):
        c['maxiter'] = 25
    elif fn in ('optimize_lbfgsb', 'optimize_log_lbfgsb'):
        c['maxiter'] = 400
    elif fn in ('optimize_log_fmin', 'optimize_log_powell'):
        c['maxiter'] = 60 if fn.endswith('fmin') else 6
    if fn == 'optimize_grid':
        free = [i for i in range(n) if fixed is None or fixed[i] is None]
        c['grid'] = []
        for i in free:
            npts = 3 if len(free) >= 3 else rng.choice([3, 4, 5])
            step = (upper[i] - lower[i]) / (npts + 1)
            c['grid'].append([lower[i] + step / 2, upper[i], step])
        c['p0'] = None; c['lower'] = None; c['upper'] = None
    elif edge is None and box is None and fn in ('opt', 'optimize_cons', 'optimize_lbfgsb', 'optimize') and rng.random() < 0.25 and alg not in GLOBAL_NLOPT:
        # None entries / whole-list None where the wrapper documents them
        if fn == 'opt' and log_opt:
            pass                      # an absent lower bound in log space is the subject of a probe
        elif rng.random() < 0.5:
            c['upper'] = None
        else:
            c['lower'][rng.randrange(n)] = None
    return c

def sfs_py(spec, p):
    m = len(spec['base'])
    return [spec['base'][j] + sum(spec['quad'][k][j] * (p[k] - spec['cs'][k]) ** 2 + spec['lin'][k][j] * p[k] for k in range(len(p))) for j in range(m)]

def ll_py(model, data, multinom):
    """generator-side only (margin between the best and the second-best grid point): Poisson log-likelihood over the interior
    entries, the model scaled to the data's total with multinom"""
    mv, dv = model[1:-1], data[1:-1]
    if multinom:
        sc = sum(dv) / sum(mv)
        mv = [sc * v for v in mv]
    return sum(-a + d * math.log(a) - math.lgamma(d + 1.0) for a, d in zip(mv, dv))

def gen_grid_model(rng, n, fixed, free, axes, multinom):
    """a closed-form model whose likelihood has its maximum over the whole parameter space at a GRID point (the data are the
    model there, exactly); the parameters are coupled (every entry depends on several of them), so that a search that runs with
    other values for the fixed parameters ranks the grid points differently"""
    pts = [list(t) for t in itertools.product(*axes)]
    for attempt in range(60):
        m = rng.randint(7, 9)
        base = [0.0] + [float(rng.randint(16, 48)) * 8 for _ in range(m - 2)] + [0.0]
        quad = [[0.0] + [lib.dyadic(rng, -0.5, 0.5, 5) for _ in range(m - 2)] + [0.0] for _ in range(n)]
        for k in range(n):
            quad[k][1 + k % (m - 2)] = 0.375
        # centres to the left of the grid (no mirror image of a grid point is a grid point), fixed ones near their value
        cs = [None] * n
        for j, i in enumerate(free):
            cs[i] = min(axes[j]) - rng.choice([0.75, 1.25, 0.375])
        for i in range(n):
            if cs[i] is None:                             # (far from the fixed value: a fixed value that is off by a fraction matters)
                cs[i] = fixed[i] - rng.choice([5.0, 8.0, 6.5])
        truth_free = [rng.choice(ax) for ax in axes]
        truth = [truth_free[free.index(i)] if i in free else fixed[i] for i in range(n)]
        spec = {'base': base, 'quad': quad, 'lin': [[0.0] * m for _ in range(n)], 'cs': cs}
        theta = rng.choice([1.0, 2.0, 0.5]) if multinom else 1.0
        spec['data'] = [theta * v for v in sfs_py(spec, truth)]
        spec['truth'] = truth
        full = lambda t: [t[free.index(i)] if i in free else fixed[i] for i in range(n)]
        models = [sfs_py(spec, full(t)) for t in pts]
        if any(v <= 1.0 for mdl in models for v in mdl[1:-1]):
            continue
        best = ll_py(sfs_py(spec, truth), spec['data'], multinom)
        others = [ll_py(mdl, spec['data'], multinom) for t, mdl in zip(pts, models) if t != truth_free]
        if all(best - o > 1e-5 * max(1.0, abs(best)) for o in others):
            return spec
    raise RuntimeError('no identifiable grid model found')

def gen_real_types(ctx, cases, variants):
    """whole-number boxes, starts and grids written with integer types, fixed values that are not whole numbers (see
    gen_scripted_types), for the real optimisers"""
    rng = sub_rng(ctx, 'real types')
    rot = Rot(ctx.seed + 4)
    for fn, log_opt, alg in variants:
        if fn == 'optimize_grid':
            continue
        logspace = log_opt if fn == 'opt' else LOG_SPACE.get(fn, False)
        for n, fixed_at in (INT_POSITIONS[:3] if ctx.quick else INT_POSITIONS):
            lower, upper, fixed, extra = int_box(rng, rot, n, {'fixed_at': fixed_at, 'positive': True})
            c = gen_one_real(rng, fn, log_opt, alg, n, None, box=(lower, upper, fixed, extra))
            c['id'] = len(cases)
            cases.append(c)
    for nfree, typings in sorted(GRID_TYPINGS.items()):
        for typing in typings:
            layouts = [[0], [nfree]] + ([[1]] if nfree >= 2 else []) + [[0, nfree + 1]]
            if nfree == 3 or (ctx.quick and typing != ['I' * 3] * nfree):
                layouts = [[rot.next(list(range(nfree + 1)))]]
            for fixed_at in layouts:
                n = nfree + len(fixed_at)
                lower, upper, fixed, extra = int_box(rng, rot, n, {'fixed_at': fixed_at})
                free = [i for i in range(n) if fixed[i] is None]
                ranges, kinds, axes = typed_grid(rng, [lower[i] for i in free], typing)
                multinom = bool(rot.count('grid multinom') % 2)
                c = {'fn': 'optimize_grid', 'log_opt': False, 'algorithm': None, 'n': n, 'p0': None, 'fixed': fixed, 'lower': None, 'upper': None,
                     'multinom': multinom, 'll_scale': 1, 'full_output': True, 'seed': rng.randint(1, 10 ** 6),
                     'fixed_kinds': extra['fixed_kinds'], 'fixed_container': extra['fixed_container'], 'ints': extra['ints'],
                     'grid': ranges, 'grid_kinds': kinds, 'model': gen_grid_model(rng, n, fixed, free, axes, multinom)}
                c['grid_truth'] = [c['model']['truth'][i] if i in free else None for i in range(n)]
                c['box'] = [[min(axes[free.index(i)]) if i in free else fixed[i] for i in range(n)],
                            [max(axes[free.index(i)]) if i in free else fixed[i] for i in range(n)]]
                c['id'] = len(cases)
                cases.append(c)

def gen_real(ctx):
    rng = ctx.rng
    cases = []
    variants = real_variants()
    ns = [1, 2, 3] if ctx.quick else [1, 2, 3, 4]
    reps = ctx.pick(1, 3)
    for fn, log_opt, alg in variants:
        for n in ns:
            pats = [None] + subsets(n)
            if ctx.quick and n == 3:
                pats = [None] + rng.sample(subsets(3), 3)
            if ctx.quick and n == 2 and alg in LOCAL_NLOPT[2:] + GLOBAL_NLOPT[1:]:
                pats = pats[:2]
            for rep in range(reps):
                for pat in pats:
                    c = gen_one_real(rng, fn, log_opt, alg, n, pat)
                    c['id'] = len(cases)
                    cases.append(c)
    # the systematic edge block (every optimiser, every run): a parameter fixed at exactly zero before, between and after
    # the free ones; negative / at-a-bound fixed values; and, for the optimisers that are handed the box, a bound of 0 with
    # the data's parameter beyond it
    rot = Rot(ctx.seed + 1)
    for fn, log_opt, alg in variants:
        edges = [(3, {'fix': {0: Z}}), (3, {'fix': {1: Z}}), (3, {'fix': {2: Z}}), (2, {'fix': {0: Z}}),
                 (3, {'fix': {0: NEG, 2: ATHI}}), (3, {'fix': {0: Z, 1: Z}})]
        if not ctx.quick:
            edges += [(4, {'fix': {1: Z, 3: Z}}), (4, {'fix': {0: Z}}), (3, {'fix': {0: ATLO, 1: Z}}), (2, {'fix': {1: Z}})]
        if fn == 'opt' and not log_opt:
            edges += [(3, {'fix': {1: Z}, 'lo0': [2], 'press': True}), (2, {'fix': {}, 'hi0': [1], 'press': True}),
                      (2, {'fix': {0: Z}, 'lo0': [1], 'hi0': [], 'press': True})]
        elif fn in ('optimize_lbfgsb', 'optimize_cons'):
            edges += [(3, {'fix': {1: Z}, 'lo0': [2], 'press': True}), (2, {'fix': {}, 'hi0': [1], 'press': True})]
        elif fn != 'optimize_grid' and alg not in GLOBAL_NLOPT:
            # (a global search in log(params) above a lower bound of 0 is a search over an unbounded box: nlopt refuses it)
            edges += [(2, {'fix': {}, 'lo0': [0]})]
        for rep in range(ctx.pick(1, 2)):
            for n, edge in edges:
                c = gen_one_real(rng, fn, log_opt, alg, n, None, edge=edge, rot=rot)
                c['id'] = len(cases)
                cases.append(c)
    gen_real_types(ctx, cases, variants)
    return cases

# ------------------------------------------------------------------------------------------------
# the property clauses, evaluated on what the real code did

def vkey(c, clause):
    return '%s%s%s:%s' % (c['fn'], '+log_opt' if c.get('log_opt') else '', ('+' + c['keytag']) if c.get('keytag') else '', clause)

def rel_le(a, bnd, tol=1e-9):
    return a <= bnd + tol * max(1.0, abs(bnd))

def clauses(ctx, c, r, ll_at_x, ll_at_p0, mode, only=None):
    """returns list of (clause, message) that fail for one finished optimisation; with [only] (a set) just the clauses
    that hold whatever the optimiser does: fixed parameters returned and evaluated unchanged, well-formed points and,
    with 'bounds' in [only] (wrappers whose objective carries the bounds), no model evaluation outside the bounds"""
    bad = []
    fn = c['fn']; n = c['n']; fixed = c['fixed']
    x = r['x']
    if len(x) != n or not finite(x):
        bad.append(('returned-vector-malformed', 'returned %r for %d parameters' % (x, n)))
        return bad
    lo = c['lower'] if c['lower'] is not None else [None] * n
    hi = c['upper'] if c['upper'] is not None else [None] * n
    if fn == 'optimize_grid':
        lo, hi = [None] * n, [None] * n
    free = [i for i in range(n) if fixed is None or fixed[i] is None]
    def inb(v, i):
        return (lo[i] is None or rel_le(lo[i], v)) and (hi[i] is None or rel_le(v, hi[i]))
    # 1 fixed parameters unchanged
    for i in range(n):
        if i not in free and x[i] != fixed[i]:
            bad.append(('fixed-parameter-changed', 'parameter %d fixed at %r returned as %r' % (i, fixed[i], x[i])))
            break
    # 1b fixed parameters are handed to the model unchanged at every evaluation
    for e in r['evals']:
        if finite(e) and len(e) == n and any(i not in free and e[i] != fixed[i] for i in range(n)):
            i = [i for i in range(n) if i not in free and e[i] != fixed[i]][0]
            bad.append(('fixed-parameter-not-held-during-search', 'model evaluated at %r: parameter %d is fixed at %r' % (e, i, fixed[i])))
            break
    if only is not None:
        # the clauses that hold for ANY optimiser, whatever it proposes
        if 'bounds' in only:
            for e in r['evals']:
                if finite(e) and len(e) == n and any(not inb(e[i], i) and (i in free or inb(fixed[i], i)) for i in range(n)):
                    bad.append(('model-evaluated-out-of-bounds', 'evaluated at %r, bounds %r %r' % (e, lo, hi)))
                    break
        for e in r['evals']:
            if not finite(e) or len(e) != n:
                bad.append(('model-evaluated-at-malformed-point', repr(e))); break
        return bad
    # 2 free parameters within bounds
    for i in free:
        if not inb(x[i], i):
            bad.append(('returned-free-parameter-out-of-bounds', 'parameter %d = %r outside [%r, %r]' % (i, x[i], lo[i], hi[i])))
            break
    # 3 never evaluates outside the bounds (fixed entries are checked when they are inside themselves: the
    #   docstring declares fixed values outside their bounds unsupported)
    for e in r['evals']:
        if not finite(e) or len(e) != n:
            bad.append(('model-evaluated-at-malformed-point', repr(e))); break
        viol = [i for i in range(n) if not inb(e[i], i) and (i in free or inb(fixed[i], i))]
        if viol:
            bad.append(('model-evaluated-out-of-bounds', 'evaluated at %r, bounds %r %r' % (e, lo, hi)))
            break
    # 3b grid search: the likelihood peaks on a grid point by construction, the search returns exactly that point
    if fn == 'optimize_grid' and c.get('grid_truth') is not None and c.get('ret') is None:
        t = c['grid_truth']
        if any(t[i] is not None and x[i] != t[i] for i in range(n)):
            bad.append(('grid-search-misses-on-grid-optimum', 'grid search over %s returned %r; the likelihood peaks on the grid point %r' % (grid_repr(c), x, [t[i] if t[i] is not None else fixed[i] for i in range(n)])))
    # 4 local optimisers: first model evaluation at the user's start
    if fn != 'optimize_grid' and not c.get('global'):
        p0s = [c['p0'][i] if i in free else fixed[i] for i in range(n)]
        if not r['evals']:
            bad.append(('no-model-evaluation', 'model never evaluated'))
        else:
            e0 = r['evals'][0]
            if not finite(e0) or any(abs(e0[i] - p0s[i]) > 1e-12 * max(1.0, abs(p0s[i])) for i in range(n)):
                bad.append(('first-evaluation-not-at-p0', 'first model evaluation at %r, start %r' % (e0, p0s)))
    # 5 likelihood of the returned point is the reported optimum
    if r.get('f') is not None and ll_at_x is not None:
        f = r['f']
        if isinstance(f, str) or isinstance(ll_at_x, str):
            bad.append(('reported-optimum-not-finite', 'reported %r, likelihood of returned point %r' % (f, ll_at_x)))
        else:
            scale = (c['ll_scale'] if fn in SCALE_FORWARDED else 1) if fn != 'opt' else 1
            reported_ll = f if fn == 'opt' else -f * scale
            if mode == 'real' and fn != 'opt' and CFG.get(fn, (0, 0, 0, False))[3] and abs(reported_ll + 1e8) < 1.0 \
                    and any(cl == 'returned-free-parameter-out-of-bounds' for cl, _ in bad):
                # the optimiser stopped on the plateau of the out-of-bounds penalty (finite-difference gradient 0 there):
                # one phenomenon, one key
                bad[:] = [t for t in bad if t[0] != 'returned-free-parameter-out-of-bounds']
                bad.append(('stopped-on-out-of-bounds-penalty', 'returned %r outside the bounds %r %r with the out-of-bounds penalty as reported optimum (ll there = %r)' % (x, lo, hi, ll_at_x)))
            elif abs(reported_ll - ll_at_x) > 1e-9 * max(1.0, abs(ll_at_x)):
                bad.append(('ll(popt)!=reported-optimum', 'reported optimum %r but ll(returned popt) = %r (popt %r)' % (reported_ll, ll_at_x, x)))
            # 6 primary optimiser: no worse than the start
            if fn == 'opt' and not c.get('global') and ll_at_p0 is not None and not isinstance(ll_at_p0, str):
                if reported_ll < ll_at_p0 - 1e-9 * max(1.0, abs(ll_at_p0)):
                    bad.append(('reported-optimum-worse-than-start', 'reported %r < ll(p0) = %r' % (reported_ll, ll_at_p0)))
                if ll_at_x < ll_at_p0 - 1e-9 * max(1.0, abs(ll_at_p0)):
                    bad.append(('returned-point-worse-than-start', 'll(popt) = %r < ll(p0) = %r' % (ll_at_x, ll_at_p0)))
    return bad

def start_in_box(orc):
    st = orc.get('start') or []
    def num(v):
        return {'inf': float('inf'), '-inf': float('-inf'), 'nan': float('nan')}.get(v, v) if isinstance(v, str) else v
    for bnds, lower in ((orc.get('lo') or [], True), (orc.get('hi') or [], False)):
        for bd, v in zip(bnds, st):
            bd = num(bd); v = num(v)
            if bd != bd or v != v:
                continue
            if (v < bd) if lower else (v > bd):
                return False
    return True

def quad_py(spec, p):
    if spec.get('nan') is not None and p[0] > spec['nan']:
        return 'nan'
    s = 0.0
    for pi, ci, wi in zip(p, spec['cs'], spec['ws']):
        s = s + wi * (pi - ci) * (pi - ci)
    v = spec['c0'] - s
    return v

def guard(v):
    return -1e8 if v == 'nan' else v

DRIFT = [('iprint', 'lbfgsb:scipy-rejects-iprint-keyword',
          "optimize_lbfgsb / optimize_log_lbfgsb raise TypeError: the installed scipy.optimize.fmin_l_bfgs_b has no 'iprint' keyword")]

def classify_error(c, err):
    if 'iprint' in err and c['fn'] in ('optimize_lbfgsb', 'optimize_log_lbfgsb'):
        return 'lbfgsb:scipy-rejects-iprint-keyword'
    return None

# ------------------------------------------------------------------------------------------------

# ------------------------------------------------------------------------------------------------
# running the driver: a defect in the glue can hand nlopt / scipy vectors of the wrong dimension and kill the interpreter
# itself (heap corruption, abort).  That must end as a violation with the input, not as a failure of the check.

def run_driver(mode, cases, timeout, budget=None):
    import subprocess
    budget = budget if budget is not None else [40]
    try:
        return lib.run_impl('c12_impl.py', {'mode': mode, 'cases': cases}, timeout=timeout)
    except (RuntimeError, subprocess.TimeoutExpired) as e:
        lines = [l for l in str(e).strip().splitlines() if l.strip()]
        what = ('InterpreterHang: no answer within %ds' % timeout) if isinstance(e, subprocess.TimeoutExpired) else \
            'InterpreterCrash: ' + (lines[-1] if lines else repr(e))[:200]
        if len(cases) == 1 or budget[0] <= 0:
            return [{'id': c['id'], 'error': what + ('' if len(cases) == 1 else ' (one of a batch of %d cases)' % len(cases)),
                     'evals': [], 'oracle': {}, 'x': [], 'f': None} for c in cases]
        budget[0] -= 2
        h = len(cases) // 2
        t2 = max(120, timeout // 2)
        return run_driver(mode, cases[:h], t2, budget) + run_driver(mode, cases[h:], t2, budget)

def typed_repr(vals, kinds, container, force_object=False):
    """the argument as the Python expression that was handed to the real code"""
    if vals is None:
        return 'None'
    kinds = kinds or [None] * len(vals)
    def one(v, k):
        if v is None:
            return 'None'
        if k in ('int', 'npint', 'npint32', 'np0d_int'):
            return {'int': '%d', 'npint': 'numpy.int64(%d)', 'npint32': 'numpy.int32(%d)', 'np0d_int': 'numpy.array(%d)'}[k] % v
        if k == 'negzero':
            return '-0.0'
        if k in ('bool', 'npbool'):
            return repr(bool(v)) if k == 'bool' else 'numpy.bool_(%r)' % bool(v)
        if k in ('npfloat', 'npfloat32', 'np0d'):
            return {'npfloat': 'numpy.float64(%r)', 'npfloat32': 'numpy.float32(%r)', 'np0d': 'numpy.array(%r)'}[k] % float(v)
        return repr(float(v))
    items = [one(v, k) for v, k in zip(vals, kinds)]
    body = ', '.join(items)
    if container == 'tuple':
        return '(%s%s)' % (body, ',' if len(vals) == 1 else '')
    if container == 'scalar':
        return body
    if container == 'array0d':
        return 'numpy.array(%s)' % body
    if container == 'array:auto':
        return 'numpy.array([%s])' % body
    if isinstance(container, str) and container.startswith('array:'):
        return 'numpy.array([%s], dtype=numpy.%s)' % (body, container[6:] + ('_' if container[6:] == 'bool' else ''))
    if container == 'array':
        return 'numpy.array([%s]%s)' % (body, ', dtype=object' if force_object or any(v is None for v in vals) else '')
    return '[%s]' % body

def grid_repr(c):
    """the grid as the index expression that was handed to optimize_grid"""
    kinds = c.get('grid_kinds') or [None] * len(c['grid'])
    def num(v, k):
        return {'int': '%d' % v, 'npint': 'numpy.int64(%d)' % v, 'complex': '%dj' % v}.get(k, repr(float(v)))
    return 'index_exp[%s]' % ', '.join(':'.join(num(v, k) for v, k in zip(r, ks or [None] * 3)) for r, ks in zip(c['grid'], kinds))

def inputs_text(c):
    p0 = repr(c.get('p0')) if not (c.get('p0_kinds') or c.get('p0_container')) else typed_repr(c.get('p0'), c.get('p0_kinds'), c.get('p0_container'))
    return 'fixed_params=%s p0=%s lower_bound=%s upper_bound=%s%s' % (
        typed_repr(c.get('fixed'), c.get('fixed_kinds'), c.get('fixed_container'), True), p0,
        typed_repr(c.get('lower'), c.get('lower_kinds'), c.get('bound_container')),
        typed_repr(c.get('upper'), c.get('upper_kinds'), c.get('bound_container')),
        (' grid=' + grid_repr(c)) if c.get('grid') is not None else '')

def report(ctx, c, failures, r, mode, seen):
    for clause, msg in failures:
        key = vkey(c, clause)
        if key in seen:
            seen[key] += 1
            continue
        seen[key] = 1
        ctx.violation('%s%s%s (%s run) %s: %s' % (c['fn'], ' log_opt=True' if c.get('log_opt') else '', ('/' + c['algorithm']) if c.get('algorithm') else '',
                                                 mode, call_text(c), msg),
                      data={'mode': mode, 'case': c, 'impl': r, 'clause': clause, 'call': call_text(c)}, key=key)

def call_text(c):
    if c.get('call'):
        from harness.props import c12_kw
        return c12_kw.call_text(c)
    return inputs_text(c)

def scripted_case_clauses(ctx, c, r, seen):
    """the property clauses on one finished scripted run; returns the number of failing clauses"""
    fn = c['fn']
    nfail = 0
    if finite(r['x']):
        # whatever the script: fixed parameters are returned and evaluated unchanged, and a wrapper whose objective
        # carries the bounds never lets the model see a point outside them (C12_never_evaluates_out_of_bounds)
        always = {'bounds'} if (fn in CFG and CFG[fn][3]) else set()
        fails = clauses(ctx, dict(c), r, None, None, 'scripted', only=always)
        nfail += len(fails)
        report(ctx, dict(c), fails, r, 'scripted', seen)
    if c.get('honours_contract') or fn == 'optimize_grid' and c.get('ret') is None:
        spec = c['llm'] if c['multinom'] else c['llp']
        if not finite(r['x']) or len(r['x']) != c['n']:
            return nfail
        ll_x = guard(quad_py(spec, r['x']))
        ll_p0 = None
        if c['p0'] is not None:
            p0s = [c['p0'][i] if (c['fixed'] is None or c['fixed'][i] is None) else c['fixed'][i] for i in range(c['n'])]
            ll_p0 = guard(quad_py(spec, p0s))
        cc = dict(c)
        fails = clauses(ctx, cc, r, ll_x, ll_p0, 'scripted')
        orc = r.get('oracle') or {}
        if not start_in_box(orc):
            # the stub evaluates the start it is handed even when that lies outside the box it is handed (a real
            # optimiser would clip it): evaluations outside the bounds are then the stub's doing
            fails = [f for f in fails if f[0] not in ('model-evaluated-out-of-bounds', 'returned-free-parameter-out-of-bounds')]
        nfail += len(fails)
        report(ctx, cc, fails, r, 'scripted', seen)
    return nfail

def scripted_clauses_only(ctx, cases, seen):
    """targeted search: scripted runs evaluated with the property clauses alone (no Coq); returns (failures, results by id)"""
    for k, c in enumerate(cases):
        c['id'] = k
    res = run_driver('scripted', cases, 900)
    byid = {r['id']: r for r in res}
    nfail = 0
    for c in cases:
        r = byid[c['id']]
        ctx.case(signature=('t', c['fn'], c.get('log_opt'), c['p0'], c['fixed'], c['lower'], c['upper'], c['props'], repr(c.get('call'))))
        if 'error' in r:
            nfail += 1
            key = vkey(c, 'raises-' + r['error'].split(':')[0])
            if key not in seen:
                seen[key] = 1
                ctx.violation('%s (scripted run) %s raises on a valid call: %s' % (c['fn'], call_text(c), r['error']),
                              data={'mode': 'scripted', 'case': c, 'impl': r, 'call': call_text(c)}, key=key)
            continue
        nfail += scripted_case_clauses(ctx, c, r, seen)
    return nfail, byid

def run_scripted(ctx, cases, seen):
    res = run_driver('scripted', cases, 900)
    byid = {r['id']: r for r in res}
    # platform drift: the stubs validate the call against the installed signature, as the real function would
    redo = []
    for c in cases:
        r = byid[c['id']]
        if 'error' in r and classify_error(c, r['error']):
            k = classify_error(c, r['error'])
            if k not in seen:
                seen[k] = 1
                ctx.violation('%s raises %s' % (c['fn'], r['error']), data={'mode': 'scripted', 'case': c, 'impl': r}, key=k)
            c2 = dict(c); c2['lenient'] = True
            redo.append(c2)
    if redo:
        for r in run_driver('scripted', redo, 900):
            byid[r['id']] = r
        for c in cases:
            if any(c['id'] == d['id'] for d in redo):
                c['lenient'] = True
    exprs, meta = [], {}
    raised = {}
    for c in cases:
        r = byid[c['id']]
        fn = c['fn']
        ctx.count('scripted fn=%s%s' % (fn, '+log_opt' if c.get('log_opt') else ''))
        ctx.count('scripted nfixed=%d/%d' % (0 if c['fixed'] is None else sum(v is not None for v in c['fixed']), c['n']))
        if c.get('ints'):
            ctx.count('scripted whole numbers with integer types: fixed (not whole) at ' + c['ints'])
            if c.get('p0_container'):
                ctx.count('scripted integer p0 as %s of %s' % (c['p0_container'], c['p0_kinds'][0]))
                ctx.count('scripted integer bounds as %s' % c['bound_container'])
            if c.get('grid_kinds'):
                ctx.count('scripted grid ranges typed ' + ','.join(''.join(k[0].upper() for k in ks) for ks in c['grid_kinds']))
        ctx.case(signature=('s', fn, c.get('log_opt'), c['p0'], c['fixed'], c['lower'], c['upper'], c['props'], c.get('grid'), c.get('p0_kinds'), c.get('p0_container'), c.get('grid_kinds')),
                 sample={'mode': 'scripted', 'fn': fn, 'log_opt': c.get('log_opt'), 'p0': c['p0'], 'fixed': c['fixed'], 'lower': c['lower'],
                         'upper': c['upper'], 'props': c['props'], 'impl': {k: r.get(k) for k in ('x', 'f', 'error')}})
        for variant in (variants_of(c) if not c.get('no_coq') else ()):
            t = case_text(c, r, variant)
            if t is None:
                ctx.count('scripted non-finite impl output (not sent to Coq)')
                continue
            k = len(exprs)
            exprs.append((k, t)); meta[k] = (c, variant)
        # property clauses on the real code, for scripts that honour the optimiser contract
        if c.get('edge'):
            ctx.count('scripted edge ' + c['edge'])
            ctx.count('scripted fixed_params as ' + str(c.get('fixed_container')))
            for kd in (c.get('fixed_kinds') or []):
                if kd:
                    ctx.count('scripted fixed value type ' + kd)
        if 'error' in r:
            ctx.count('scripted impl raised')
            raised[c['id']] = r['error']
            continue
        scripted_case_clauses(ctx, c, r, seen)
    results = ctx.coq_cases('scripted', HEADER, exprs, '(ocheck %s)' % q(TOL), TOL_TXT, shard=ctx.pick(40, 120), kind='scripted optimiser')
    # a case is fine when the model of the current code or a variant carrying a form of the snapshot reproduces it; all
    # cases of one wrapper must agree on the variant
    per_case = {}
    ctx.max_err.pop('scripted optimiser', None)          # report the error of the accepted comparisons only
    for k, (c, variant) in meta.items():
        rr = results.get(k)
        per_case.setdefault(c['id'], {})[variant] = bool(rr and rr[0])
        if rr and rr[0]:
            ctx.err('scripted optimiser', rr[1], TOL_TXT)
    tag_variants = {}
    nbad = 0
    for c in cases:
        pc = per_case.get(c['id'])
        if pc is None:
            continue
        good = {v for v, okv in pc.items() if okv}
        ok = bool(good)
        tag = c['fn'] + ('+log_opt' if c.get('log_opt') else '')
        if ok and len(pc) > 1:
            tag_variants[tag] = tag_variants.get(tag, set(pc)) & good
        ctx.obligation('scripted case %d (%s)' % (c['id'], tag), ok, 'correspondence', '' if ok else 'model != implementation: %r' % (pc,))
        if not ok:
            nbad += 1
            if c['id'] in raised and 'raises:' + tag not in seen:
                # the model says this call completes: the real code raising on it is a failing input of the property
                seen['raises:' + tag] = 1
                ctx.violation('%s (scripted run) %s raises %s where the model completes' % (tag, inputs_text(c), raised[c['id']]),
                              data={'mode': 'scripted', 'case': c, 'impl': byid[c['id']], 'call': inputs_text(c)}, key=vkey(c, 'raises-' + raised[c['id']].split(':')[0]))
            elif nbad <= 3:
                # held back: first a failing input of the property itself is searched for on this wrapper (resolve_broken)
                PENDING.append({'fn': c['fn'],
                                'what': 'the optimiser glue of %s disagrees with the model on a scripted run %s' % (tag, call_text(c)),
                                'data': {'mode': 'scripted', 'case': c, 'impl': byid[c['id']], 'call': call_text(c)},
                                'broken': 'scripted correspondence %s' % tag})
            if not ok:
                BROKEN_FNS.add(c['fn'])
    for tag, good in tag_variants.items():
        ctx.obligation('all scripted cases of %s agree with one model variant' % tag, bool(good), 'correspondence', repr(good))
        if good:
            v = min(good)
            ctx.notes.append('%s: source agrees with model variant %d (%s)' % (tag, v, 'current, repaired form' if v == 0 else 'form of the snapshot, defective'))
            ctx.count('variant %s=%d' % (tag, v))
    return byid

PENDING = []          # violations without a failing input, held back until the targeted search has run
BROKEN_FNS = set()    # wrappers whose source obligation / correspondence broke

def run_real(ctx, cases, seen):
    res = run_driver('real', cases, 1500)
    byid = {r['id']: r for r in res}
    redo = []
    for c in cases:
        r = byid[c['id']]
        if 'error' in r and classify_error(c, r['error']):
            k = classify_error(c, r['error'])
            if k not in seen:
                seen[k] = 1
                ctx.violation('%s raises %s' % (c['fn'], r['error']), data={'mode': 'real', 'case': c, 'impl': r}, key=k)
            c2 = dict(c); c2['lenient'] = True
            redo.append(c2)
    if redo:
        for r in run_driver('real', redo, 1500):
            byid[r['id']] = r
    for c in cases:
        r = byid[c['id']]
        tag = c['fn'] + ('+log_opt' if c.get('log_opt') else '') + (('/' + c['algorithm']) if c.get('algorithm') else '')
        ctx.count('real fn=%s' % tag)
        ctx.count('real nfixed=%d/%d' % (0 if c['fixed'] is None else sum(v is not None for v in c['fixed']), c['n']))
        ctx.count('real multinom=%s' % c['multinom'])
        if c.get('edge') is not None:
            ctx.count('real edge ' + c['edge'])
        if c.get('ints'):
            ctx.count('real whole numbers with integer types: fixed (not whole) at ' + c['ints'])
            if c.get('grid_kinds'):
                ctx.count('real grid ranges typed ' + ','.join(''.join(k[0].upper() for k in ks) for ks in c['grid_kinds']))
        ctx.case(signature=('r', tag, c['p0'], c['fixed'], c['lower'], c['upper'], c['model']['cs'], c.get('p0_kinds'), c.get('p0_container'), c.get('grid'), c.get('grid_kinds')),
                 sample={'mode': 'real', 'fn': tag, 'p0': c['p0'], 'fixed': c['fixed'], 'lower': c['lower'], 'upper': c['upper'],
                         'impl': {k: r.get(k) for k in ('x', 'f', 'll_at_x', 'error')}, 'evaluations': len(r.get('evals', []))})
        if 'error' in r:
            key = vkey(c, 'raises-' + r['error'].split(':')[0])
            if key not in seen:
                seen[key] = 1
                ctx.violation('%s (real run) %s raises on a valid call: %s' % (tag, inputs_text(c), r['error']),
                              data={'mode': 'real', 'case': c, 'impl': r, 'call': inputs_text(c)}, key=key)
            ctx.obligation('real run %d (%s) completes' % (c['id'], tag), False, 'predicate', r['error'])
            # explained by the violation just recorded
            ctx.obligations[-1]['known_key'] = key
            continue
        cc = dict(c)
        if c['fn'] == 'optimize_grid':
            cc['lower'], cc['upper'] = None, None
        fails = clauses(ctx, cc, r, r.get('ll_at_x'), r.get('ll_at_p0'), 'real')
        # grid search: every evaluation is a grid point inside the generated box (the grid is the only "bound")
        if c['fn'] == 'optimize_grid':
            lo, hi = c['box']
            for e in r['evals']:
                if any(not (rel_le(lo[i], e[i]) and rel_le(e[i], hi[i])) for i in range(c['n']) if c['fixed'] is None or c['fixed'][i] is None):
                    fails.append(('model-evaluated-out-of-bounds', 'grid search evaluated %r outside the grid box' % (e,)))
                    break
        # monitoring of the optimiser contract (trusted base): recorded, not a verdict
        ev = r['evals']
        if c['fn'] != 'optimize_grid':
            ctx.count('contract: returned point is one of the evaluated points' if r['x'] in ev else 'contract: returned point NOT among evaluated points (%s)' % tag)
        if r.get('mutated'):
            ctx.count('wrapper modified caller list ' + ','.join(r['mutated']))
        ok = not fails
        ctx.obligation('real run %d (%s): property clauses' % (c['id'], tag), ok, 'predicate', '; '.join(m for _, m in fails)[:300])
        if not ok:
            ctx.obligations[-1]['known_key'] = vkey(c, fails[0][0])
        report(ctx, c, fails, r, 'real', seen)
    return byid

def probes(ctx, seen):
    """documented call shapes outside the generated grid: defaults and None bound entries"""
    rng = ctx.rng
    lower, upper = [0.25, 0.5], [4.0, 4.0]
    model = gen_model(rng, 2, lower, upper)
    base = {'n': 2, 'p0': [1.0, 2.0], 'fixed': None, 'lower': lower, 'upper': upper, 'multinom': True, 'll_scale': 1,
            'full_output': True, 'model': model, 'seed': 1, 'log_opt': False, 'box': [lower, upper]}
    ps = []
    c = dict(base); c.update(id=0, fn='optimize_cons', maxiter=None, keytag='default-maxiter', probe='optimize_cons with its default maxiter=None'); ps.append(c)
    c = dict(base); c.update(id=1, fn='optimize_log_lbfgsb', lower=[None, 0.5], maxiter=200, lenient=True, keytag='none-bound-entry',
                             probe='optimize_log_lbfgsb with a None entry in lower_bound (documented as "unbound")'); ps.append(c)
    c = dict(base); c.update(id=2, fn='opt', algorithm='LN_BOBYQA', log_opt=True, lower=None, maxeval=200, keytag='no-lower-bound',
                             probe='opt(log_opt=True) without lower_bound'); ps.append(c)
    res = lib.run_impl('c12_impl.py', {'mode': 'real', 'cases': ps}, timeout=300)
    for c, r in zip(ps, res):
        ctx.case(signature=('probe', c['probe']))
        ctx.count('probe')
        if 'error' in r:
            key = vkey(c, 'raises-' + r['error'].split(':')[0])
            ctx.violation('%s raises %s' % (c['probe'], r['error']), data={'mode': 'real', 'case': c, 'impl': r}, key=key)
        else:
            fails = clauses(ctx, c, r, r.get('ll_at_x'), r.get('ll_at_p0'), 'real')
            report(ctx, c, fails, r, 'real', seen)

# ------------------------------------------------------------------------------------------------
# _project_params_down / _project_params_up on their own: model correspondence and the two inverse identities

def gen_project(ctx):
    rng = ctx.rng
    cases = []
    rot = Rot(ctx.seed + 2)
    def val():
        return lib.dyadic(rng, -8, 8, 4) if rng.random() < 0.8 else 0.0        # zeros among the free values too
    def add(fixed, kinds, tag, pin=None, free=None, **kw):
        n = len(fixed) if fixed is not None else rng.randint(1, 4)
        nfree = n if fixed is None else sum(v is None for v in fixed)
        c = {'id': len(cases), 'fixed': fixed, 'fixed_kinds': kinds, 'tag': tag,
             'fixed_container': CONTAINERS[len(cases) % 3], 'pin_container': CONTAINERS[(len(cases) // 3 + len(cases)) % 3],
             'pin': pin if pin is not None else [val() for _ in range(n)],
             'free': free if free is not None else [val() for _ in range(nfree)]}
        c.update(kw)
        cases.append(c)
    # every Python spelling of zero, in leading / middle / trailing position, alone and beside another fixed value
    for zk in ZKINDS:
        for pos in range(3):
            fixed = [None] * 3; kinds = [None] * 3
            fixed[pos] = 0.0; kinds[pos] = zk
            add(fixed, kinds, 'zero:%s@%d/3' % (zk, pos))
        fixed = [0.0, None, lib.dyadic(rng, 0.5, 4, 3), 0.0]; kinds = [zk, None, 'float', zk]
        add(fixed, kinds, 'zero:%s twice/4' % zk)
    # every pattern of {free, zero, negative, positive} over 1..3 (thorough: 4) slots: none fixed ... all fixed
    for n in ([1, 2, 3] if ctx.quick else [1, 2, 3, 4]):
        for states in itertools.product('FZNP', repeat=n):
            fixed, kinds = [], []
            for st in states:
                if st == 'F':
                    fixed.append(None); kinds.append(None)
                elif st == 'Z':
                    fixed.append(0.0); kinds.append(rot.next(ZKINDS))
                elif st == 'N':
                    fixed.append(-rng.choice([0.25, 1.0, 2.5, 7.0])); kinds.append(rot.next(['float', 'npfloat']))
                else:
                    v = rng.choice([0.5, 1.0, 3.0, 0.015625]); fixed.append(v); kinds.append(rot.next(['float', 'npfloat', 'int'] if v == int(v) else ['float', 'npfloat']))
            add(fixed, kinds, ''.join(states))
    # fixed_params=None; lists of bounds (None entries) going down; wrong length (ValueError); a scalar / a surplus going up
    for n in (1, 2, 3):
        add(None, None, 'no fixed_params/%d' % n, pin=[val() for _ in range(n)], free=[val() for _ in range(n)])
    for fixed, kinds in (([None, 0.0, None], [None, 'int', None]), ([0.0, None, None], ['float', None, None]), ([None, None, 0.0], [None, None, 'npfloat']),
                         ([None, 1.5, None], None), ([None, None, None], None), ([0.0, 0.0, 0.0], ['int', 'float', 'npint'])):
        for pin in ([None, 0.0, 0.25], [0.0, None, None], [None, None, None], [0.0, 0.0, 0.0]):
            add(fixed, kinds, 'bounds list down', pin=pin)
    for fixed, kinds in (([None, 0.0], [None, 'int']), ([0.0, None], ['float', None]), ([None, None], None), ([2.0, None], None)):
        add(fixed, kinds, 'wrong length', pin=[val() for _ in range(3)])
        add(fixed, kinds, 'scalar up', free=[val()], free_scalar=(sum(v is None for v in fixed) == 1))
        add(fixed, kinds, 'surplus up', free=[val() for _ in range(sum(v is None for v in fixed) + 1)])
    gen_project_types(ctx, cases, rot)
    return cases

# ---- element types and containers of the vectors ---------------------------------------------------------------------
# The model has values, not machine types: the expanded vector holds the fixed values and the free values EXACTLY, whatever
# Python / numpy type carried them in.  An integer-valued free vector is natural input (`p0=[1, 2]`; numpy.mgrid over ranges
# written with Python ints, handed on by scipy.optimize.brute), and so is a float32 one; the fixed values beside them are
# non-integers, negative, zero, and not representable in float32 (0.1).  Every spelling below meets every pattern of fixed
# values on every run.
INT_VALUES = [2, 3, -1, 0, 7, -4, 1, 5]
SPELLINGS = [                                             # (container, element kind(s), value class)
    ('list', ['int'], 'i'), ('tuple', ['int'], 'i'), ('list', ['float'], 'f'), ('tuple', ['float'], 'f'),
    ('list', ['npint'], 'i'), ('list', ['npint32'], 'i'), ('list', ['npfloat32'], 'f'), ('list', ['npfloat'], 'f'),
    ('list', ['bool'], 'b'), ('list', ['npbool'], 'b'), ('list', ['np0d'], 'f'), ('list', ['np0d_int'], 'i'),
    ('list', ['int', 'float'], 'i'), ('tuple', ['npint32', 'int'], 'i'),
    ('array:int64', ['int'], 'i'), ('array:int32', ['int'], 'i'), ('array:int16', ['int'], 'i'), ('array:uint8', ['int'], 'u'),
    ('array:bool', ['bool'], 'b'), ('array:float32', [None], 'f'), ('array:float64', [None], 'f'),
    ('array:auto', ['int'], 'i'), ('array:auto', ['bool'], 'b'), ('array:auto', ['npint32'], 'i')]
SCALAR_SPELLINGS = [('scalar', [k], vc) for k, vc in (('int', 'i'), ('float', 'f'), ('npint', 'i'), ('npint32', 'i'), ('npfloat32', 'f'),
                                                       ('npfloat', 'f'), ('bool', 'b'), ('npbool', 'b'))] + \
                   [('array0d', ['int'], 'i'), ('array0d', ['float'], 'f')]
H, NEGF, TENTH, ZERO, NEGI, POSI = 'half', 'negfrac', 'tenth', 'zero', 'negint', 'posint'
FIXED_SHAPES = {2: [[None, H, None], [H, None, None], [None, None, H],                # leading / middle / trailing
                    [NEGF, None, ZERO, None], [None, TENTH, None, NEGI], [H, None, None, POSI], [None, None]],
                1: [[None, H], [H, None], [NEGF, None, ZERO], [ZERO, TENTH, None], [None]]}

def typed_values(rng, nvals, vclass, k0=0):
    if vclass == 'i':
        return [float(INT_VALUES[(k0 + j) % len(INT_VALUES)]) for j in range(nvals)]
    if vclass == 'u':
        return [float(abs(INT_VALUES[(k0 + j) % len(INT_VALUES)])) for j in range(nvals)]
    if vclass == 'b':
        return [float((k0 + j) % 2 == 0) for j in range(nvals)]
    return [lib.dyadic(rng, -8, 8, 4) if (k0 + j) % 5 else 0.0 for j in range(nvals)]

def typed_fixed(rng, rot, shape):
    fixed, kinds = [], []
    for st in shape:
        if st is None:
            fixed.append(None); kinds.append(None)
        elif st == H:
            fixed.append(rot.next([0.5, 1.5, 0.25, 2.75, 0.015625])); kinds.append(rot.next(['float', 'npfloat', 'np0d', 'npfloat32']))
        elif st == NEGF:
            fixed.append(rot.next([-0.75, -0.5, -3.25])); kinds.append(rot.next(['float', 'npfloat', 'npfloat32', 'np0d']))
        elif st == TENTH:                                 # not a dyadic rational: no float32 holds it
            fixed.append(rot.next([0.1, 1.0 / 3.0, 2.7, 1e-3])); kinds.append(rot.next(['float', 'npfloat', 'np0d']))
        elif st == ZERO:
            fixed.append(0.0); kinds.append(rot.next(ZKINDS))
        elif st == NEGI:
            fixed.append(rot.next([-2.0, -1.0, -7.0])); kinds.append(rot.next(['int', 'float', 'npint', 'npint32', 'np0d_int']))
        else:
            fixed.append(rot.next([2.0, 1.0, 10.0])); kinds.append(rot.next(['int', 'npint32', 'float', 'npint', 'bool'] if fixed[-1] == 1.0 else ['int', 'npint32', 'float', 'npint']))
    return fixed, kinds

def sub_rng(ctx, name):
    """a generator of its own for a block added to a stream (deterministic from VERIF_SEED; leaves the draws of the other
    blocks as they were)"""
    return random.Random('C12/%s/%d' % (name, ctx.seed))

def gen_project_types(ctx, cases, rot):
    rng = sub_rng(ctx, 'project types')
    for nfree, spellings in ((2, SPELLINGS), (1, SPELLINGS[:4] + SPELLINGS[14:16] + SCALAR_SPELLINGS)):
        for container, ekinds, vclass in spellings:
            for shape in FIXED_SHAPES[nfree]:
                fixed, fkinds = typed_fixed(rng, rot, shape)
                n = len(fixed)
                k0 = rot.count('typed values')
                full_container = container if container not in ('scalar', 'array0d') else rot.next(['list', 'tuple', 'array:auto'])
                cases.append({'id': len(cases), 'fixed': fixed, 'fixed_kinds': fkinds, 'fixed_container': rot.next(CONTAINERS),
                              'tag': 'types: %s of %s' % (container, '/'.join(str(k or 'float') for k in ekinds)), 'typed': True,
                              'free': typed_values(rng, nfree, vclass, k0), 'free_kinds': [ekinds[j % len(ekinds)] for j in range(nfree)],
                              'free_container': container,
                              'pin': typed_values(rng, n, vclass, k0 + 3), 'pin_kinds': [ekinds[j % len(ekinds)] for j in range(n)],
                              'pin_container': full_container,
                              # numpy.isscalar(numpy.array(3)) is False and a 0-d array cannot be subscripted: the bare 0-d
                              # array is outside the helper's domain -- it may raise, it may not answer with other values
                              'may_raise': container == 'array0d'})

def run_project(ctx, cases, seen):
    res = run_driver('project', cases, 300)
    exprs = []
    def ol(xs):
        return 'None' if xs is None else 'Some ' + ql(xs)
    for c, r in zip(cases, res):
        fixed = c['fixed']
        n = len(c['pin'])
        nfree = len(c['free']) if fixed is None else sum(v is None for v in fixed)
        ctx.count('project ' + (c['tag'] if not set(c['tag']) <= set('FZNP') else 'pattern over {F,Z,N,P}'))
        ctx.count('project fixed_params as ' + str(c['fixed_container'] if fixed is not None else None))
        free_txt = typed_repr(c['free'], c.get('free_kinds'), c.get('free_container', c.get('pin_container'))) if not c.get('free_scalar') else repr(c['free'][0])
        pin_txt = typed_repr(c['pin'], c.get('pin_kinds'), c.get('pin_container'))
        if c.get('typed'):
            for kd in set(c.get('fixed_kinds') or []):
                if kd:
                    ctx.count('project (typed vectors) fixed value type ' + kd)
            ctx.count('project (typed vectors) expanded dtype %s' % r.get('up_type'))
        ctx.case(signature=('j', c['pin'], c['free'], fixed, c['fixed_kinds'], c['fixed_container'], c.get('free_kinds'), c.get('free_container'), c.get('pin_container')),
                 sample={'mode': 'project', 'pin': pin_txt, 'free': free_txt, 'fixed_params': typed_repr(fixed, c['fixed_kinds'], c['fixed_container'], True),
                         'impl': {k: r.get(k) for k in ('down', 'up', 'down_up', 'up_down', 'free_type', 'up_type')}})
        call = 'fixed_params=%s' % typed_repr(fixed, c['fixed_kinds'], c['fixed_container'], True)
        def viol(key, msg):
            if key in seen:
                seen[key] += 1
                return
            seen[key] = 1
            ctx.violation('%s: %s' % (call, msg), data={'mode': 'project', 'case': c, 'impl': r, 'call': call}, key=key)
        if 'error' in r:
            viol('_project_params:' + r['error'].split(':')[0], 'pin=%s free=%s: %s' % (pin_txt, free_txt, r['error']))
            ctx.obligation('projection case %d (%s) completes' % (c['id'], c['tag']), False, 'correspondence', r['error'])
            continue
        numeric = all(v is not None for v in c['pin'])
        up_raised = r.get('up') is None
        if c.get('may_raise') and up_raised:
            # outside the helper's domain (see gen_project_types): refusing is fine, answering is held to the model
            ctx.count('project bare 0-d array as the free vector: raises ' + str((r.get('errors') or {}).get('up', '')).split(':')[0])
        if not any(isinstance(v, str) for k in ('down', 'up', 'down_up', 'up_down') for v in (r.get(k) or [])) and not (c.get('may_raise') and up_raised):
            exprs.append((c['id'], '{| j_pin := [%s]; j_free := %s; j_fixed := %s; ij_down := %s; ij_up := %s; ij_down_up := %s; ij_up_down := %s |}' % (
                '; '.join(qopt(v) for v in c['pin']), ql(c['free']), qoptlist(fixed),
                'None' if r['down'] is None else 'Some [' + '; '.join(qopt(v) for v in r['down']) + ']',
                ol(r['up']), ol(r['down_up']), ol(r['up_down']))))
        if c.get('typed') and fixed is not None and not up_raised:
            # the carrier of the expanded vector: float64 holds every value that can come in (ints, float32, bool) exactly; an
            # expanded vector that takes the type of the free vector does not hold the fixed values
            ok_t = r.get('up_type') == 'float64'
            ctx.obligation('projection case %d (%s): the expanded vector is a float64 array' % (c['id'], c['tag']), ok_t, 'predicate',
                           '' if ok_t else 'free vector %s -> expanded vector of dtype %s' % (free_txt, r.get('up_type')))
            if not ok_t:
                viol('_project_params:up(x)-dtype', '_project_params_up(%s, f) is an array of dtype %s: it cannot hold fixed values exactly' % (free_txt, r.get('up_type')))
        # the property itself, on the real code
        if len(c['free']) == nfree and not (c.get('may_raise') and up_raised):
            # the expanded vector holds the fixed values at the fixed positions and the free values, in order, at the others --
            # exactly, whatever Python / numpy type carried them in
            k = iter(c['free'])
            want_up = list(c['free']) if fixed is None else [next(k) if v is None else v for v in fixed]
            if up_raised:
                viol('_project_params:up(x)-raises', '_project_params_up(%s, f) raises %s' % (free_txt, (r.get('errors') or {}).get('up')))
            elif r['up'] != want_up:
                bad_i = [i for i in range(min(len(want_up), len(r['up']))) if r['up'][i] != want_up[i]]
                where = ('length %d' % len(r['up'])) if not bad_i else ('entry %d is %s' % (bad_i[0], 'fixed at %r' % want_up[bad_i[0]] if fixed is not None and fixed[bad_i[0]] is not None else 'the free value %r' % want_up[bad_i[0]]))
                viol('_project_params:up(x)-entries', '_project_params_up(%s, f) = %r (%s), expected %r (%s)' % (free_txt, r['up'], r.get('up_type'), want_up, where))
            if r['down_up'] is None:
                viol('_project_params:down(up(x))-raises', '_project_params_down(_project_params_up(%s, f), f) raises %s' % (free_txt, (r.get('errors') or {}).get('down_up')))
            elif r['down_up'] != c['free']:
                viol('_project_params:down(up(x))!=x', '_project_params_down(_project_params_up(x, f), f) = %r for x = %s' % (r['down_up'], free_txt))
        if numeric and (fixed is None or len(fixed) == n):
            want = [c['pin'][i] if (fixed is None or fixed[i] is None) else fixed[i] for i in range(n)]
            if r['up_down'] is None:
                viol('_project_params:up(down(p))-raises', '_project_params_up(_project_params_down(%s, f), f) raises %s' % (pin_txt, (r.get('errors') or {}).get('up_down')))
            elif r['up_down'] != want:
                viol('_project_params:up(down(p))!=p', '_project_params_up(_project_params_down(p, f), f) = %r for p = %s (fixed values written in: %r)' % (r['up_down'], pin_txt, want))
            if r['down'] is not None and len(r['down']) != nfree:
                viol('_project_params:down-length', '_project_params_down(%s, f) = %r: %d entries for %d free parameters' % (pin_txt, r['down'], len(r['down']), nfree))
            elif r['down'] is not None and fixed is not None and r['down'] != [c['pin'][i] for i in range(n) if fixed[i] is None]:
                viol('_project_params:down(p)-entries', '_project_params_down(%s, f) = %r, the free entries are %r' % (pin_txt, r['down'], [c['pin'][i] for i in range(n) if fixed[i] is None]))
    results = ctx.coq_cases('project', HEADER, exprs, 'jcheck', 'exact', shard=ctx.pick(120, 200), kind='projection', record_err=False)
    nbad = 0
    byid = {c['id']: (c, r) for c, r in zip(cases, res)}
    for cid, _ in exprs:
        c, r = byid[cid]
        rr = results.get(cid)
        ok = bool(rr and rr[0])
        ctx.obligation('projection case %d (%s)' % (cid, c['tag']), ok, 'correspondence', '' if ok else 'model != implementation')
        if not ok:
            nbad += 1
            if nbad <= 2:
                call = 'fixed_params=%s' % typed_repr(c['fixed'], c['fixed_kinds'], c['fixed_container'], True)
                pin_txt = typed_repr(c['pin'], c.get('pin_kinds'), c.get('pin_container')) if c.get('typed') else repr(c['pin'])
                free_txt = typed_repr(c['free'], c.get('free_kinds'), c.get('free_container')) if c.get('typed') else repr(c['free'])
                ctx.violation('_project_params_down/_up disagree with the model: %s pin=%s free=%s -> down %r up %r' % (call, pin_txt, free_txt, r.get('down'), r.get('up')),
                              data={'mode': 'project', 'case': c, 'impl': r, 'call': call}, no_input=True, broken='projection correspondence')

# ------------------------------------------------------------------------------------------------
# perturb_params

def gen_perturb(ctx):
    rng = ctx.rng
    cases = []
    N = ctx.pick(120, 1500)
    for k in range(N):
        n = rng.randint(1, 4)
        kind = rng.choice(['positive', 'positive', 'negative', 'mixed', 'zero'])
        lower, upper, params = [], [], []
        for i in range(n):
            if kind == 'positive' or (kind == 'mixed' and rng.random() < 0.5):
                lo = rng.choice([0.125, 0.5, 1.0, 2.0]); hi = lo * rng.choice([2, 4, 16])
            elif kind == 'zero':
                lo = 0.0; hi = rng.choice([1.0, 4.0])
            else:
                hi = -rng.choice([0.125, 0.5, 1.0, 2.0]); lo = hi * rng.choice([2, 4, 16])
            if rng.random() < 0.04 and lo > 0:
                hi = lo * 1.0078125                       # narrow box: 1.01*lower > 0.99*upper
            lower.append(lo); upper.append(hi)
            params.append(inside(rng, lo, hi) if lo != 0.0 or rng.random() < 0.8 else 0.0)
        fold = rng.choice([1, 1, 2, 3, 0.5])
        us = [rng.randint(0, 63) / 64.0 for _ in range(n)]
        ulo, uhi = list(lower), list(upper)
        s = rng.random()
        if k < 16:
            s = [0.05, 0.15, 0.3, 0.9][k % 4]             # on every run: only upper_bound, only lower_bound, None entries, both
        if s < 0.1:
            ulo = None
        elif s < 0.2:
            uhi = None
        elif s < 0.4:
            ulo[rng.randrange(n)] = None
            if rng.random() < 0.5:
                uhi[rng.randrange(n)] = None
        cases.append({'id': k, 'params': params, 'fold': fold, 'us': us, 'lower': ulo, 'upper': uhi, 'kind': kind,
                      'box': [lower, upper], 'as_array': rng.random() < 0.7, 'bound_container': CONTAINERS[k % 3],
                      'lower_kinds': None if ulo is None else [(['int', 'float', 'npfloat', 'negzero'][(k + i) % 4] if v == 0 else None) for i, v in enumerate(ulo)]})
    return cases

def run_perturb(ctx, cases, seen):
    res = lib.run_impl('c12_impl.py', {'mode': 'perturb', 'cases': cases}, timeout=600)
    exprs, meta = [], {}
    for c, r in zip(cases, res):
        ctx.count('perturb kind=%s' % c['kind'])
        ctx.case(signature=('p', c['params'], c['fold'], c['us'], c['lower'], c['upper']),
                 sample={'mode': 'perturb', 'params': c['params'], 'fold': c['fold'], 'us': c['us'], 'lower': c['lower'], 'upper': c['upper'], 'impl': r.get('x', r.get('error'))})
        if 'error' in r:
            ctx.violation('perturb_params raises %s' % r['error'], data={'mode': 'perturb', 'case': c, 'impl': r}, key='perturb_params:raises-' + r['error'].split(':')[0])
            continue
        for variant in (False, True):
            k = len(exprs)
            exprs.append((k, '{| p_variant := %s; p_params := %s; p_fold := %s; p_us := %s; p_lower := %s; p_upper := %s; p_impl := %s |}' % (
                b(variant), ql(c['params']), q(c['fold']), ql(c['us']), qoptlist(c['lower']), qoptlist(c['upper']), ql(r['x']))))
            meta[k] = (c, variant)
        # property: stays within the bounds that were given
        x = r['x']
        n = len(c['params'])
        lo = c['lower'] if c['lower'] is not None else [None] * n
        hi = c['upper'] if c['upper'] is not None else [None] * n
        out = [i for i in range(n) if (lo[i] is not None and not rel_le(lo[i], x[i], 1e-12)) or (hi[i] is not None and not rel_le(x[i], hi[i], 1e-12))]
        if out:
            i = out[0]
            lo_i, hi_i = lo[i], hi[i]
            neg = (lo_i is not None and lo_i < 0 and x[i] < lo_i) or (hi_i is not None and hi_i < 0 and x[i] > hi_i)
            narrow = lo_i is not None and hi_i is not None and 1.01 * lo_i > 0.99 * hi_i
            key = 'perturb_params:negative-bound' if neg else ('perturb_params:narrow-box' if narrow else 'perturb_params:out-of-bounds')
            if key not in seen:
                seen[key] = 1
                ctx.violation('perturb_params leaves the bounds: params %r fold %r draws %r lower %r upper %r -> %r' % (c['params'], c['fold'], c['us'], c['lower'], c['upper'], x),
                              data={'mode': 'perturb', 'case': c, 'impl': r}, key=key)
            else:
                seen[key] += 1
    results = ctx.coq_cases('perturb', HEADER, exprs, '(pcheck %s)' % q(TOL), TOL_TXT, shard=ctx.pick(150, 400), kind='perturb_params')
    per_case = {}
    ctx.max_err.pop('perturb_params', None)
    for k, (c, variant) in meta.items():
        rr = results.get(k)
        per_case.setdefault(c['id'], {})[variant] = bool(rr and rr[0])
        if rr and rr[0]:
            ctx.err('perturb_params', rr[1], TOL_TXT)
    votes = set()
    nbad = 0
    for c in cases:
        pc = per_case.get(c['id'])
        if pc is None:
            continue
        ok = any(pc.values())
        if ok and pc[False] != pc[True]:
            votes.add(pc[True])
        ctx.obligation('perturb case %d' % c['id'], ok, 'correspondence', '' if ok else 'model != implementation')
        if not ok:
            nbad += 1
            if nbad <= 2:
                ctx.violation('Misc.perturb_params disagrees with the model', data={'mode': 'perturb', 'case': c, 'impl': res[c['id']]},
                              no_input=True, broken='perturb_params correspondence')
    ctx.obligation('all perturb cases agree with one model variant', len(votes) <= 1, 'correspondence', repr(votes))
    if len(votes) == 1:
        ctx.notes.append('perturb_params: source agrees with the %s model variant' % ('snapshot (defective)' if True in votes else 'current (sign-aware)'))

# ------------------------------------------------------------------------------------------------

def run(ctx):
    ctx.rule = ('projection: _project_params_down/_up on (vector, fixed pattern) with every Python spelling of zero (0, 0.0, -0.0, numpy.float64, numpy.int64, False) '
                'in leading / middle / trailing position, every pattern over {free, zero, negative, positive}^n for n <= 3 (4), none / all fixed, fixed_params as list / tuple / '
                'numpy object array, lists of bounds with None entries, wrong lengths, scalar and surplus vectors; every element type / container of the free and full '
                'vector (Python int / float / bool, numpy int64 / int32 / int16 / uint8 / float32 / float64 / bool_, 0-d arrays, list / tuple / ndarray of each dtype, bare scalar, '
                'bare 0-d array) x fixed values {non-integer, negative, zero, 0.1, integer} of every type in leading / middle / trailing position; '
                'scripted and real, every wrapper, every run: whole-number box / start / bounds written with integer types (list, tuple, int64 / int32 arrays) beside non-integer fixed '
                'values before / between / after the free parameters; optimize_grid with ranges typed all-int, int/float mixed, float, complex step, 1-3 free parameters, '
                'likelihood peaked on a grid point; '
                'scripted and real, on every run and for every wrapper: the same edge patterns of fixed values (zero before / between / after the free parameters, several, all; '
                'negative; equal to a bound), bound entries equal to 0 (with a proposal / the data\'s parameter beyond them), bounds as list / tuple / numpy array; then '
                'scripted: (wrapper, log_opt, 1-4 parameters, every pattern of fixed positions, bounds lists with None entries / whole-list None, '
                'dyadic start inside the box, 2-7 proposals in the optimiser\'s coordinates (inside the box, on its faces, or roaming), ll_scale, multinom, '
                'full_output, two closed-form quadratic likelihoods with an optional NaN region) from one PRNG; real: (optimiser incl. nlopt algorithm, '
                '1-4 parameters, pattern of fixed positions, box, start, multinom, closed-form quadratic Spectrum model); perturb: (params, fold, draws, bounds of '
                'either sign / None / narrow); distinct = distinct tuples; non-trivial = all')
    ctx.assumptions += [
        'the optimiser proper (nlopt, scipy.optimize.*) is an oracle: the theorems assume its contract (start evaluated first, evaluations inside the box it was handed, '
        'returned point evaluated and best in its trace, reported value is that point\'s value); real runs log how often the observable parts of the contract held',
        'scripted runs replace dadi.Inference.ll / ll_multinom by closed-form quadratics (likelihood formulas are C11); real runs use the real likelihoods',
        'float64 vs exact rationals at tolerance 1e-10 x max-norm; generated proposals keep exp(log(x)) at least 1e-6 away from every bound / NaN threshold',
        'nlopt.RoundoffLimited handler, inequality/equality constraints, verbose output and output_file are not modelled']
    ctx.trusted += ['Section variables of Proofs/OptimProofs.v: the optimiser O with hypothesis `contract` (C12_opt_contract, C12_scipy_contract, C12_grid_contract); '
                    'the likelihood oracles ll_multinom, ll_plain : list R -> option R (None = NaN)']
    ctx.rule += ('; keyword / optional-argument combinations (every run, every wrapper; harness/props/c12_kw.py): {only lower_bound, only upper_bound, both, neither, '
                 'a None entry in one list only} x {fixed_params left out / None / list of None / one fixed / two fixed} x {multinom x ll_scale x full_output in rotation}, '
                 'each call spelled with absent arguments left out vs None, bounds by keyword vs positionally, defaults left out vs given; every other optional keyword '
                 '(verbose, flush_delay, epsilon, gtol, pgtol, maxiter, func_args, func_kwargs, output_file, constraints, nlopt limits) alone, in pairs, all at once; scripted: '
                 'a box-honouring stub (scripted_clip) with proposals beyond both ends of every free parameter and likelihoods peaking beyond the box; real: every '
                 'optimiser with the data\'s parameters beyond the given bound(s)')
    ctx.assumptions += ['keyword-combination stream: calls that differ only in spelling (left out / None / positional) or in a keyword the property does not speak about '
                        '(verbose, flush_delay, tolerances, iteration limits, func_args, func_kwargs, output_file, never-binding constraints) must give the same scripted run '
                        'as the keyword form, which is the call compared with the Coq model']
    ctx.trusted += ['the clipping scripted optimiser of the keyword-combination stream is the model\'s scripted_clip (C12_clipping_script_honours_contract: it satisfies the '
                    'contract for every script, so that C12_scipy_plain_evaluations_within_bounds / C12_opt_evaluations_within_bounds apply to every such run)']
    from harness.props import c12_kw
    seen = {}
    del PENDING[:]
    BROKEN_FNS.clear()
    if ctx.replay:
        rp = json.load(open(ctx.replay))
        inp = rp.get('input') or {}
        mode, c = inp.get('mode'), inp.get('case')
        if c is not None:
            c = dict(c); c['id'] = 0
            c.pop('no_coq', None)
            if inp.get('base_case') is not None and mode == 'scripted':
                # a call whose spelling changed the run: both forms again
                bc = dict(inp['base_case']); bc['id'] = 1; bc.pop('no_coq', None)
                c['kw_base'] = 0
                byid = run_scripted(ctx, [c, bc], seen)
                c12_kw.check_spellings(ctx, [bc], [c], byid, seen, 'scripted')
            elif mode == 'scripted':
                c.pop('kw_base', None)
                run_scripted(ctx, [c], seen)
            elif mode == 'real':
                run_real(ctx, [c], seen)
            elif mode == 'perturb':
                run_perturb(ctx, [c], seen)
            elif mode == 'project':
                run_project(ctx, [c], seen)
            flush_pending(ctx)
            return
    descriptor_obligations(ctx)
    c12_kw.signature_obligations(ctx)
    BROKEN_FNS.update(fns_named_by_failed_obligations(ctx))
    run_project(ctx, gen_project(ctx), seen)
    # scripted: the generated streams, then the keyword-combination stream (bases go to Coq, their other spellings must give the same run)
    cases = gen_scripted(ctx)
    kb, kv = c12_kw.gen_kw_scripted(ctx, reps=ctx.pick(1, 3))
    for c in kb + kv:
        c['id'] = len(cases)
        cases.append(c)
    for c in kv:
        c['no_coq'] = True
    byid = run_scripted(ctx, cases, seen)
    c12_kw.check_spellings(ctx, kb, kv, byid, seen, 'scripted')
    for c in kb + kv:
        ctx.count('scripted keyword combination: bounds %s, fixed_params %s' % (c['kw']['bounds'], c['kw']['fixed']))
        msg = c12_kw.extra_args_fail(c, byid[c['id']])
        if msg is not None:
            report(ctx, c, [('model-called-with-wrong-extra-arguments', msg)], byid[c['id']], 'scripted', seen)
    # real
    cases = gen_real(ctx)
    rb, _ = c12_kw.gen_kw_real(ctx, reps=ctx.pick(1, 2))
    for c in rb:
        c['id'] = len(cases)
        cases.append(c)
    byid = run_real(ctx, cases, seen)
    for c in rb:
        ctx.count('real keyword combination: bounds %s, fixed_params %s' % (c['kw']['bounds'], c['kw']['fixed']))
        msg = c12_kw.extra_args_fail(c, byid[c['id']])
        if msg is not None:
            report(ctx, c, [('model-called-with-wrong-extra-arguments', msg)], byid[c['id']], 'real', seen)
    probes(ctx, seen)
    run_perturb(ctx, gen_perturb(ctx), seen)
    resolve_broken(ctx, seen)
    for k, v in seen.items():
        ctx.count('violations of kind ' + k, v)

# ------------------------------------------------------------------------------------------------
# a broken source obligation / correspondence of a wrapper: search for a failing input of the property on that wrapper first

ALL_WRAPPERS = ['opt'] + SCIPY_FNS + ['optimize_grid']
SHARED_HELPERS = ['_object_func_log', '_object_func', '_project_params_down', '_project_params_up']

def fns_named_by_failed_obligations(ctx):
    out = set()
    for o in ctx.obligations:
        if o['ok'] or o['kind'] != 'translator':
            continue
        name = o['name']
        if any(re.search(r'(?<![A-Za-z_])%s(?![A-Za-z_])' % re.escape(h), name) for h in SHARED_HELPERS) or 'parse dadi/' in name:
            out.update(ALL_WRAPPERS)
            continue
        for fn in sorted(ALL_WRAPPERS, key=len, reverse=True):
            if re.search(r'(?<![A-Za-z_])%s(?![A-Za-z_])' % re.escape(fn), name):
                out.add(fn)
                break
    return out

def explained(ctx, fn):
    """a failing input of the property on this wrapper has been reported (listed known findings do not count)"""
    known, _ = lib.load_known(ctx.prop)
    known_keys = {f['key'] for f in known}
    for v in ctx.violations:
        if v.get('no_input') or v.get('key') in known_keys:
            continue
        case = (v.get('data') or {}).get('case') or {}
        if case.get('fn') == fn:
            return True
    return False

def flush_pending(ctx):
    for pnd in PENDING:
        if not explained(ctx, pnd['fn']):
            ctx.violation(pnd['what'], data=pnd['data'], no_input=True, broken=pnd['broken'])
    del PENDING[:]
    # violations that carry a failing input come first
    ctx.violations.sort(key=lambda v: bool(v.get('no_input')))

def resolve_broken(ctx, seen):
    from harness.props import c12_kw
    todo = sorted(fn for fn in BROKEN_FNS if fn in ALL_WRAPPERS and not explained(ctx, fn))
    if todo:
        ctx.notes.append('targeted search (keyword combinations, scripts and data beyond the bounds) on: ' + ', '.join(todo))
        def run_s(cases, bases, variants):
            nfail, byid = scripted_clauses_only(ctx, cases, seen)
            nfail += c12_kw.check_spellings(ctx, bases, variants, byid, seen, 'scripted')
            return nfail
        def run_r(cases):
            n0 = len(ctx.violations)
            for k, c in enumerate(cases):
                c['id'] = 100000 + k
            run_real(ctx, cases, seen)
            return len(ctx.violations) - n0
        c12_kw.targeted_search(ctx, set(todo), seen, run_s, run_r)
    flush_pending(ctx)
