"""C09 — folding and ancestral misidentification conserve counts; symmetric, idempotent; folding status,
masks and labels survive arithmetic, slicing and likelihood evaluation.

Static theorems: coq/theories/Props/C09.v (all dimensions, shapes, masks).
Per run:  (1) translator obligations: the misidentification formula, the unfold average and the ambiguous-entry
              update are re-read from the current source and proved equal to the model (ring/field); the
              where_folded_out / where_ambiguous / mask lines are compared structurally (AST);
          (2) correspondence: Spectrum.fold / unfold / fold again, apply_anc_state_misid / make_anc_state_misid_func,
              the 14 binary + 7 in-place operator methods (scalars, arrays, masked arrays, Spectra on either side),
              basic slicing, Inference.ll / ll_multinom auto-folding -- real code vs the Coq model over Q;
          (3) the property predicates evaluated directly on what the implementation returned.
Values are compared only where unmasked; masks, flags and labels exactly.
"""
import ast, json, os
from fractions import Fraction
from harness import lib
from harness.lib import q, ql, bl, natl, b
from harness.translate import pyexpr

SPECTRUM = os.path.join(lib.REPO, 'dadi', 'Spectrum_mod.py')
NUMERICS = os.path.join(lib.REPO, 'dadi', 'Numerics.py')
TOL = Fraction(1, 10 ** 11)
RTOL = 1e-11
LABELS = ['A', 'B', 'C', 'D', 'E', 'pop one', 'YRI', 'CEU', 'CHB', 'x y']
BINOPS = ['__add__', '__radd__', '__sub__', '__rsub__', '__mul__', '__rmul__', '__div__', '__rdiv__',
          '__truediv__', '__rtruediv__', '__floordiv__', '__rfloordiv__', '__rpow__', '__pow__']
IOPS = ['__iadd__', '__isub__', '__imul__', '__idiv__', '__itruediv__', '__ifloordiv__', '__ipow__']
COQ_OP = {'__add__': 'Add', '__radd__': 'Radd', '__sub__': 'Sub', '__rsub__': 'Rsub', '__mul__': 'Mul', '__rmul__': 'Rmul',
          '__div__': 'Div', '__rdiv__': 'Rdiv', '__truediv__': 'Truediv', '__rtruediv__': 'Rtruediv',
          '__floordiv__': 'Floordiv', '__rfloordiv__': 'Rfloordiv', '__rpow__': 'Rpow', '__pow__': 'Pow',
          '__iadd__': 'Iadd', '__isub__': 'Isub', '__imul__': 'Imul', '__idiv__': 'Idiv', '__itruediv__': 'Itruediv',
          '__ifloordiv__': 'Ifloordiv', '__ipow__': 'Ipow'}
DEAD = {'__div__', '__rdiv__', '__idiv__'}        # numpy.ndarray has no such method under Python 3

# ------------------------------------------------------------------------------------------------
# index arithmetic (plain python, independent of dadi and of the Coq model)

def size(shape):
    n = 1
    for s in shape:
        n *= s
    return n

def totals(shape):
    # C order: first axis slowest -> build from the left
    t = [0]
    for n in shape:
        t = [a + i for a in t for i in range(n)]
    return t

def nsamples(shape):
    return sum(n - 1 for n in shape)

# ------------------------------------------------------------------------------------------------
# translator obligations

class _Subst(ast.NodeTransformer):
    """reverse_array(<name or self.data>) -> <name>_rev ; self.data -> self_data"""
    def visit_Call(self, node):
        fn = node.func
        nm = fn.attr if isinstance(fn, ast.Attribute) else getattr(fn, 'id', None)
        if nm == 'reverse_array' and len(node.args) == 1 and not node.keywords:
            a = self.visit(node.args[0])
            if isinstance(a, ast.Name):
                return ast.Name(id=a.id + '_rev', ctx=ast.Load())
        raise pyexpr.Refuse('call %s' % nm)
    def visit_Attribute(self, node):
        if isinstance(node.value, ast.Name) and node.value.id == 'self' and node.attr == 'data':
            return ast.Name(id='self_data', ctx=ast.Load())
        raise pyexpr.Refuse('attribute')

def _method(path, cls, name):
    tree = ast.parse(open(path).read())
    for n in tree.body:
        if isinstance(n, ast.ClassDef) and n.name == cls:
            hits = [m for m in n.body if isinstance(m, ast.FunctionDef) and m.name == name]
            if len(hits) == 1:
                return hits[0]
    raise pyexpr.Refuse('%s.%s not found' % (cls, name))

def _assigns(fn):
    out = {}
    for st in ast.walk(fn):
        if isinstance(st, ast.Assign) and len(st.targets) == 1 and isinstance(st.targets[0], ast.Name):
            out.setdefault(st.targets[0].id, []).append(st.value)
    return out

def _coq_of(expr, names):
    t = pyexpr.Tr(funcs={})
    t.vars = list(names)
    return t.expr(_Subst().visit(expr))

def _norm(e):
    return ast.dump(e, annotate_fields=False)

def translator_obligations(ctx):
    files = []
    hdr = '\n'.join(['From Coq Require Import ZArith Reals List Lra.',
                     'From Dadi Require Import Base.Num Base.NumR Model.Fold.',
                     'Import ListNotations. Local Open Scope R_scope.'])
    # --- apply_anc_state_misid: return (1-p_misid)*fs + p_misid*reverse_array(fs)
    try:
        fn = pyexpr.find_function(NUMERICS, 'apply_anc_state_misid')
        if [a.arg for a in fn.args.args] != ['fs', 'p_misid']:
            raise pyexpr.Refuse('arguments of apply_anc_state_misid')
        body = [s for s in fn.body if not (isinstance(s, ast.Expr) and isinstance(s.value, ast.Constant))]
        if len(body) != 1 or not isinstance(body[0], ast.Return):
            raise pyexpr.Refuse('apply_anc_state_misid is not a single return')
        term = _coq_of(body[0].value, ['fs', 'p_misid', 'fs_rev'])
        files.append(('C09_ob_misid', '\n'.join([hdr,
            'Definition gen (fs p_misid fs_rev : R) : R := %s.' % term,
            'Lemma ob : forall (I : Type) (mir : I -> I) (x : I -> R) (p : R) (i : I),',
            '  gen (x i) p (x (mir i)) = misid_val mir p x i.',
            'Proof. intros. unfold gen, misid_val, reverse. numR. ring. Qed.', ''])))
        ctx.obligation('translate Numerics.apply_anc_state_misid', True, 'translator')
    except (pyexpr.Refuse, SyntaxError, OSError) as e:
        ctx.obligation('translate Numerics.apply_anc_state_misid', False, 'translator', str(e))
    # --- reverse_array: tuple(slice(None, None, -1) for ii in arr.shape)
    try:
        fn = pyexpr.find_function(NUMERICS, 'reverse_array')
        src = ast.unparse(fn)
        ok = ('tuple((slice(None, None, -1) for ii in arr.shape))' in src.replace('\n', ' ')
              and 'return arr[reverse_slice]' in src)
        ctx.obligation('Numerics.reverse_array reverses every axis (slice(None,None,-1) per axis)', ok, 'translator', '' if ok else src[-300:])
    except (pyexpr.Refuse, SyntaxError, OSError) as e:
        ctx.obligation('Numerics.reverse_array reverses every axis', False, 'translator', str(e))
    # --- Spectrum.unfold
    try:
        fn = _method(SPECTRUM, 'Spectrum', 'unfold')
        asg = _assigns(fn)
        if len(asg.get('newdata', [])) != 1 or len(asg.get('reversed_data', [])) != 1:
            raise pyexpr.Refuse('unfold: newdata / reversed_data assignments')
        if _norm(asg['reversed_data'][0]) != _norm(ast.parse('reverse_array(self.data)', mode='eval').body):
            raise pyexpr.Refuse('unfold: reversed_data is not reverse_array(self.data)')
        term = _coq_of(asg['newdata'][0], ['self_data', 'reversed_data'])
        files.append(('C09_ob_unfold', '\n'.join([hdr,
            'Definition gen (self_data reversed_data : R) : R := %s.' % term,
            'Lemma ob : forall (I : Type) (mir : I -> I) (x : I -> R) (i : I),',
            '  gen (x i) (x (mir i)) = unfold_val mir x i.',
            'Proof. intros. unfold gen, unfold_val, reverse, n2. numR. field. Qed.', ''])))
        want = {'where_folded_out': 'total_per_entry > int(total_samples / 2)',
                'total_samples': 'numpy.sum(self.sample_sizes)', 'total_per_entry': 'self._total_per_entry()'}
        for k, v in want.items():
            got = asg.get(k, [])
            if len(got) != 1 or _norm(got[0]) != _norm(ast.parse(v, mode='eval').body):
                raise pyexpr.Refuse('unfold: %s is not %s' % (k, v))
        nm = asg.get('newmask', [])
        exp = ['numpy.logical_xor(self.mask, where_folded_out)', 'numpy.logical_or(newmask, reverse_array(newmask))']
        if [_norm(x) for x in nm] != [_norm(ast.parse(v, mode='eval').body) for v in exp]:
            raise pyexpr.Refuse('unfold: newmask lines changed')
        of = asg.get('outfs', [])
        if len(of) != 1 or _norm(of[0]) != _norm(ast.parse('Spectrum(newdata, mask=newmask, data_folded=False, pop_ids=self.pop_ids)', mode='eval').body):
            raise pyexpr.Refuse('unfold: constructor call changed')
        ctx.obligation('translate Spectrum.unfold (average, xor/or mask lines, constructor call)', True, 'translator')
    except (pyexpr.Refuse, SyntaxError, OSError) as e:
        ctx.obligation('translate Spectrum.unfold (average, xor/or mask lines, constructor call)', False, 'translator', str(e))
    # --- Spectrum.fold
    try:
        fn = _method(SPECTRUM, 'Spectrum', 'fold')
        asg = _assigns(fn)
        want = {'where_folded_out': 'total_per_entry > int(total_samples / 2)',
                'where_ambiguous': 'total_per_entry == total_samples / 2.0',
                'total_samples': 'numpy.sum(self.sample_sizes)', 'total_per_entry': 'self._total_per_entry()',
                'reversed': 'reverse_array(numpy.where(where_folded_out, self, 0))',
                'folded': 'numpy.ma.masked_array(self.data + reversed)',
                'ambiguous': 'numpy.where(where_ambiguous, self, 0)',
                'original_mask': 'self.mask',
                'outfs': 'Spectrum(folded, mask=final_mask, data_folded=True, pop_ids=self.pop_ids)'}
        for k, v in want.items():
            got = asg.get(k, [])
            if len(got) != 1 or _norm(got[0]) != _norm(ast.parse(v, mode='eval').body):
                raise pyexpr.Refuse('fold: %s is not %s' % (k, v))
        fm = asg.get('final_mask', [])
        exp = ['numpy.logical_or(original_mask, reverse_array(original_mask))', 'numpy.logical_or(final_mask, where_folded_out)']
        if [_norm(x) for x in fm] != [_norm(ast.parse(v, mode='eval').body) for v in exp]:
            raise pyexpr.Refuse('fold: final_mask lines changed')
        aug = [s for s in ast.walk(fn) if isinstance(s, ast.AugAssign)]
        if len(aug) != 1 or not isinstance(aug[0].op, ast.Add) or getattr(aug[0].target, 'id', None) != 'folded':
            raise pyexpr.Refuse('fold: expected exactly one  folded += ...')
        term = _coq_of(aug[0].value, ['ambiguous', 'ambiguous_rev'])
        zero = [s for s in ast.walk(fn) if isinstance(s, ast.Assign) and isinstance(s.targets[0], ast.Subscript)]
        if len(zero) != 1 or _norm(zero[0]) != _norm(ast.parse('folded.data[where_folded_out] = 0').body[0]):
            raise pyexpr.Refuse('fold: folded.data[where_folded_out] = 0 changed')
        files.append(('C09_ob_fold_ambiguous', '\n'.join([hdr,
            'Definition gen (ambiguous ambiguous_rev : R) : R := %s.' % term,
            'Lemma ob : forall a a_rev : R, gen a a_rev = nadd (nmul (nopp nhalf) a) (nmul nhalf a_rev).',
            'Proof. intros. unfold gen, nhalf, n2. numR. field. Qed.', ''])))
        ctx.obligation('translate Spectrum.fold (folded-out / ambiguous tests, where/reverse lines, mask lines, ambiguous update)', True, 'translator')
    except (pyexpr.Refuse, SyntaxError, OSError) as e:
        ctx.obligation('translate Spectrum.fold (folded-out / ambiguous tests, where/reverse lines, mask lines, ambiguous update)', False, 'translator', str(e))
    if files:
        res = lib.run_case_files(files, timeout=300)
        for n, (rc, so, se, secs) in res.items():
            ctx.obligation('generated obligation %s (source expression = model, ring/field)' % n, rc == 0, 'translator', se[-500:] if rc else '')
        ctx.checker_cmds.append('coqc build/cases/C09_ob_*.v (regenerated from dadi/Numerics.py, dadi/Spectrum_mod.py)')

# ------------------------------------------------------------------------------------------------
# generators

def rand_shape(rng, d, parity=None, small=False):
    maxlen = {1: 14, 2: 7, 3: 5, 4: 4, 5: 3}[d]
    if small:
        maxlen = {1: 9, 2: 5, 3: 4, 4: 3, 5: 3}[d]
    shape = [rng.randint(2, maxlen) for _ in range(d)]
    if rng.random() < 0.04:
        shape[rng.randrange(d)] = 1           # a population with sample size 0
    if parity is not None and nsamples(shape) % 2 != parity:
        k = rng.randrange(d)
        shape[k] = shape[k] + 1 if shape[k] < maxlen else max(1, shape[k] - 1)
        if shape[k] == 1 and d == 1:
            shape[k] = 3 if parity == 0 else 2
    return shape

def rand_data(rng, n, style):
    if style == 'counts':
        return [float(rng.randint(0, 20)) for _ in range(n)]
    if style == 'positive':
        return [lib.dyadic(rng, 0.5, 8, 3) for _ in range(n)]
    if style == 'signed':
        return [lib.dyadic(rng, -8, 8, 4) for _ in range(n)]
    return [lib.dyadic(rng, 0, 16, 4) for _ in range(n)]

def rand_mask(rng, shape):
    n = size(shape)
    dens = rng.choice([0.0, 0.0, 0.1, 0.25, 0.5, 0.85])
    m = [rng.random() < dens for _ in range(n)]
    if rng.random() < 0.3:                       # mirror-symmetric mask
        m = [m[i] or m[n - 1 - i] for i in range(n)]
    return m

def rand_labels(rng, d):
    if rng.random() < 0.3:
        return None
    return rng.sample(LABELS, d)

def rand_spec(rng, shape, folded=False, style=None, consistent=None):
    n = size(shape)
    style = style or rng.choice(['counts', 'dyadic', 'dyadic', 'signed'])
    s = {'shape': list(shape), 'data': rand_data(rng, n, style), 'mask': rand_mask(rng, shape), 'folded': bool(folded),
         'pop_ids': rand_labels(rng, len(shape)), 'extrap_x': rng.choice([None, None, 0.5, 0.25, 0.125]),
         'ctor': rng.choice(['default', 'explicit'])}
    if folded and (consistent if consistent is not None else rng.random() < 0.6):
        # a well-formed folded spectrum: nothing in, and everything masked at, the folded-out entries
        N = nsamples(shape); t = totals(shape)
        for i in range(n):
            if t[i] > N // 2:
                s['data'][i] = 0.0; s['mask'][i] = True
    return s

def gen_cases(ctx):
    rng = ctx.rng
    cases = []
    def add(c):
        c['id'] = len(cases); cases.append(c)
    # ---- fold -> unfold -> fold chains, d = 1..5, both parities
    for rep in range(ctx.pick(8, 250)):
        for d in range(1, 6):
            for parity in (0, 1):
                shape = rand_shape(rng, d, parity)
                add({'kind': 'fold', 'a': rand_spec(rng, shape)})
    # already folded input: refused
    for rep in range(ctx.pick(3, 30)):
        add({'kind': 'fold', 'a': rand_spec(rng, rand_shape(rng, rng.randint(1, 5), small=True), folded=True)})
    # ---- unfold of user-constructed folded spectra (arbitrary masks, also inconsistent ones)
    for rep in range(ctx.pick(4, 100)):
        for d in range(1, 6):
            add({'kind': 'unfold', 'a': rand_spec(rng, rand_shape(rng, d, rng.randint(0, 1)), folded=True)})
    for rep in range(ctx.pick(2, 10)):
        add({'kind': 'unfold', 'a': rand_spec(rng, rand_shape(rng, rng.randint(1, 5), small=True), folded=False)})
    # ---- misidentification
    for rep in range(ctx.pick(5, 100)):
        for d in range(1, 6):
            p = rng.choice([0.0, 1.0, 0.5, lib.dyadic(rng, 0, 1, 6), lib.dyadic(rng, 0, 1, 6)])
            add({'kind': 'misid', 'a': rand_spec(rng, rand_shape(rng, d, rng.randint(0, 1)), folded=rng.random() < 0.15),
                 'p': p, 'via': rng.choice(['apply', 'np', 'func'])})
    # ---- operators
    nrep = ctx.pick(6, 100)
    for name in BINOPS + IOPS:
        kind = 'iop' if name in IOPS else 'bin'
        for rep in range(nrep):
            d = rng.randint(1, 4)
            shape = rand_shape(rng, d, small=True)
            n = size(shape)
            fa = rng.random() < 0.5
            a = rand_spec(rng, shape, folded=fa, style='positive')
            otype = ['scalar', 'array', 'masked', 'spec', 'spec'][rep % 5] if rep < 5 else rng.choice(['scalar', 'array', 'masked', 'spec', 'spec'])
            powlike = name in ('__pow__', '__ipow__'); rpow = name == '__rpow__'
            if rpow:
                a['data'] = [float(rng.randint(0, 4)) for _ in range(n)]
            if otype == 'scalar':
                v = float(rng.randint(0, 3)) if powlike else lib.dyadic(rng, 0.5, 3, 2)
                o = {'t': 'scalar', 'v': v}
                r = rng.random()
                if r < 0.3: o['np'] = True
                elif r < 0.5 and v == int(v): o['int'] = True
            else:
                od = [float(rng.randint(0, 3)) for _ in range(n)] if powlike else rand_data(rng, n, 'positive')
                if otype == 'array':
                    o = {'t': 'array', 'shape': shape, 'data': od}
                elif otype == 'masked':
                    o = {'t': 'masked', 'shape': shape, 'data': od, 'mask': rand_mask(rng, shape)}
                else:
                    fb = fa if rng.random() < 0.65 else (not fa)
                    o = rand_spec(rng, shape, folded=fb, style='positive')
                    o['data'] = od; o['t'] = 'spec'
                    r = rng.random()
                    if r < 0.35: o['pop_ids'] = a['pop_ids']
                    if rng.random() < 0.4: o['extrap_x'] = a['extrap_x']
            call = 'method' if (name in DEAD or rng.random() < 0.4) else 'syntax'
            if otype == 'spec' and name.startswith('__r'):
                call = 'method'      # `b <op> a` between two Spectra is b.__op__(a), never a.__rop__(b)
            add({'kind': kind, 'op': name, 'call': call, 'a': a, 'b': o})
    # ---- unary operations / views (predicate only)
    for rep in range(ctx.pick(2, 10)):
        for op in ['neg', 'pos', 'abs', 'log', 'copy', 'reverse', 'transpose', 'exp']:
            shape = rand_shape(rng, rng.randint(1, 4), small=True)
            add({'kind': 'unary', 'op': op, 'a': rand_spec(rng, shape, folded=rng.random() < 0.5, style='positive')})
    # ---- slicing
    for rep in range(ctx.pick(40, 600)):
        d = rng.randint(1, 5)
        shape = rand_shape(rng, d)
        sel = []
        for k, n in enumerate(shape):
            if rng.random() < 0.3 and not (k == d - 1 and all('i' in e for e in sel)):
                sel.append({'i': rng.randrange(n)})
            else:
                for _ in range(20):
                    st = rng.choice([None, None, rng.randint(-n, n)]); sp = rng.choice([None, None, rng.randint(-n, n)])
                    step = rng.choice([None, 1, 1, -1, 2, -2])
                    if len(range(*slice(st, sp, step).indices(n))) > 0:
                        break
                else:
                    st, sp, step = None, None, None
                sel.append({'s': [st, sp, step]})
        add({'kind': 'slice', 'a': rand_spec(rng, shape, folded=rng.random() < 0.5), 'sel': sel})
    # ---- likelihoods
    for rep in range(ctx.pick(18, 300)):
        d = rng.randint(1, 4)
        shape = rand_shape(rng, d, rng.randint(0, 1), small=True)
        combo = ['uf', 'uf', 'uf', 'ff', 'uu', 'fu'][rep % 6]       # model / data folding
        model = rand_spec(rng, shape, folded=combo[0] == 'f', style='positive', consistent=False)
        data = rand_spec(rng, shape, folded=combo[1] == 'f', style='counts', consistent=True)
        data['data'] = [float(rng.randint(0, 6)) for _ in data['data']]
        if combo[1] == 'f':
            N = nsamples(shape); t = totals(shape)
            for i in range(len(t)):
                if t[i] > N // 2:
                    data['data'][i] = 0.0
        model['ctor'] = 'default'; data['ctor'] = 'default'
        # keep at least one comparable entry (a comparison with everything masked is outside C09)
        L = size(shape); N = nsamples(shape); t = totals(shape)
        def comparable(i):
            if i == 0 or i == L - 1 or data['mask'][i] or model['mask'][i] or data['data'][i] <= 0:
                return False        # (a visible count of zero everywhere makes the optimal scaling 0: degenerate)
            if combo == 'uf':
                return t[i] <= N // 2 and not model['mask'][L - 1 - i]
            return True
        if not any(comparable(i) for i in range(L)):
            model['mask'] = [False] * L
            data['mask'] = [combo[1] == 'f' and t[i] > N // 2 for i in range(L)]
            data['data'] = [0.0 if data['mask'][i] else float(rng.randint(1, 6)) for i in range(L)]
        if not any(comparable(i) for i in range(L)):
            continue
        add({'kind': 'll', 'multinom': (rep // 6) % 2 == 1, 'model': model, 'data': data})
    return cases

# ------------------------------------------------------------------------------------------------
# Coq text

def lab_ids(p):
    if p is None:
        return 'None'
    return 'Some ' + natl([LABELS.index(x) + 1 if x in LABELS else 999 for x in p])

def coq_spec(d):
    """d: a dump from the implementation (or an input description with the same keys)"""
    data = [0.0 if (x is None) else x for x in d['data']]
    return ('{| ls_shape := %s; ls_folded := %s; ls_data := %s; ls_mask := %s; ls_ids := %s; ls_ex := %s |}'
            % (natl(d['shape']), b(d['folded']), ql(data), bl(d['mask']), lab_ids(d['pop_ids']),
               'None' if d['extrap_x'] is None else 'Some ' + q(d['extrap_x'])))

def well_formed(d):
    """a dump that can be sent to Coq: a masked array with bool folded flag and finite unmasked values"""
    if not isinstance(d, dict) or d.get('mask') is None or d.get('data') is None:
        return 'not a masked array (%s)' % (d.get('type') if isinstance(d, dict) else d)
    if not isinstance(d.get('folded'), bool):
        return 'folded attribute is %r' % (d.get('folded'),)
    for x, m in zip(d['data'], d['mask']):
        if x is None and not m:
            return 'non-finite value in an unmasked entry'
    return None

def coq_operand(o, dump_b=None):
    t = o['t']
    if t == 'scalar':
        return '(OScalar %s)' % q(o['v'])
    if t == 'array':
        return '(OArray %s)' % ql(o['data'])
    if t == 'masked':
        return '(OMasked %s %s)' % (ql(o['data']), bl(o['mask']))
    return '(OSpec %s)' % coq_spec(dump_b)

def coq_sel(sel, shape):
    out = []
    for e, n in zip(sel, shape):
        if 'i' in e:
            out.append('AIndex %d%%nat' % e['i'])
        else:
            out.append('ATake %s' % natl(list(range(*slice(*e['s']).indices(n)))))
    return '[' + '; '.join(out) + ']'

# ------------------------------------------------------------------------------------------------
# property predicates on what the implementation returned

def close(a, b_, scale):
    return abs(a - b_) <= RTOL * max(scale, 1e-300)

def pred_fold(c, r, fail):
    x = r['in']; f = r['f']
    L = len(x['data']); shape = x['shape']
    N = nsamples(shape); t = totals(shape)
    xs = x['data']; m = x['mask']
    scale = max([abs(v) for v in xs] + [1e-300]) * 2
    if f.get('type') != 'Spectrum' or f.get('folded') is not True:
        fail('fold() did not return a folded Spectrum (type %s, folded %r)' % (f.get('type'), f.get('folded')))
        return
    if f['pop_ids'] != x['pop_ids'] or f['extrap_x'] != x['extrap_x'] or f['shape'] != shape:
        fail('fold() changed labels / extrap_x / shape: %r %r' % (f['pop_ids'], f['extrap_x']))
    fd = f['data']; fm = f['mask']
    if any(v is None for v in fd):
        fail('fold() produced a non-finite value'); return
    # total counts conserved (whole data array)
    if not close(sum(fd), sum(xs), sum(abs(v) for v in xs)):
        fail('fold() does not conserve the total: %r -> %r' % (sum(xs), sum(fd)))
    # over the unmasked entries: entries whose own and mirror position are unmasked (corners are always masked)
    cor = [i == 0 or i == L - 1 for i in range(L)]
    want = sum(xs[i] for i in range(L) if not (m[i] or m[L - 1 - i] or cor[i]))
    got = sum(fd[i] for i in range(L) if not fm[i])
    if not close(got, want, sum(abs(v) for v in xs)):
        fail('fold() does not conserve the unmasked total: visible input %r, folded sum %r' % (want, got))
    # masks: union of own and mirror mask (plus folded-out entries and the two corners)
    for i in range(L):
        fo = t[i] > N // 2
        if fm[i] != (m[i] or m[L - 1 - i] or fo or cor[i]):
            fail('fold() mask at flat index %d is %r; own mask %r, mirror mask %r, folded out %r, corner %r' % (i, fm[i], m[i], m[L - 1 - i], fo, cor[i]))
            break
    # entries
    for i in range(L):
        if fm[i]:
            continue
        if 2 * t[i] == N:
            if not close(fd[i], (xs[i] + xs[L - 1 - i]) / 2, scale) or (not fm[L - 1 - i] and not close(fd[i], fd[L - 1 - i], scale)):
                fail('ambiguous entry %d is not shared equally: got %r, entry %r mirror %r' % (i, fd[i], xs[i], xs[L - 1 - i])); break
        elif not close(fd[i], xs[i] + xs[L - 1 - i], scale):
            fail('folded entry %d is not entry + mirror: got %r, entry %r mirror %r' % (i, fd[i], xs[i], xs[L - 1 - i])); break
    if N % 2 == 1 and any(2 * ti == N for ti in t):
        fail('ambiguous entry with an odd total')      # arithmetic impossibility; kept for completeness
    # mirrored input
    fr = r['fr']
    if fr['mask'] != fm:
        fail('fold(mirror(x)) and fold(x) have different masks')
    elif any((not fm[i]) and not close(fr['data'][i], fd[i], scale) for i in range(L)):
        fail('fold(mirror(x)) != fold(x)')
    # fold(unfold(fold(x))) = fold(x)
    u = r['u']; f2 = r['f2']
    if u.get('folded') is not False or f2.get('folded') is not True:
        fail('unfold()/fold() folding flags wrong: %r %r' % (u.get('folded'), f2.get('folded')))
    if f2['mask'] != fm:
        fail('fold(unfold(fold(x))) mask differs from fold(x) mask')
    elif any((not fm[i]) and not close(f2['data'][i], fd[i], scale) for i in range(L)):
        fail('fold(unfold(fold(x))) != fold(x)')
    if u['pop_ids'] != x['pop_ids'] or f2['pop_ids'] != x['pop_ids']:
        fail('labels lost in unfold/fold')

def pred_misid(c, r, fail):
    x = r['in']; o = r['r']; p = c['p']
    L = len(x['data']); xs = x['data']; m = x['mask']
    if o.get('type') != 'Spectrum' or o.get('folded') != x['folded'] or o['pop_ids'] != x['pop_ids']:
        fail('misidentification lost type / folding / labels: %s %r %r' % (o.get('type'), o.get('folded'), o.get('pop_ids'))); return
    scale = max([abs(v) for v in xs] + [1e-300])
    if o['mask'] != [m[i] or m[L - 1 - i] for i in range(L)]:
        fail('misidentified spectrum mask is not the union of entry and mirror masks')
    for i in range(L):
        if not o['mask'][i] and not close(o['data'][i], (1 - p) * xs[i] + p * xs[L - 1 - i], scale):
            fail('misid entry %d is not (1-p)*x + p*mirror(x): %r' % (i, o['data'][i])); break
    if all(v is not None for v in o['data']) and not close(sum(o['data']), sum(xs), sum(abs(v) for v in xs)):
        fail('misidentification does not conserve the total: %r -> %r' % (sum(xs), sum(o['data'])))
    if c.get('via') == 'func' and r.get('name') != 'model_misid':
        fail('make_anc_state_misid_func lost the function name: %r' % r.get('name'))

def pred_op(c, r, fail):
    a = r['in']; o = r['r']; bt = c['b']['t']
    mixed = bt == 'spec' and r['b_in']['folded'] != a['folded']
    if mixed:
        if o.get('raised') != 'ValueError':
            fail('%s between a folded and an unfolded Spectrum was not refused (got %s)' % (c['op'], o.get('raised') or o.get('type')))
        return
    if o.get('raised'):
        if o['raised'] == 'AttributeError' and c['op'] in DEAD:
            return
        fail('%s raised %s: %s' % (c['op'], o['raised'], o.get('msg'))); return
    if o.get('type') != 'Spectrum':
        fail('%s returned %s, not a Spectrum' % (c['op'], o.get('type'))); return
    if o.get('folded') != a['folded']:
        fail('%s changed / lost the folding status: %r -> %r' % (c['op'], a['folded'], o.get('folded')))
    om = None
    if bt == 'masked':
        om = c['b']['mask']
    elif bt == 'spec':
        om = r['b_in']['mask']
    want = a['mask'] if om is None else [x or y for x, y in zip(a['mask'], om)]
    if o['mask'] != want:
        fail('%s: result mask is not the OR of the operand masks' % c['op'])
    wl = a['pop_ids']
    if wl is None and bt == 'spec' and c['kind'] == 'bin':
        wl = r['b_in']['pop_ids']
    if o['pop_ids'] != wl:
        fail('%s: labels %r -> %r' % (c['op'], a['pop_ids'], o['pop_ids']))
    if c['kind'] == 'iop' and not r.get('r_is_self'):
        fail('%s did not return self' % c['op'])

def pred_slice(c, r, fail):
    a = r['in']; o = r['r']
    if o.get('type') != 'Spectrum' or o.get('folded') != a['folded'] or o['pop_ids'] != a['pop_ids'] or o['extrap_x'] != a['extrap_x']:
        fail('slicing lost type / folding status / labels / extrap_x: %s %r %r' % (o.get('type'), o.get('folded'), o.get('pop_ids')))

def pred_unary(c, r, fail):
    a = r['in']; o = r['r']
    if o.get('type') != 'Spectrum' or o.get('folded') != a['folded']:
        fail('%s lost type / folding status: %s %r' % (c['op'], o.get('type'), o.get('folded'))); return
    if c['op'] != 'transpose' and o['pop_ids'] != a['pop_ids']:
        fail('%s lost labels' % c['op'])
    if c['op'] in ('neg', 'pos', 'abs', 'copy', 'log', 'exp') and o['mask'] != a['mask']:
        fail('%s changed the mask' % c['op'])
    if c['op'] == 'reverse' and o['mask'] != a['mask'][::-1]:
        fail('reverse_array: mask is not mirrored')
    if c['op'] == 'reverse' and o['data'] != a['data'][::-1]:
        fail('reverse_array: values are not mirrored')

def pred_ll(c, r, fail):
    m = r['model_in']; d = r['data_in']
    if m['folded'] and not d['folded']:
        if r.get('raised') != 'ValueError':
            fail('likelihood of a folded model against unfolded data was not refused')
        return
    if r.get('raised'):
        fail('likelihood raised %s' % r.get('msg')); return
    if d['folded'] and not m['folded']:
        lp = r.get('ll_prefolded')
        if lp is None or r['ll'] is None or not close(r['ll'], lp, max(abs(lp), 1.0)):
            fail('ll(model, folded data) = %r but ll(model.fold(), folded data) = %r' % (r['ll'], lp))
    ma = r['model_after']
    if ma['folded'] != m['folded'] or ma['mask'] != m['mask'] or ma['data'] != m['data']:
        fail('likelihood evaluation modified the model Spectrum')

# ------------------------------------------------------------------------------------------------

def run(ctx):
    ctx.rule = ('cases = fold/unfold/fold chains, unfold of hand-made folded spectra, misidentification, the 14 binary + 7 in-place '
                'operator methods (method call or operator syntax; scalar / numpy scalar / ndarray / masked array / Spectrum operand, '
                'equal or mixed folding), unary ops and views, basic slicing, ll / ll_multinom; d = 1..5, axis lengths 1..14, even and '
                'odd total sample size, random masks (densities 0..0.85, symmetric or not), labels, extrap_x; all from one PRNG; '
                'distinct = distinct (kind, op, shape, data, masks, flags); non-trivial = more than 2 entries; '
                'PLUS on every run the systematic stream layouts (c09_layouts.py): fixed base inputs d = 1..5 x both parities handed to '
                'fold / unfold / reverse_array / apply_anc_state_misid / make_anc_state_misid_func / the 21 operator methods / slicing / '
                'll / ll_multinom in every accepted spelling (Fortran-ordered, transposed, reorder_pops, swapaxes, strided, negatively '
                'strided, lists, int / float32 data, int mask, MaskedArray or no mask; p and parameter vectors in every numeric type and '
                'container), compared with the C-ordered float64 spelling, called twice, caller objects unchanged')
    ctx.assumptions += ['float64 results are compared with exact rational evaluation at 1e-11 relative to the largest entry, only where unmasked',
                        'Qln is a rational approximation with relative error < 2^-100 (likelihood cases only); lgamma at integer counts is a sum of logarithms',
                        'numpy element-wise ufuncs (+ - * / // **), basic slicing and masked-array views are the platform; floor division and power are evaluated on Q only for non-zero divisors / integer exponents']
    ctx.trusted += ['numpy.ma semantics (mask_or, views, __array_finalize__/_update_from) are covered by execution only']
    translator_obligations(ctx)
    broken = [o['name'] for o in ctx.obligations if not o['ok'] and o.get('kind') == 'translator']
    cases = gen_cases(ctx)
    # stream 'layouts' (c09_layouts.py): every entry point in every accepted spelling, every run; a broken source
    # obligation starts the targeted search: the same stream at thorough size plus random shapes
    import sys as _sys
    from harness.props import c09_layouts
    c09 = _sys.modules[__name__]
    cases += c09_layouts.gen(ctx, c09, len(cases), reps=ctx.pick(1, 3))
    if ctx.replay:
        rp = json.load(open(ctx.replay))
        if rp.get('input') and 'case' in rp['input']:
            c = rp['input']['case']
            if c.get('stream') == 'layouts' and rp['input'].get('canonical_case'):
                cases = [rp['input']['canonical_case'], c]
            else:
                c['id'] = 0
                cases = [c]
    res = lib.run_impl('c09_impl.py', cases, timeout=1800)
    byid = {r['id']: r for r in res}
    exprs = []; meta = {}
    failed_pred = set()
    kinds_seen = set()
    def coq(c, what, text):
        if c.get('nocoq'):
            return
        n = len(exprs); exprs.append((n, text)); meta[n] = (c, what)
    lay_reported = {}
    case_by_id = {c['id']: c for c in cases}
    def lay_fail(c, r, msg):
        failed_pred.add(c['id'])
        key = (c['entry'], tuple(c['argspell']), msg.split(':')[1][:40] if ':' in msg else msg[:40])
        lay_reported[key] = lay_reported.get(key, 0) + 1
        if lay_reported[key] <= 2 and len(lay_reported) <= 40:
            grp = byid.get(c.get('group'))
            ctx.violation('layouts %s' % msg, data={'case': c, 'impl': r, 'canonical_case': case_by_id.get(c.get('group')), 'canonical_impl': grp})
    discover = {} if os.environ.get('C09_LAYOUTS_DISCOVER') else None
    lay_ran, lay_exercised = c09_layouts.compare(ctx, cases, byid, lay_fail, discover)
    if broken and not lay_reported and not ctx.replay:
        # targeted search: a source obligation of the mirror / fold / unfold / misidentification lines no longer checks and the
        # systematic list found nothing -> the same stream on random shapes, twice over, before anything is reported without input
        ctx.count('targeted search after broken obligation')
        extra = c09_layouts.gen(ctx, c09, len(cases), reps=2, random_shapes=True)
        for r_ in lib.run_impl('c09_impl.py', extra, timeout=1800):
            byid[r_['id']] = r_
        for c_ in extra:
            case_by_id[c_['id']] = c_
        ran2, ex2 = c09_layouts.compare(ctx, extra, byid, lay_fail, discover)
        lay_ran |= ran2; lay_exercised |= ex2
        cases += extra
    if discover is not None:
        with open(os.environ['C09_LAYOUTS_DISCOVER'], 'w') as f:
            for k_ in sorted(discover):
                f.write('%r: %r\n' % (k_, sorted(discover[k_])))
    if not ctx.replay:
        c09_layouts.coverage(ctx, lay_exercised)
    for c in cases:
        r = byid[c['id']]
        k = c['kind']
        if c.get('stream') == 'layouts' and c['id'] not in lay_ran:
            continue            # n/a, rejected or differently-built spelling: handled (counted / reported) by c09_layouts.compare
        def fail(msg, c=c, r=r):
            failed_pred.add(c['id'])
            tag = ' [%s=%s]' % tuple(c['argspell']) if c.get('stream') == 'layouts' else ''
            ctx.violation('%s%s: %s' % (c['kind'] + ('/' + c['op'] if 'op' in c else ''), tag, msg), data={'case': c, 'impl': r})
        if 'crash' in r:
            ctx.obligation('case %d (%s) ran' % (c['id'], k), False, 'correspondence', r['crash'])
            fail('implementation driver crashed: ' + r['crash'])
            continue
        a_in = r.get('in') or r.get('model_in')
        shape = a_in['shape']
        ctx.count('kind=' + k); ctx.count('d=%d' % len(shape))
        if k in ('fold', 'unfold', 'misid', 'll'):
            ctx.count('total_parity=%s' % ('odd' if nsamples(shape) % 2 else 'even'))
        sig = (k, c.get('op'), c.get('call'), tuple(shape), tuple(a_in['data']), tuple(a_in['mask']), a_in['folded'],
               json.dumps(c.get('b'), sort_keys=True) if 'b' in c else None, c.get('p'), json.dumps(c.get('sel')) if 'sel' in c else None,
               c.get('multinom'), json.dumps(c.get('data'), sort_keys=True) if k == 'll' else None)
        ctx.case(signature=sig if size(shape) > 2 else None,
                 sample={'kind': k, 'op': c.get('op'), 'shape': shape, 'folded': a_in['folded'], 'in_data': a_in['data'][:12], 'in_mask': a_in['mask'][:12]})
        # ---------------- fold
        if k == 'fold':
            f = r['f']
            if a_in['folded']:
                kinds_seen.add('fold-refused')
                if f.get('raised') != 'ValueError':
                    fail('fold() of an already folded Spectrum was not refused')
                coq(c, 'fold', 'CFold %s %s' % (coq_spec(a_in), 'None' if f.get('raised') else '(Some %s)' % coq_spec(f)))
                continue
            if f.get('raised'):
                fail('fold() raised %s' % f.get('msg')); continue
            kinds_seen.add('fold-%dd-%s' % (len(shape), 'odd' if nsamples(shape) % 2 else 'even'))
            bad = [w for w in (well_formed(f), well_formed(r['u']), well_formed(r['f2']), well_formed(r['fr'])) if w]
            if bad:
                fail('fold chain returned ' + bad[0]); continue
            pred_fold(c, r, fail)
            coq(c, 'fold', 'CFold %s (Some %s)' % (coq_spec(a_in), coq_spec(f)))
            coq(c, 'unfold(fold)', 'CUnfold %s (Some %s)' % (coq_spec(f), coq_spec(r['u'])))
            coq(c, 'fold(unfold(fold))', 'CFold %s (Some %s)' % (coq_spec(r['u']), coq_spec(r['f2'])))
        elif k == 'unfold':
            u = r['u']
            if not a_in['folded']:
                kinds_seen.add('unfold-refused')
                if u.get('raised') != 'ValueError':
                    fail('unfold() of an unfolded Spectrum was not refused')
                coq(c, 'unfold', 'CUnfold %s %s' % (coq_spec(a_in), 'None' if u.get('raised') else '(Some %s)' % coq_spec(u)))
                continue
            if u.get('raised'):
                fail('unfold() raised %s' % u.get('msg')); continue
            w = well_formed(u)
            if w:
                fail('unfold returned ' + w); continue
            kinds_seen.add('unfold')
            if u.get('type') != 'Spectrum' or u['folded'] is not False or u['pop_ids'] != a_in['pop_ids']:
                fail('unfold() lost type / flag / labels')
            coq(c, 'unfold', 'CUnfold %s (Some %s)' % (coq_spec(a_in), coq_spec(u)))
        elif k == 'misid':
            w = well_formed(r['r'])
            if w:
                fail('apply_anc_state_misid returned ' + w); continue
            kinds_seen.add('misid-' + c['via'])
            pred_misid(c, r, fail)
            coq(c, 'misid', 'CMisid %s %s %s' % (q(c['p']), coq_spec(a_in), coq_spec(r['r'])))
        elif k in ('bin', 'iop'):
            o = r['r']
            ctx.count('op=' + c['op']); ctx.count('operand=' + c['b']['t'])
            kinds_seen.add(c['op'])
            pred_op(c, r, fail)
            if o.get('raised') == 'ValueError':
                impl = 'Refused'; ctx.count('refused')
            elif o.get('raised') == 'AttributeError':
                impl = 'NoSuchOp'
            elif o.get('raised'):
                continue
            else:
                w = well_formed(o)
                if w:
                    fail('%s returned %s' % (c['op'], w)); continue
                impl = '(Done %s)' % coq_spec(o)
            ctor = 'CIop' if k == 'iop' else 'CBin'
            coq(c, c['op'], '%s %s %s %s %s' % (ctor, COQ_OP[c['op']], coq_spec(a_in), coq_operand(c['b'], r.get('b_in')), impl))
        elif k == 'slice':
            w = well_formed(r['r'])
            if w:
                fail('slicing returned ' + w); continue
            kinds_seen.add('slice')
            pred_slice(c, r, fail)
            coq(c, 'slice', 'CSlice %s %s %s' % (coq_sel(c['sel'], shape), coq_spec(a_in), coq_spec(r['r'])))
        elif k == 'unary':
            kinds_seen.add('unary-' + c['op'])
            if c['op'] != 'reverse_ndarray':        # (plain arrays: judged by c09_layouts.compare)
                pred_unary(c, r, fail)
        elif k == 'll':
            kinds_seen.add('ll-%s-%s%s' % ('multinom' if c['multinom'] else 'poisson', 'f' if a_in['folded'] else 'u', 'f' if r['data_in']['folded'] else 'u'))
            pred_ll(c, r, fail)
            impl = 'None' if r.get('ll') is None else '(Some %s)' % q(r['ll'])
            coq(c, 'll', 'CLL %s %s %s %s' % (b(c['multinom']), coq_spec(a_in), coq_spec(r['data_in']), impl))
    # coverage of the input space claimed in the rule (fail closed)
    if not ctx.replay:
        need = set(BINOPS + IOPS) | {'fold-%dd-%s' % (d, p) for d in range(1, 6) for p in ('odd', 'even')} | \
               {'fold-refused', 'unfold-refused', 'unfold', 'slice', 'misid-apply', 'misid-np', 'misid-func',
                'll-poisson-uf', 'll-multinom-uf', 'll-poisson-fu', 'll-multinom-ff'}
        miss = sorted(need - kinds_seen)
        ctx.obligation('every claimed input class was exercised (21 operator methods, d=1..5 x parity, refusals, slicing, likelihoods)', not miss, 'harness', ', '.join(miss))
    header = ('From Coq Require Import ZArith QArith List.\nFrom Dadi Require Import Base.Num Base.NumQ Model.Fold Model.FoldCheck.\n'
              'Import ListNotations.\nOpen Scope Q_scope.')
    results = ctx.coq_cases('corr', header, exprs, '(ccheck %s)' % q(TOL), 'tol 1e-11 relative to the largest entry (unmasked entries only)',
                            shard=ctx.pick(max(8, len(exprs) // 15), max(20, len(exprs) // 48)), timeout=1800)
    nbad = 0
    for n, (c, what) in meta.items():
        rr = results.get(n)
        ok = rr is not None and rr[0]
        ctx.obligation('corr case %d %s' % (c['id'], what), ok, 'correspondence', '' if ok else 'model != impl (code / log2 rel err %r)' % (rr,))
        if not ok:
            nbad += 1
            if c['id'] not in failed_pred and nbad <= 5:
                # the model and the code disagree but none of the property predicates failed on this input
                ctx.violation('%s: implementation disagrees with the Coq model of %s (check code %r), no property predicate fails on this input'
                              % (c['kind'], what, rr), data={'case': c, 'impl': byid[c['id']], 'coq': rr},
                              no_input=True, broken='correspondence C09 %s' % what)
