"""C17 -- DFE integration is the documented quadrature of a schedule-independent cache.

Static theorems: coq/theories/Props/C17.v (models: Model/DFE.v, Model/Sched.v).
Per run:
 (1) translator obligations (harness/props/c17_translate.py): the compiled bivariate pdfs of PDFs.c and the reference
     formulas of PDFs.py are re-read, translated and proved equal to the hand models whose equality is a static theorem;
     wiring of PDFs_cython.pyx; numerical comparison C vs Python (1e-12) and Lanczos gamma vs scipy gamma;
 (2) correspondence: Cache1D / Cache2D objects are built by the real code from cheap closed-form demographic functions
     (and DemogSelModels.equil / split_mig_sel on tiny grids); integrate, integrate_point_pos, 2-D integrate,
     integrate_point_pos, integrate_symmetric_point_pos, mixture*, Vourlaki_mixture are run; the cached spectra, the pdf
     values and every scipy quad/dblquad call are read back / recorded and the Coq model recomputes the quadrature
     (entry by entry, over Q, compared inside Coq at 1e-10).  The 1-D tail masses the model uses are NOT the values the implementation
     obtained: the driver integrates the pdf (untouched scipy quad) over the regions outside EACH cache's own grid, the Coq model
     ([tails_on], [vourlaki_q], table t_quad1 keyed by parameter vector and limits) derives the region of every component from the grid
     that component's trapezoid runs over and looks the integral up; the limits the implementation handed to quad / dblquad are compared
     with the documented regions as an obligation, and where a 2-D edge / corner integral deviates the model gets the integrals over the
     documented regions instead.  Functions combining a Cache1D and a Cache2D (mixture, mixture_symmetric_point_pos, mixture_point_pos,
     Vourlaki_mixture) run on every run with the two caches on DIFFERENT gamma ranges and grid sizes in every relation (family mixb);
 (3) the property predicates on the implementation itself: linearity in theta, history independence, selection-free
     total weight (and ~1 on fine grids; for two-cache operations within an a-priori quadrature-error bound), mixture weights,
     Vourlaki_mixture = theta * stated weighted sum of components recomputed independently from the caches (each with its own grid's tails);
 (4) real multiprocessing: worker counts and split_jobs give identical caches, merge over every subset of
     missing / duplicated split jobs, a conflicting duplicate, raising workers; the Coq scheduler / merge model runs
     on the same inputs (labels) under random interleavings.
"""
import json, math, os, signal, subprocess, itertools
from fractions import Fraction
from harness import lib
from harness.lib import q, ql, qll, b
from harness.props import c17_translate, c17_types

TOL = Fraction(1, 10 ** 10)
FTOL = 1e-10
KEY_THETA = 'Cache1D.integrate_point_pos:theta-not-applied-to-cached-point-mass'
KEY_HIST = 'Cache1D.integrate_point_pos:theta-baked-into-cached-spectrum'
KEY_MIXPP = 'Cache2D_mod.mixture_point_pos:rho-is-None'
KEY_MIXSYM = 'Cache2D_mod.mixture_symmetric_point_pos:wrong-parameter-vector'
KNOWN_KEYS = (KEY_THETA, KEY_HIST, KEY_MIXPP, KEY_MIXSYM)

PDF1 = ['exponential', 'gamma', 'lognormal', 'beta']
# asymmetric bivariate pdfs, narrow and/or strongly deleterious (mass outside the cached range, both signs of rho), whose density at the
# off-diagonal points of the symmetry probe (0.01, 1, 100) is far below 1e-8: the shortcut decision rests on atol=0 there
ASYM_NARROW = [('biv_lognormal', [6.0, 6.5, 0.5, 0.5, 0.25]), ('biv_lognormal', [6.5, 5.75, 0.375, 0.625, -0.5]),
               ('biv_lognormal', [0.5, -0.5, 0.5, 1.0, -0.75]), ('biv_lognormal', [5.0, 6.0, 0.5, 0.75, 0.5]),
               ('biv_lognormal', [6.0, -1.5, 0.5, 0.25, -0.5]), ('biv_lognormal', [3.0, 4.0, 0.5, 0.5, 0.75]),
               ('biv_ind_gamma', [20.0, 30.0, 20.0, 25.0]), ('biv_ind_gamma', [16.0, 24.0, 8.0, 16.0, 0.5]),
               ('biv_ind_gamma', [24.0, 16.0, 0.25, 16.0]), ('biv_ind_gamma', [12.0, 20.0, 2.0, 1.0])]
# those of them whose mass outside a (0.5, 256) grid sits in the lethal tail of one axis and the neutral tail / grid of the other, so that the
# total weight (which lacks the lethal x lethal corner) is still ~1: observed 0.9964 .. 1.0089 on 40 points
ASYM_TOTAL_ONE = [('biv_lognormal', [6.0, -1.5, 0.5, 0.25, -0.5]), ('biv_lognormal', [0.5, -0.5, 0.5, 1.0, -0.75]),
                  ('biv_ind_gamma', [24.0, 16.0, 0.25, 16.0]), ('biv_ind_gamma', [16.0, 24.0, 8.0, 16.0, 0.5])]
FN = {'int1': 'Cache1D.integrate', 'pp1': 'Cache1D.integrate_point_pos', 'int2': 'Cache2D.integrate', 'pp2': 'Cache2D.integrate_point_pos',
      'sympp2': 'Cache2D.integrate_symmetric_point_pos', 'mix': 'DFE.mixture', 'mixsym': 'DFE.mixture_symmetric_point_pos',
      'mixpp': 'Cache2D_mod.mixture_point_pos', 'vourlaki': 'DFE.Vourlaki_mixture'}

# ------------------------------------------------------------------------------------------------------------
def run_impl(payload, timeout):
    """like lib.run_impl, but the driver gets its own process group which is killed on timeout (hung pools)"""
    from harness import overlay
    p = subprocess.Popen([lib.PY, os.path.join(lib.HARNESS, 'impl', 'c17_impl.py')], stdin=subprocess.PIPE,
                         stdout=subprocess.PIPE, stderr=subprocess.PIPE, text=True, env=overlay.env(), cwd=lib.BUILD,
                         start_new_session=True)
    try:
        out, err = p.communicate(json.dumps(payload), timeout=timeout)
    except subprocess.TimeoutExpired:
        try:
            os.killpg(p.pid, signal.SIGKILL)
        except ProcessLookupError:
            pass
        p.communicate()
        raise
    finally:
        try:
            os.killpg(p.pid, signal.SIGKILL)      # stray manager / worker processes
        except (ProcessLookupError, PermissionError):
            pass
    if p.returncode != 0:
        raise RuntimeError('c17_impl.py failed (rc=%d):\n%s' % (p.returncode, err[-3000:]))
    lines = [l for l in out.splitlines() if l.startswith('{') or l.startswith('[')]
    return json.loads(lines[-1])

# ------------------------------------------------------------------------------------------------------------
# generators

def dy(rng, lo, hi, bits=3):
    return lib.dyadic(rng, lo, hi, bits)

def pdf1_params(rng, name):
    if name == 'exponential':
        return [dy(rng, 0.5, 8)]
    if name == 'gamma':
        return [dy(rng, 0.5, 3), dy(rng, 0.5, 8)]
    if name == 'lognormal':
        return [dy(rng, -1, 2), dy(rng, 0.5, 2)]
    if name == 'beta':      # second shape >= 1: the density is finite at x = 1, which a log-spaced grid over (2^-k, 2^k) hits exactly
        return [dy(rng, 0.5, 3), dy(rng, 1, 3)]
    raise ValueError(name)

def pdf2_params(rng, name, sym=None):
    if sym is None:
        sym = rng.random() < 0.5
    if name == 'biv_lognormal':
        rho = rng.choice([-0.875, -0.5, -0.25, 0.0, 0.25, 0.5, 0.75, 0.875])
        if sym:
            return [dy(rng, -1, 2), dy(rng, 0.5, 2), rho]
        mu1 = dy(rng, -1, 2); s1 = dy(rng, 0.5, 2)
        return [mu1, mu1 + rng.choice([0.5, 1.0, -0.75]), s1, s1 + rng.choice([0.25, 0.5]), rho]
    if name == 'biv_ind_gamma':
        a = dy(rng, 0.5, 3); bb = dy(rng, 0.5, 8)
        if sym:
            return rng.choice([[a, bb], [a, bb, 0.5], [a, a, bb, bb]])
        p = [a, a + rng.choice([0.5, 1.0]), bb, bb + rng.choice([0.5, 2.0])]
        return rng.choice([p, p + [0.25]])
    raise ValueError(name)

def thetas(rng):
    return rng.choice([0.5, 2.0, 3.0, 10.0, 64.0, 1000.0, 2.5])

def gen_scenarios(ctx):
    rng = ctx.rng
    scs = []
    def new(**kw):
        sc = {'id': len(scs), 'ops': []}
        sc.update(kw)
        scs.append(sc)
        return sc
    def cheap():
        return {'kind': 'cheap', 'c': [dy(rng, 0.125, 1), dy(rng, 0.0625, 0.5, 4), dy(rng, 0.25, 2), dy(rng, 0.125, 1), dy(rng, 0.0625, 0.5, 4)]}
    def bounds():
        return [2.0 ** -rng.randint(4, 8), 2.0 ** rng.randint(3, 7)]
    def add(sc, **op):
        op['k'] = len(sc['ops'])
        sc['ops'].append(op)
        return op['k']
    def with_lin(sc, **op):
        """the op at a generated theta plus its theta = 1 companion (linearity predicate)"""
        th = thetas(rng)
        k1 = add(sc, theta=1.0, **op)
        k = add(sc, theta=th, lin_of=k1, **op)
        return k

    n1 = ctx.pick(5, 40)
    # ---- A: one-dimensional caches
    for i in range(n1):
        kind = 'cheap' if i % 5 != 4 else 'const'
        ns = rng.choice([[2], [3], [4], [5], [2, 2], [2, 3]])
        addg = rng.choice([[2.0], [1.5, 4.0], [0.5, 3.0, 8.0]])
        sc = new(c1=cheap() if kind == 'cheap' else {'kind': 'const', 'c': cheap()['c']}, ns=ns,
                 pts=rng.choice([[8, 10, 12], [6], [10, 12]]), gamma_bounds=bounds(), gamma_pts=rng.randint(3, 10),
                 additional_gammas=addg, family='1d', selfree=(kind == 'const'))
        for name in rng.sample(PDF1, ctx.pick(2, 4)):
            pr = pdf1_params(rng, name)
            with_lin(sc, op='int1', pdf1=name, params=pr, ext=True)
            if rng.random() < 0.5:
                add(sc, op='int1', pdf1=name, params=pr, ext=False, theta=thetas(rng))
        add(sc, op='int1', pdf1='exponential', params=[2.0], theta=thetas(rng), ext_default=True)
        # a density whose support starts inside the cached range: at a grid point's neighbourhood (between two points) and exactly on the
        # smallest cached |gamma| (the neutral-tail integral is then exactly 0)
        gb = sc['gamma_bounds']
        with_lin(sc, op='int1', pdf1='shifted_exponential', params=[rng.choice([0.25, 0.75, 1.5, 3.0]), dy(rng, 0.5, 4)], ext=True)
        add(sc, op='int1', pdf1='shifted_exponential', params=[gb[0], dy(rng, 0.5, 4)], ext=True, theta=thetas(rng))
        # point masses: cached gammapos, one and two masses
        name = rng.choice(PDF1[:3]); pr = pdf1_params(rng, name)
        pp = dy(rng, 0.125, 0.5)
        with_lin(sc, op='pp1', pdf1=name, params=pr + [pp, addg[0]], npos=1)
        if len(addg) > 1:
            with_lin(sc, op='pp1', pdf1=name, params=pr + [0.125, addg[0], 0.25, addg[1]], npos=2)
        add(sc, op='pp1', pdf1=name, params=pr + [pp, addg[0]], npos=1, theta=thetas(rng), ext=False)
        # not cached, no function handed in: IndexError
        add(sc, op='pp1', pdf1=name, params=pr + [pp, 1.25], npos=1, theta=2.0)
        # not cached, function handed in: history (theta=1 first, then theta=t on the same cache, then theta=t on a fresh cache)
        th = thetas(rng); g = rng.choice([1.25, 2.5, 6.0])
        ka = add(sc, op='pp1', pdf1=name, params=pr + [pp, g], npos=1, theta=1.0, demo=True, fresh=True)
        kb = add(sc, op='pp1', pdf1=name, params=pr + [pp, g], npos=1, theta=th, demo=True, after=ka)
        kc = add(sc, op='pp1', pdf1=name, params=pr + [pp, g], npos=1, theta=th, demo=True, fresh=True, hist_of=kb, lin_of=ka)
        if len(addg) > 1:
            add(sc, op='pp1', pdf1=name, params=pr + [0.125, g, 0.25, addg[1]], npos=2, theta=th, demo=True, fresh=True)
    # a real model on tiny grids
    sc = new(c1={'kind': 'equil'}, ns=[4], pts=[8, 10, 12], gamma_bounds=[0.0625, 16.0], gamma_pts=ctx.pick(4, 8),
             additional_gammas=[1.0], family='1d-equil')
    with_lin(sc, op='int1', pdf1='gamma', params=[0.5, 4.0], ext=True)
    with_lin(sc, op='int1', pdf1='lognormal', params=[0.5, 1.0], ext=True)
    with_lin(sc, op='pp1', pdf1='exponential', params=[2.0, 0.25, 1.0], npos=1)
    # fine grid, selection-free: the total weight must be ~1 (wide default-like range: tails negligible, trapezoid error ~1e-3;
    # narrow range: a few percent of the mass sits in each tail, trapezoid error ~1e-5)
    for name, pr in [('exponential', [5.0]), ('gamma', [1.5, 4.0]), ('lognormal', [1.0, 1.0])][:ctx.pick(2, 3)]:
        for gb, tol1 in (([1e-4, 2000.0], 1e-2), ([0.5, 20.0], 2e-3)):
            sc = new(c1={'kind': 'const', 'c': [0.5, 0, 0, 0, 0.25]}, ns=[2], pts=[4], gamma_bounds=gb, gamma_pts=ctx.pick(200, 500),
                     additional_gammas=[], family='1d-fine', selfree=True, total_one=tol1)
            add(sc, op='int1', pdf1=name, params=pr, ext=True, theta=2.0)

    # ---- B: two-dimensional caches
    n2 = ctx.pick(3, 24)
    for i in range(n2):
        kind = 'cheap' if i % 4 != 3 else 'const'
        addg = rng.choice([[2.0], [1.5, 4.0]])
        sc = new(c2=cheap() if kind == 'cheap' else {'kind': 'const', 'c': cheap()['c']}, ns=rng.choice([[2, 2], [2, 3], [3, 2]]),
                 pts=rng.choice([[8, 10, 12], [6]]), gamma_bounds=bounds(), gamma_pts=rng.randint(2, ctx.pick(4, 6)),
                 additional_gammas=addg, family='2d', selfree=(kind == 'const'))
        for name in ['biv_lognormal', 'biv_ind_gamma']:
            for sym in ([True, False] if (i % 2 == 0 or not ctx.quick) else [rng.random() < 0.5]):
                pr = pdf2_params(rng, name, sym)
                with_lin(sc, op='int2', pdf2=name, params=pr, ext=True)
                if rng.random() < 0.4:
                    add(sc, op='int2', pdf2=name, params=pr, ext=False, theta=thetas(rng))
        for name, pra in rng.sample(ASYM_NARROW, ctx.pick(2, 4)):
            with_lin(sc, op='int2', pdf2=name, params=list(pra), ext=True)
        pr = pdf2_params(rng, 'biv_lognormal', True)
        p1, p2 = dy(rng, 0.125, 0.5), dy(rng, 0.125, 0.5)
        rho = rng.choice([0.0, 0.25, 0.5, 1.0])
        with_lin(sc, op='pp2', pdf2='biv_lognormal', params=pr + [p1, addg[0], p2, addg[-1]], rho=rho)
        add(sc, op='pp2', pdf2='biv_lognormal', params=pr + [p1, addg[0], p2, addg[-1]], theta=thetas(rng))      # rho default 0
        pr5 = pdf2_params(rng, 'biv_ind_gamma', False)
        with_lin(sc, op='pp2', pdf2='biv_ind_gamma', params=pr5 + [p1, addg[-1], p2, addg[0]], rho=rho)
        with_lin(sc, op='sympp2', pdf2='biv_lognormal', params=pr + [p1, addg[0]])
        add(sc, op='sympp2', pdf2='biv_lognormal', params=pr + [p1, 7.0], theta=2.0)                               # not cached: IndexError
    if not ctx.quick:
        sc = new(c2={'kind': 'split', 'dparams': [1.0, 2.0, 0.25, 0.5]}, ns=[2, 2], pts=[8, 10, 12], gamma_bounds=[0.0625, 8.0], gamma_pts=3,
                 additional_gammas=[1.0], family='2d-split')
        with_lin(sc, op='int2', pdf2='biv_lognormal', params=[0.5, 1.0, 0.5], ext=True)
        with_lin(sc, op='sympp2', pdf2='biv_lognormal', params=[0.5, 1.0, 0.5, 0.25, 1.0])
    # fine grid, selection-free, 2-D (trapezoid error on the wide log grid: 2.7e-2 at 60 points, 1e-2 at 100; the lethal x lethal
    # corner that Cache2D.integrate leaves out is < 1e-3 for these densities)
    for gb, npts, tol2 in ([([0.5, 20.0], 40, 1e-2)] if ctx.quick else [([1e-4, 2000.0], 100, 3e-2), ([0.5, 20.0], 40, 1e-2)]):
        sc = new(c2={'kind': 'const', 'c': [0.5, 0, 0, 0, 0.25]}, ns=[2, 2], pts=[4], gamma_bounds=gb, gamma_pts=npts,
                 additional_gammas=[], family='2d-fine', selfree=True, total_one=tol2)
        add(sc, op='int2', pdf2='biv_ind_gamma', params=[1.5, 4.0], ext=True, theta=2.0)
        if not ctx.quick:
            add(sc, op='int2', pdf2='biv_lognormal', params=[1.0, 1.0, 0.5], ext=True, theta=2.0)

    # asymmetric narrow pdfs with most of their mass in a tail, selection-free: total weight ~1 only if gamma2's own tails are used
    sc = new(c2={'kind': 'const', 'c': [0.5, 0, 0, 0, 0.25]}, ns=[2, 2], pts=[4], gamma_bounds=[0.5, 256.0], gamma_pts=40,
             additional_gammas=[], family='2d-fine-asym', selfree=True, total_one=2.5e-2, no_coq=True)
    # (no_coq: 1600 pdf values down to 1e-300 make exact rational arithmetic take minutes; this scenario is decided by the predicates on the
    #  implementation -- result = theta*S*total weight, total weight ~ 1 -- and the same pdfs go through Coq on the small grids of family 2d)
    for name, pra in (ASYM_TOTAL_ONE[::2] if ctx.quick and rng.random() < 0.5 else ASYM_TOTAL_ONE[1::2] if ctx.quick else ASYM_TOTAL_ONE):
        add(sc, op='int2', pdf2=name, params=list(pra), ext=True, theta=2.0)

    # ---- C: mixtures (two-population spectra in both caches)
    n3 = ctx.pick(3, 16)
    for i in range(n3):
        kind = 'cheap' if i % 3 != 2 else 'const'
        g = rng.choice([2.0, 4.0])
        mk = (lambda: cheap()) if kind == 'cheap' else (lambda: {'kind': 'const', 'c': [0.5, 0, 0, 0, 0.25]})
        cc = mk()
        sc = new(c1=cc, c2=dict(cc), ns=rng.choice([[2, 2], [2, 3]]), pts=rng.choice([[8, 10, 12], [6]]), gamma_bounds=bounds(),
                 gamma_pts=rng.randint(3, 8), gamma_pts2=rng.randint(2, ctx.pick(4, 5)), additional_gammas=[g], family='mix',
                 selfree=(kind == 'const'))
        if rng.random() < 0.5:
            sc['gamma_bounds2'] = bounds()
        p2d = rng.choice([0.0, 0.25, 0.5, 1.0])
        rho = rng.choice([-0.5, 0.25, 0.5, 0.75])
        ln = pdf1_params(rng, 'lognormal'); ga = pdf1_params(rng, 'gamma')
        pp = dy(rng, 0.125, 0.5)
        k = with_lin(sc, op='mix', pdf1='lognormal', pdf2='biv_lognormal', params=ln + [rho, p2d], ext=True)
        sc['ops'][k]['parts'] = [add(sc, op='int1', pdf1='lognormal', params=ln, ext=True, theta=sc['ops'][k]['theta']),
                                 add(sc, op='int2', pdf2='biv_lognormal', params=ln + [rho], ext=True, theta=sc['ops'][k]['theta'])]
        with_lin(sc, op='mix', pdf1='gamma', pdf2='biv_ind_gamma', params=ga + [rho, p2d], ext=True)
        add(sc, op='mix', pdf1='gamma', pdf2='biv_ind_gamma', params=ga + [rho, p2d], ext=False, theta=thetas(rng))
        # point-mass mixtures: the gamma family stays finite under the snapshot's wrong vector, the lognormal one does not
        k = with_lin(sc, op='mixsym', pdf1='gamma', pdf2='biv_ind_gamma', params=ga + [rho, pp, g, p2d])
        th = sc['ops'][k]['theta']
        sc['ops'][k]['parts'] = [add(sc, op='pp1', pdf1='gamma', params=ga + [pp, g], npos=1, theta=th),
                                 add(sc, op='sympp2', pdf2='biv_ind_gamma', params=ga + [rho, pp, g], theta=th)]
        with_lin(sc, op='mixsym', pdf1='lognormal', pdf2='biv_lognormal', params=ln + [rho, pp, g, p2d])
        pq = dy(rng, 0.125, 0.5)
        k = with_lin(sc, op='mixpp', pdf1='lognormal', pdf2='biv_lognormal', params=ln + [rho, pp, g, pq, g, p2d])
        th = sc['ops'][k]['theta']
        sc['ops'][k]['parts'] = [add(sc, op='pp1', pdf1='lognormal', params=ln + [pp, g], npos=1, theta=th),
                                 add(sc, op='pp2', pdf2='biv_lognormal', params=ln + [rho, pp, g, pq, g], rho=rho, theta=th)]
        add(sc, op='mixsym', pdf1='gamma', pdf2='biv_ind_gamma', params=ga + [rho, pp, 9.0, p2d], theta=2.0)      # not cached
        # Vourlaki_mixture(alpha, beta, ppos_wild, gamma_pos, pchange, pchange_pos)
        vp = [add(sc, op='int1', pdf1='gamma', params=ga, ext=True, theta=1.0), add(sc, op='int2', pdf2='biv_ind_gamma', params=ga, ext=True, theta=1.0)]
        k = with_lin(sc, op='vourlaki', params=ga + [dy(rng, 0, 0.5), g, dy(rng, 0, 1), dy(rng, 0, 1)], vparts=vp)
        sc['ops'][sc['ops'][k]['lin_of']]['vparts'] = vp
        add(sc, op='vourlaki', params=ga + [0.25, 9.0, 0.5, 0.5], theta=2.0)                                        # not cached

    # ---- D: functions that combine a Cache1D and a Cache2D, the two caches built on DIFFERENT gamma ranges with different numbers of
    # grid points -- every relation of the two ranges on every run; a gamma DFE with substantial mass between the two ranges' bounds at each
    # end where they differ; every mixture weight strictly inside (0,1), and each of them at 0 and at 1 separately.  Each component must take
    # the tails of the grid its own trapezoid runs over (Model/DFE.v [tails_on], [vourlaki_q]).
    def p2(lo, hi):
        return 2.0 ** rng.randint(lo, hi)
    def rel_bounds(rel):
        wide = lambda: [1.0 / p2(5, 8), p2(5, 7)]
        narrow = lambda: [1.0 / p2(0, 2), p2(2, 3)]
        w, n = wide(), narrow()
        if rel == '1d-contains-2d':
            return w, n
        if rel == '2d-contains-1d':
            return n, w
        if rel == '1d-more-lethal-2d-more-neutral':
            return [n[0], w[1]], [w[0], n[1]]
        if rel == '2d-more-lethal-1d-more-neutral':
            return [w[0], n[1]], [n[0], w[1]]
        raise ValueError(rel)
    RELS = ['1d-contains-2d', '2d-contains-1d', '1d-more-lethal-2d-more-neutral', '2d-more-lethal-1d-more-neutral']
    off = rng.randrange(2)
    for rep in range(ctx.pick(1, 4)):
        for ri, rel in enumerate(RELS):
            kind = 'const' if (ri + off + rep) % 2 else 'cheap'
            g = rng.choice([2.0, 4.0])
            cc = cheap() if kind == 'cheap' else {'kind': 'const', 'c': [0.5, 0, 0, 0, 0.25]}
            b1, b2 = rel_bounds(rel)
            n1p = rng.randint(4, 8)
            sc = new(c1=cc, c2=dict(cc), ns=rng.choice([[2, 2], [2, 3]]), pts=rng.choice([[8, 10, 12], [6]]), gamma_bounds=b1, gamma_bounds2=b2,
                     gamma_pts=n1p, gamma_pts2=rng.choice([k for k in (2, 3, 4) if k != n1p]), additional_gammas=[g], family='mixb', relation=rel,
                     selfree=(kind == 'const'))
            # the gamma DFE: scale 3..6, shape about 1: 6-28% of the mass below 1/4..1 and 13-51% above 4..8, < 1% below 1/32 and above 32
            ga = [rng.choice([0.75, 1.0, 1.5]), rng.choice([3.0, 4.0, 6.0])]
            ln = [rng.choice([0.5, 1.0, 1.5]), rng.choice([1.0, 1.5, 2.0])]
            rho = rng.choice([-0.5, 0.25, 0.5, 0.75])
            inner = lambda: dy(rng, 0.125, 0.875)
            th = thetas(rng)
            # Vourlaki_mixture(alpha, beta, ppos_wild, gamma_pos, pchange, pchange_pos): components recomputed independently
            m5 = add(sc, op='int1', pdf1='gamma', params=ga, ext=True, theta=1.0)
            m6 = add(sc, op='int2', pdf2='biv_ind_gamma', params=ga, ext=True, theta=1.0)
            w3 = [inner(), inner(), inner()]
            k1 = add(sc, op='vourlaki', params=ga + [w3[0], g, w3[1], w3[2]], theta=1.0, vparts=[m5, m6], weights='interior')
            add(sc, op='vourlaki', params=ga + [w3[0], g, w3[1], w3[2]], theta=th, lin_of=k1, vparts=[m5, m6], weights='interior')
            for j in range(3):
                for v in (0.0, 1.0):
                    w = [inner(), inner(), inner()]; w[j] = v
                    add(sc, op='vourlaki', params=ga + [w[0], g, w[1], w[2]], theta=th, vparts=[m5, m6],
                        weights='%s=%d' % (('ppos_wild', 'pchange', 'pchange_pos')[j], int(v)))
            # mixture / mixture_symmetric_point_pos / mixture_point_pos: p2d inside (0,1), and at 0 and 1 (linearity of these: family mix)
            pa = [add(sc, op='int1', pdf1='gamma', params=ga, ext=True, theta=th),
                  add(sc, op='int2', pdf2='biv_ind_gamma', params=ga + [rho], ext=True, theta=th)]
            for p2d in [inner(), 0.0, 1.0]:
                add(sc, op='mix', pdf1='gamma', pdf2='biv_ind_gamma', params=ga + [rho, p2d], ext=True, theta=th, parts=pa)
            add(sc, op='mix', pdf1='lognormal', pdf2='biv_lognormal', params=ln + [rho, inner()], ext=True, theta=th,
                parts=[add(sc, op='int1', pdf1='lognormal', params=ln, ext=True, theta=th),
                       add(sc, op='int2', pdf2='biv_lognormal', params=ln + [rho], ext=True, theta=th)])
            pp, pq = inner() / 2, inner() / 2
            pa = [add(sc, op='pp1', pdf1='gamma', params=ga + [pp, g], npos=1, theta=th),
                  add(sc, op='sympp2', pdf2='biv_ind_gamma', params=ga + [rho, pp, g], theta=th)]
            pb = [add(sc, op='pp1', pdf1='lognormal', params=ln + [pp, g], npos=1, theta=th),
                  add(sc, op='pp2', pdf2='biv_lognormal', params=ln + [rho, pp, g, pq, g], rho=rho, theta=th)]
            for p2d in ([inner()] if ctx.quick else [inner(), 0.0, 1.0]):
                add(sc, op='mixsym', pdf1='gamma', pdf2='biv_ind_gamma', params=ga + [rho, pp, g, p2d], theta=th, parts=pa)
                add(sc, op='mixpp', pdf1='lognormal', pdf2='biv_lognormal', params=ln + [rho, pp, g, pq, g, p2d], theta=th, parts=pb)

    # ---- E: the same on fine grids with selection having no effect: result = theta * S * total weight, total weight = 1 up to the
    # quadrature error, for which there is an a-priori bound here (bound1_exp, bound2_exp): exponential-shaped gamma DFE (alpha = 1).
    # (quick tier: decided by the predicates on the implementation; the Coq recomputation of two-cache operations runs on family mixb)
    for rel, b1, n1f, b2, n2f in [('1d-contains-2d', [1e-4, 2000.0], 200, [0.5, 20.0], 40),
                                  ('2d-contains-1d', [0.5, 20.0], 60, [2.0 ** -7, 64.0], ctx.pick(40, 60))]:
        sc = new(c1={'kind': 'const', 'c': [0.5, 0, 0, 0, 0.25]}, c2={'kind': 'const', 'c': [0.5, 0, 0, 0, 0.25]}, ns=[2, 2], pts=[4],
                 gamma_bounds=b1, gamma_pts=n1f, gamma_bounds2=b2, gamma_pts2=n2f, additional_gammas=[2.0], family='mixb-fine', relation=rel,
                 selfree=True, total_one='apriori', no_coq=(ctx.quick or n2f > 40))
        ga = [1.0, 2.0]
        m5 = add(sc, op='int1', pdf1='gamma', params=ga, ext=True, theta=1.0)
        m6 = add(sc, op='int2', pdf2='biv_ind_gamma', params=ga, ext=True, theta=1.0)
        add(sc, op='vourlaki', params=ga + [0.5, 2.0, 0.75, 0.5], theta=2.0, vparts=[m5, m6], weights='interior')
        k = add(sc, op='mix', pdf1='gamma', pdf2='biv_ind_gamma', params=ga + [0.5, 0.5], ext=True, theta=2.0)
        sc['ops'][k]['parts'] = [add(sc, op='int1', pdf1='gamma', params=ga, ext=True, theta=2.0),
                                 add(sc, op='int2', pdf2='biv_ind_gamma', params=ga + [0.5], ext=True, theta=2.0)]
    return scs

# ------------------------------------------------------------------------------------------------------------
# helpers on recorded data

def trapz(ys, xs):
    return sum((xs[i + 1] - xs[i]) * (ys[i + 1] + ys[i]) / 2.0 for i in range(len(xs) - 1))

def allclose_T(T, atol, rtol):
    """numpy.allclose(T, T.T, atol, rtol) on a nested list"""
    n = len(T)
    return all(abs(T[i][j] - T[j][i]) <= atol + rtol * abs(T[j][i]) for i in range(n) for j in range(n))

def close(a, bb, scale, tol=FTOL):
    return abs(a - bb) <= tol * max(scale, 1e-300)

TESTX = [0.01, 1.0, 100.0]

class Tables:
    """oracle tables for the Coq side, parsed (fail closed) from the recorded pdf / quad calls of one operation"""
    def __init__(self):
        self.pdf1 = []; self.tl1 = []; self.pdf2 = []; self.test2 = []; self.tl2 = []
        self.pdf1_s2 = []        # 1-D pdf evaluated on s2's grid (Vourlaki)
        self.pairs1 = []         # 1-D tail pairs in call order: (params, a_neu, b_neu, wneu, a_del, b_del, wdel)
        self.quad1 = []          # reference quad table for Coq: (params, lo, hi or None, value) over the documented regions of each cache's grid
        self.ref1 = {}           # (func, tuple(params)) -> {'s1': {...}, 's2': {...}} (driver's independent reference)
        self.ref_tl2 = {}        # (func, tuple(params)) -> reference 2-D block (only present when the operation's own limits deviate)
        self.problems = []

def parse_records(rec, c1, c2):
    t = Tables()
    neg1 = [-x for x in c1['neg']] if c1 else None
    neg2 = [-x for x in c2['neg']] if c2 else None
    t.same_grid = neg1 is not None and neg1 == neg2
    for p in rec['pdf']:
        if 'yy' in p:
            if p['xx'] == neg2 and p['yy'] == neg2:
                t.pdf2.append((p['params'], p['out']))
            elif all(abs(a - bb) <= 1e-12 * bb for a, bb in zip(p['xx'], TESTX)) and len(p['xx']) == 3 and p['xx'] == p['yy']:
                t.test2.append((p['params'], p['out']))
            else:
                t.problems.append('bivariate pdf evaluated on an unexpected grid')
        else:
            if p['xx'] == neg1:
                t.pdf1.append((p['params'], p['out']))
            elif p['xx'] == neg2:
                t.pdf1_s2.append((p['params'], p['out']))
            else:
                t.problems.append('pdf evaluated on an unexpected grid')
    if 'ref_error' in rec:
        t.problems.append('reference tail integrals could not be computed: ' + rec['ref_error'])
    for ent in rec.get('ref1', []):
        t.ref1[(ent['func'], tuple(ent['params']))] = ent
        for tag in ('s1', 's2'):
            e = ent.get(tag)
            if e is None:
                continue
            if 'error' in e:
                t.problems.append('reference tail integral failed: ' + e['error']); continue
            for lim, val in ((e['neu_lim'], e['neu']), (e['del_lim'], e['del'])):
                row = (ent['params'], lim[0], None if lim[1] == float('inf') else lim[1], val)
                if row not in t.quad1:
                    t.quad1.append(row)
    for blk in rec.get('ref_tl2', []):
        t.ref_tl2[(blk['func'], tuple(blk['params']))] = blk
    qs = rec['quad']
    i = 0
    inf = float('inf')
    while i < len(qs):
        r = qs[i]
        if r['kind'] == 'quad' and not r['func'].startswith('biv_') and r['func'] != '<lambda>':
            if i + 1 >= len(qs) or qs[i + 1]['kind'] != 'quad' or qs[i + 1]['func'] != r['func']:
                t.problems.append('unpaired 1-D tail integral'); break
            r2 = qs[i + 1]
            t.pairs1.append({'params': r['args'].get('params'), 'neu': r, 'del': r2})
            i += 2
            continue
        if r['kind'] == 'quad' and r['func'].startswith('biv_'):
            # a 2-D block: per grid point 2 (symmetric) or 4 quads, then 2 or 3 dblquads
            n = len(neg2)
            blk = {'q1low': [], 'q1high': [], 'q2low': [], 'q2high': [], 'lims': [], 'params': r['args'].get('params'), 'func': r['func']}
            for ii in range(n):
                if i + 1 >= len(qs):
                    t.problems.append('2-D edge integrals end early'); break
                a, bq = qs[i], qs[i + 1]
                if not (a['kind'] == bq['kind'] == 'quad' and a['func'].startswith('biv_') and bq['func'].startswith('biv_')):
                    t.problems.append('2-D edge integrals out of order'); break
                blk['q1low'].append(a['val']); blk['q1high'].append(bq['val'])
                blk['lims'].append(('1low', ii, a['a'], a['b'], a['args'].get('gamma'))); blk['lims'].append(('1high', ii, bq['a'], bq['b'], bq['args'].get('gamma')))
                i += 2
                if i + 1 < len(qs) and qs[i]['func'] == '<lambda>' and qs[i + 1]['func'] == '<lambda>':
                    blk['q2low'].append(qs[i]['val']); blk['q2high'].append(qs[i + 1]['val'])
                    blk['lims'].append(('2low', ii, qs[i]['a'], qs[i]['b'], None)); blk['lims'].append(('2high', ii, qs[i + 1]['a'], qs[i + 1]['b'], None))
                    i += 2
            dbl = []
            while i < len(qs) and qs[i]['kind'] == 'dblquad':
                dbl.append(qs[i]); i += 1
            blk['dbl'] = dbl
            t.tl2.append(blk)
            continue
        t.problems.append('unexpected quad record %s/%s' % (r['kind'], r['func']))
        break
    return t

def check_limits(ctx, sc, op, t, c1, c2):
    """the regions handed to scipy are the documented ones (neutral tail, lethal tail, edges, corners)"""
    bad = list(t.problems)
    inf = float('inf')
    for k, pr in enumerate(t.pairs1):
        # Vourlaki's own pair (the second one) integrates over s2's range, every other pair over s1's
        own = 's2' if (op['op'] == 'vourlaki' and k >= 1) else 's1'
        neg = c2['neg'] if own == 's2' else c1['neg']
        if not (pr['neu']['a'] == 0.0 and pr['neu']['b'] == -neg[-1] and pr['del']['a'] == -neg[0] and pr['del']['b'] == inf):
            bad.append('1-D tails of the component integrated over %s\'s grid are taken over (%r,%r) and (%r,%r), expected (0,%r) and (%r,inf)' % (
                own, pr['neu']['a'], pr['neu']['b'], pr['del']['a'], pr['del']['b'], -neg[-1], -neg[0]))
        # ... and their values are the reference integrals over those regions (same scipy call, recomputed by the driver)
        ref = (t.ref1.get((pr['neu']['func'], tuple(pr['params'] or []))) or {}).get(own)
        if ref is None or 'error' in ref:
            bad.append('no reference tail integral for %s%r on %s' % (pr['neu']['func'], pr['params'], own))
        elif not (close(pr['neu']['val'], ref['neu'], 1.0, 1e-12) and close(pr['del']['val'], ref['del'], 1.0, 1e-12)):
            bad.append('1-D tail masses (%r, %r) differ from the integrals over the regions outside %s\'s grid (%r, %r)' % (
                pr['neu']['val'], pr['del']['val'], own, ref['neu'], ref['del']))
    for blk in t.tl2:
        neg = c2['neg']; mx, mn = -neg[-1], -neg[0]
        nb = len(bad)
        for kind, ii, a, bq, g in blk['lims']:
            want = (mn, inf) if kind.endswith('low') else (0.0, mx)
            if (a, bq) != want or (g is not None and g != -neg[ii]):
                bad.append('2-D edge %s[%d] integrates over (%r,%r) at gamma=%r' % (kind, ii, a, bq, g))
        want = [(0.0, mx, 0.0, mx), (0.0, mx, mn, inf), (mn, inf, 0.0, mx)]
        for d, w in zip(blk['dbl'], want):
            if (d['a'], d['b'], d['g'], d['h']) != w:
                bad.append('2-D corner integrates over %r, expected %r' % ((d['a'], d['b'], d['g'], d['h']), w))
        if len(blk['dbl']) not in (2, 3):
            bad.append('%d corner integrals' % len(blk['dbl']))
        if len(bad) > nb:
            blk['deviates'] = True          # the Coq side then gets the reference integrals over the documented regions
    return bad

# ------------------------------------------------------------------------------------------------------------
# Coq text

def qopt(x):
    return 'None' if x is None else '(Some %s)' % q(x)

def tails_text(blk, n, t=None):
    ref = t.ref_tl2.get((blk.get('func'), tuple(blk['params'] or []))) if (t is not None and blk.get('deviates')) else None
    if ref is not None:
        return '{| q1low := %s; q1high := %s; q2low := %s; q2high := %s; c_nn := %s; c_dn := %s; c_nd := %s |}' % (
            ql(ref['q1low']), ql(ref['q1high']), ql(ref['q2low']), ql(ref['q2high']), q(ref['dbl'][0]), q(ref['dbl'][1]), q(ref['dbl'][2]))
    dbl = [d['val'] for d in blk['dbl']] + [0.0, 0.0, 0.0]
    return '{| q1low := %s; q1high := %s; q2low := %s; q2high := %s; c_nn := %s; c_dn := %s; c_nd := %s |}' % (
        ql(blk['q1low']), ql(blk['q1high']), ql(blk['q2low']), ql(blk['q2high']), q(dbl[0]), q(dbl[1]), q(dbl[2]))

def tab_text(t):
    pdf1 = '; '.join('(%s, %s)' % (ql(p), ql(o)) for p, o in t.pdf1)
    qd1 = '; '.join('(%s, %s, %s, %s)' % (ql(p), q(lo), qopt(hi), q(v)) for p, lo, hi, v in t.quad1)
    pdf2 = '; '.join('(%s, %s)' % (ql(p), qll(o)) for p, o in t.pdf2)
    test2 = '; '.join('(%s, %s)' % (ql(p), qll(o)) for p, o in t.test2)
    tl2 = '; '.join('(%s, %s)' % (ql(blk['params']), tails_text(blk, 0, t)) for blk in t.tl2)
    return '{| t_pdf1 := [%s]; t_quad1 := [%s]; t_pdf2 := [%s]; t_test2 := [%s]; t_tl2 := [%s] |}' % (pdf1, qd1, pdf2, test2, tl2)

def rows_text(rows, elem):
    """a list literal; runs of identical consecutive elements are written with [repeat] (selection-free caches hold one spectrum many times)"""
    if len(rows) >= 4 and all(r == rows[0] for r in rows):
        return '(repeat %s %d)' % (elem(rows[0]), len(rows))
    return '[' + '; '.join(elem(r) for r in rows) + ']'

def k1_text(c1):
    if c1 is None:
        return '{| k1_xs := []; k1_gs := []; k1_sp := []; k1_neu := [] |}'
    return '{| k1_xs := %s; k1_gs := %s; k1_sp := %s; k1_neu := %s |}' % (ql(c1['neg']), ql(c1['gammas']), rows_text(c1['spectra'], ql), ql(c1['neu']))

def k2_text(c2):
    if c2 is None:
        return '{| k2_xs := []; k2_gs := []; k2_S := [] |}'
    return '{| k2_xs := %s; k2_gs := %s; k2_S := %s |}' % (ql(c2['neg']), ql(c2['gammas']), rows_text(c2['spectra'], lambda row: rows_text(row, ql)))

def op_texts(op, rec, t):
    """list of (variant tuple, Coq op text); variant = (rep1d, repsym, reppp) with None = irrelevant"""
    th = q(op['theta']); pr = ql(op['params']); k = op['op']
    if k == 'int1':
        return [((None, None, None), 'OInt1 %s %s %s' % (b(op.get('ext', True)), th, pr))]
    if k == 'pp1':
        demo = 'None'
        if op.get('demo'):
            demo = '(Some [%s])' % '; '.join('(%s, %s)' % (q(g), ql(v)) for g, v in rec['demo_table'])
        a = rec.get('after1') or {'gammas': [], 'spectra': []}
        return [((r, None, None), 'OPP1 %s %s %s %s %d%%nat %s %s %s' % (b(r), b(op.get('ext', True)), th, demo, op.get('npos', 1), pr,
                                                                          ql(a['gammas']), qll(a['spectra']))) for r in (False, True)]
    if k == 'int2':
        return [((None, None, None), 'OInt2 %s %s %s' % (b(op.get('ext', True)), th, pr))]
    if k == 'pp2':
        return [((None, None, None), 'OPP2 %s %s %s' % (th, qopt(op.get('rho', 0)), pr))]
    if k == 'sympp2':
        return [((None, None, None), 'OSymPP2 %s %s' % (th, pr))]
    if k == 'mix':
        return [((None, None, None), 'OMix %s %s %s' % (b(op.get('ext', True)), th, pr))]
    if k == 'mixsym':
        return [((r1, r, None), 'OMixSym %s %s %s %s' % (b(r1), b(r), th, pr)) for r1 in (False, True) for r in (False, True)]
    if k == 'mixpp':
        return [((r1, None, r), 'OMixPP %s %s %s %s' % (b(r1), b(r), th, pr)) for r1 in (False, True) for r in (False, True)]
    if k == 'vourlaki':
        # the pdf on s1's grid (m5), on s2's grid (m4, m7): recorded from the implementation's calls; when it evaluated the pdf elsewhere
        # (reported by check_limits) the driver's own evaluation on the documented grid stands in.  The tail masses are NOT taken from the
        # implementation's calls: the model looks up quad over the regions outside each cache's own grid (t_quad1).
        ref = t.ref1.get(('gamma', tuple(op['params'][:2]))) or {}
        w1 = t.pdf1[0][1] if t.pdf1 else (ref.get('s1') or {}).get('w')
        w2 = t.pdf1_s2[0][1] if t.pdf1_s2 else (t.pdf1[-1][1] if (len(t.pdf1) >= 2 and t.same_grid) else (ref.get('s2') or {}).get('w'))
        if not (len(t.tl2) == 1 and w1 is not None and w2 is not None and len(t.pdf2) == 1 and len(t.test2) == 1):
            return []
        return [((None, None, None), 'OVour %s %s %s %s %s %s %s' % (
            th, ql(w1), qll(t.pdf2[0][1]), qll(t.test2[0][1]), tails_text(t.tl2[0], 0, t), ql(w2), pr))]
    raise ValueError(k)

HEADER = ('From Coq Require Import ZArith QArith List.\nFrom Dadi Require Import Base.Num Base.NumQ Model.DFE Model.Sched Model.DFECheck.\n'
          'Import ListNotations.\nOpen Scope Q_scope.\n')

# ------------------------------------------------------------------------------------------------------------
def unmasked(rec, shape):
    if 'mask' in rec:
        return [i for i, m in enumerate(rec['mask']) if not m]
    n = 1
    for s in shape:
        n *= s
    return list(range(1, n - 1))

def scenarios(ctx):
    import time as _time
    _t0 = _time.time()
    scs = gen_scenarios(ctx)
    if ctx.replay:
        rp = json.load(open(ctx.replay))
        if rp.get('input') and 'scenario' in rp['input']:
            sc = rp['input']['scenario']; sc['id'] = 0
            scs = [sc]
    # the scenarios are independent: run them in up to 5 driver processes (heaviest first, round robin)
    from concurrent.futures import ThreadPoolExecutor
    cost = lambda sc: len(sc['ops']) * (8 if sc['family'].startswith('mix') else 3 if sc['family'].startswith('2d') else 1) + sc['gamma_pts'] / 50.0
    order = sorted(scs, key=cost, reverse=True)
    nproc = min(5, len(order))
    chunks = [order[i::nproc] for i in range(nproc)]
    with ThreadPoolExecutor(max_workers=nproc) as ex:
        parts = list(ex.map(lambda ch: run_impl({'mode': 'scen', 'scenarios': ch}, timeout=ctx.pick(600, 1800)), chunks))
    byid = {r['id']: r for part in parts for r in part}
    files = []
    meta = {}        # case id -> (sc, op, variant)
    cid = 0
    viol = {}        # key -> count (to limit replays)
    def violation(what, key, sc, op, extra=None):
        cls = key or what[:36]                  # at most two replays per known-finding key / per kind of message and function
        viol[cls] = viol.get(cls, 0) + 1
        if viol[cls] <= 2 and sum(1 for c, n in viol.items() if c not in KNOWN_KEYS for _ in range(min(n, 2))) <= 12:
            ops = [o for o in sc['ops'] if o['k'] == op['k'] or o['k'] in (op.get('lin_of'), op.get('hist_of'), op.get('after'))
                   or o['k'] in (op.get('parts') or []) or o['k'] in (op.get('vparts') or [])]
            ctx.violation(what, data={'scenario': dict(sc, ops=renumber(ops)), 'detail': extra}, key=key)
    for sc in scs:
        r = byid[sc['id']]
        ctx.count('family=' + sc['family'])
        if 'build_error' in r:
            ctx.obligation('scenario %d builds' % sc['id'], False, 'correspondence', r['build_error'])
            ctx.violation('cache construction failed: ' + r['build_error'], data={'scenario': sc}, key=None)
            continue
        c1_init, c2 = r.get('c1'), r.get('c2')
        c1 = c1_init
        shape = (c1 or c2)['shape']
        body = [HEADER]          # header + cache definitions (shared by every shard of this scenario)
        caselines = []           # (case id, definition)
        kdefs = 0
        body.append('Definition K1_0 := %s.' % k1_text(c1))
        body.append('Definition K2 := %s.' % k2_text(c2))
        cur = 'K1_0'
        ids = []
        results = {}
        for rec in r['ops']:
            op = rec['op']; k = op['k']
            results[k] = rec
            ctx.count('op=' + op['op'])
            for nm in ('pdf1', 'pdf2'):
                if op.get(nm):
                    ctx.count('pdf=' + op[nm])
            if op.get('fresh') and c1_init is not None and c1 is not c1_init:
                c1 = c1_init; cur = 'K1_0'
            if 'before1' in rec and rec['before1'] != c1:
                c1 = rec['before1']; kdefs += 1; cur = 'K1_%d' % kdefs
                body.append('Definition %s := %s.' % (cur, k1_text(c1)))
            t = parse_records(rec, c1, c2)
            for _, T in t.test2:
                if allclose_T(T, 0.0, 1e-12) != allclose_T(T, 1e-8, 1e-12):
                    ctx.count('symmetry probe decided by atol=0 (asymmetric pdf, density < 1e-8 at the probe points)')
            bad = check_limits(ctx, sc, op, t, c1, c2)
            ctx.obligation('sc %d op %d (%s): pdf evaluated on the cached grid, tails integrated over the documented regions' % (sc['id'], k, op['op']),
                           not bad, 'correspondence', '; '.join(bad[:3]))
            ents = unmasked(rec, shape)
            finite = rec.get('finite', True)
            sig = (sc['family'], op['op'], op.get('pdf1'), op.get('pdf2'), tuple(op['params']), op.get('theta'), op.get('ext', True), sc['gamma_pts'], tuple(sc['ns']))
            ctx.case(signature=sig, sample={'family': sc['family'], 'op': {kk: vv for kk, vv in op.items() if kk not in ('k',)},
                                            'impl': (rec.get('res') or [None])[:4] if 'error' not in rec else rec['error']})
            if 'error' not in rec and not finite:
                ctx.count('non-finite result')
                key = KEY_MIXSYM if op['op'] == 'mixsym' else None
                violation('%s returned non-finite entries (params=%r)' % (FN[op['op']], op['params']), key, sc, op, {'res': rec.get('res')})
            elif sc.get('no_coq'):
                ctx.count('predicates only (no Coq case)')
            else:
                sq = 0.0
                if op['op'] in ('pp2', 'mixpp'):
                    pl = op['params'][-4:] if op['op'] == 'pp2' else op['params'][-5:-1]
                    sq = math.sqrt(pl[0] * pl[2])
                elif op['op'] in ('sympp2', 'mixsym'):
                    sq = math.sqrt(op['params'][-2 if op['op'] == 'sympp2' else -3] ** 2)
                impl = 'None' if 'error' in rec else '(Some %s)' % ql([rec['res'][e] for e in ents])
                try:
                    tt = tab_text(t)
                    texts = op_texts(op, rec, t)
                except (ValueError, TypeError) as e:        # non-finite oracle values
                    texts = []
                    ctx.count('oracle values not finite')
                for variant, otext in texts:
                    caselines.append((cid, 'Definition case_%d := {| d_op := %s; d_tab := %s; d_sq := %s; d_k1 := %s; d_k2 := K2; d_ents := %s; d_impl := %s |}.' % (
                        cid, otext, tt, q(sq), cur, lib.natl(ents), impl)))
                    ids.append(cid); meta[cid] = (sc, op, variant, rec)
                    cid += 1
            if 'after1' in rec and rec['after1'] != c1:
                c1 = rec['after1']; kdefs += 1; cur = 'K1_%d' % kdefs
                body.append('Definition %s := %s.' % (cur, k1_text(c1)))
        SH = 10                  # cases per file: the files run 16-way in parallel
        for k0 in range(0, len(caselines), SH):
            chunk = caselines[k0:k0 + SH]
            text = body + [d for _, d in chunk]
            text.append('Definition results := map (fun p => (fst p, dcheck %s (snd p))) [%s].' % (q(TOL), '; '.join('(%d%%Z, case_%d)' % (i, i) for i, _ in chunk)))
            text.append('Eval vm_compute in results.')
            files.append(('C17_sc_%d_%d' % (sc['id'], k0 // SH), '\n'.join(text) + '\n'))
        predicates(ctx, sc, r, results, violation)
    import time as _time
    ctx.notes.append('drivers done after %.1fs' % (_time.time() - _t0))
    _t1 = _time.time()
    files.sort(key=lambda nt: -len(nt[1]))          # heaviest first (16 coqc processes at a time)
    out = lib.run_case_files(files, timeout=900)
    ctx.notes.append('coq case files: %d files, %.1fs wall; slowest: %s' % (len(files), _time.time() - _t1,
                     ', '.join('%s %.1fs' % (n, o[3]) for n, o in sorted(out.items(), key=lambda kv: -kv[1][3])[:5])))
    # a case file that did not compile (killed under memory pressure, timeout) is retried once, alone
    again = [(n, t) for n, t in files if out[n][0] != 0]
    for n, t in again[:6]:
        out.update(lib.run_case_files([(n, t)], timeout=1200, jobs=1))
    got = {}
    for n, (rc, so, se, secs) in out.items():
        if rc != 0:
            ctx.obligation('coqc %s' % n, False, 'correspondence', se[-600:])
            continue
        for i, ok, e in lib.parse_results(so):
            got[i] = (ok, e)
            if ok and e > -1000:   # agreeing cases only (the other model variant of a defective function disagrees by design; -1074 marks cases in which model and implementation both raise)
                ctx.err('quadrature', e, 'tol 1e-10 x max |entry| (= 2^-33.2)')
    ctx.checker_cmds.append('coqc -Q coq/theories Dadi build/cases/C17_sc_*.v  (%d cases, vm_compute)' % len(meta))
    # which model variant does the source implement?  (False = snapshot as written, True = repaired)
    # group the variants of one operation
    groups = {}
    for i, (sc, op, variant, rec) in meta.items():
        groups.setdefault((sc['id'], op['k']), []).append((variant, i))
    feasible = [(a, bb, c) for a in (False, True) for bb in (False, True) for c in (False, True)]
    def fits(assign, variant):
        return all(v is None or v == assign[s] for s, v in enumerate(variant))
    for gk, lst in groups.items():
        okv = [variant for variant, i in lst if got.get(i, (False, 0))[0]]
        feasible = [a for a in feasible if any(fits(a, v) for v in okv)] if okv else []
        if not okv:
            break
    if feasible:
        assign = feasible[0]
        names = ('Cache1D.integrate_point_pos', 'mixture_symmetric_point_pos', 'mixture_point_pos')
        for s, nm in enumerate(names):
            vals = {a[s] for a in feasible}
            if len(vals) == 1:
                ctx.notes.append('%s: source agrees with the %s model variant' % (nm, 'repaired' if assign[s] else 'snapshot (defective)'))
                ctx.count('variant %s=%s' % (nm, 'repaired' if assign[s] else 'snapshot'))
    ctx.obligation('one model variant (snapshot / repaired per function) reproduces every operation', bool(feasible), 'correspondence')
    if not ctx.replay:
        RELS = ['1d-contains-2d', '2d-contains-1d', '1d-more-lethal-2d-more-neutral', '2d-more-lethal-1d-more-neutral']
        WV = ['interior'] + ['%s=%d' % (nm, v) for nm in ('ppos_wild', 'pchange', 'pchange_pos') for v in (0, 1)]
        miss = [(rel, w) for rel in RELS for w in WV if not ctx.stats.get('vourlaki relation=%s weights=%s' % (rel, w))]
        ctx.obligation('generator covered Vourlaki_mixture on two caches with different gamma ranges and grid sizes: every relation of the two ranges '
                       '(1-D contains 2-D, 2-D contains 1-D, crossing both ways) x (all three mixture weights inside (0,1); each at 0 and at 1)',
                       not miss, 'correspondence', repr(miss[:4]))
        thin = [rel for rel in RELS if ctx.stats.get('vourlaki between-mass>=5%% relation=%s' % rel, 0) < 3]
        ctx.obligation('in every relation at least 3 Vourlaki_mixture evaluations have >= 5% of the gamma DFE\'s mass between the bounds of the two grids '
                       'and a non-zero weight on the mixed-sign components', not thin, 'correspondence', repr(thin))
        nf = ctx.stats.get('total weight checked against 1 (a-priori bound)', 0)
        ctx.obligation('two-cache total weight checked against 1 within the a-priori quadrature-error bound (%d evaluations, >= 4 required)' % nf,
                       nf >= 4, 'correspondence')
        nprobe = ctx.stats.get('symmetry probe decided by atol=0 (asymmetric pdf, density < 1e-8 at the probe points)', 0)
        ctx.obligation('generator covered the symmetric-shortcut decision where only atol=0 separates an asymmetric pdf from a symmetric one (%d integrations, >= 6 required)' % nprobe,
                       nprobe >= 6, 'correspondence')
    nbad = 0
    for gk, lst in sorted(groups.items()):
        sc, op, _, rec = meta[lst[0][1]]
        if feasible:
            sel = [i for variant, i in lst if fits(feasible[0], variant)]
            ok = all(got.get(i, (False, 0))[0] for i in sel)
        else:
            ok = any(got.get(i, (False, 0))[0] for variant, i in lst)
        ctx.obligation('corr sc %d op %d (%s)' % (sc['id'], op['k'], op['op']), ok, 'correspondence',
                       '' if ok else 'model != impl: %r' % [(v, got.get(i)) for v, i in lst])
        if not ok:
            nbad += 1
            if nbad <= 3:
                ctx.violation('%s disagrees with the quadrature model (pdf %s/%s, params %r, theta %r; %s)' % (
                    FN[op['op']], op.get('pdf1'), op.get('pdf2'), op['params'], op.get('theta'), cache_desc(sc)),
                    data={'scenario': dict(sc, ops=renumber([o for o in sc['ops'] if (o['k'] <= op['k'] and (o['k'] == op['k'] or o['op'] == 'pp1'))
                                                             or o['k'] in (op.get('vparts') or []) or o['k'] in (op.get('parts') or [])])),
                          'impl': rec.get('res') or rec.get('error'), 'coq': [(v, got.get(i)) for v, i in lst]}, key=None)

def renumber(ops):
    """a self-contained op list for a replay scenario: indices of companions remapped"""
    m = {o['k']: j for j, o in enumerate(ops)}
    out = []
    for o in ops:
        o2 = dict(o); o2['k'] = m[o['k']]
        for f in ('lin_of', 'hist_of', 'after'):
            if f in o2:
                if o2[f] in m:
                    o2[f] = m[o2[f]]
                else:
                    del o2[f]
        for f in ('parts', 'vparts'):
            if f in o2:
                if all(p in m for p in o2[f]):
                    o2[f] = [m[p] for p in o2[f]]
                else:
                    del o2[f]
        out.append(o2)
    return out

# ------------------------------------------------------------------------------------------------------------
# the property itself, evaluated on the implementation's outputs

def vals(rec):
    if 'error' in rec or not rec.get('finite', True):
        return None
    return [v for v, m in zip(rec['res'], rec['mask']) if not m]

def tw1_of(w, xs, neu, dele):
    """total_weight1d of Model/DFE.v"""
    return trapz(w, xs) + neu + dele

def tw2_of(W, xs, blk):
    """total_weight2d of Model/DFE.v (blk: recorded block {'q1low',..,'dbl': [records]} or reference block {'dbl': [floats]})"""
    n = len(xs)
    tw = trapz([trapz([W[i][j] for i in range(n)], xs) for j in range(n)], xs)
    symm = not blk['q2low']
    tw += trapz(blk['q1low'], xs) + trapz(blk['q1high'], xs)
    tw += trapz(blk['q1low'] if symm else blk['q2low'], xs) + trapz(blk['q1high'] if symm else blk['q2high'], xs)
    d = [x['val'] if isinstance(x, dict) else x for x in blk['dbl']]
    return tw + d[0] + d[1] + (d[1] if len(d) == 2 else d[2])

def block2(t, sym_expected=None):
    """the 2-D tail block of an operation with exactly one 2-D integration: the recorded one, or -- when its limits deviate from the
    documented regions -- the reference block over the documented regions (restricted to what a symmetric pdf uses)"""
    if len(t.tl2) != 1:
        return None
    blk = t.tl2[0]
    ref = t.ref_tl2.get((blk.get('func'), tuple(blk['params'] or []))) if blk.get('deviates') else None
    if ref is None:
        return blk
    if not blk['q2low']:            # the implementation took the symmetric shortcut
        return {'q1low': ref['q1low'], 'q1high': ref['q1high'], 'q2low': [], 'q2high': [], 'dbl': ref['dbl'][:2]}
    return ref

def trap_bound_exp(neg, beta):
    """a-priori bound on |trapezoid - integral| of f(x) = exp(-x/beta)/beta over the grid -neg: sum_i dx_i^3/12 * max_[x_i,x_i+1] |f''|,
    and f'' = f/beta^2 is positive and decreasing, so the maximum sits at the left end of every interval (rigorous for this f)"""
    xs = sorted(-x for x in neg)
    return sum((bb - a) ** 3 / 12.0 * math.exp(-a / beta) / beta ** 3 for a, bb in zip(xs, xs[1:]))

QUAD_EPS1 = 2 * 1.5e-8          # two default-tolerance quad calls (epsabs = 1.49e-8)

def bound1_exp(neg, beta):
    """|total_weight1d - 1| for gamma(alpha = 1, beta): trapezoid error + the two tail integrals' quad tolerance (the pdf integrates to 1)"""
    return trap_bound_exp(neg, beta) + QUAD_EPS1

def bound2_exp(neg, beta, blk, dele):
    """|total_weight2d - 1| for biv_ind_gamma with alpha = 1 and a shared beta (a product density): by C17_regions_tile_the_quadrant the
    rule's total weight with exact tails is (T + neu + del)^2 - del^2, and |T + neu + del - 1| <= e1; the edge / corner integrals are
    requested with epsabs=1e-4, epsrel=1e-3: every edge value is within max(1e-4, 1e-3 |v|), trapz over the grid multiplies that by at
    most the grid's length; four edge families, three corners"""
    e1 = trap_bound_exp(neg, beta)
    L = abs(neg[0] - neg[-1])
    err = lambda v: max(1e-4, 1e-3 * abs(v))
    edges = sum(L * max(err(v) for v in blk[k]) for k in ('q1low', 'q1high')) * 2
    d = [x['val'] if isinstance(x, dict) else x for x in blk['dbl']]
    corners = err(d[0]) + 2 * max(err(x) for x in d[1:])
    return 2 * e1 + e1 ** 2 + dele ** 2 + edges + corners

def vourlaki_components(op, rec, results, c2, t):
    """theta * (stated weighted sum), every component recomputed independently of Vourlaki_mixture: m5 / m6 = Cache1D.integrate /
    Cache2D.integrate of the real code (theta = 1, own operations of the scenario); m2 = m3 = the cached spectrum at (gamma_pos, gamma_pos);
    m4 / m7 = trapezoid over s2's grid of the gamma pdf times the cached (pos, neg) / (neg, pos) spectra plus the most lethal / most neutral
    of those spectra times the pdf mass beyond / below s2's grid (the driver's own pdf evaluation and quad calls on s2's grid)"""
    al, be, pw, gp, pc, pcp = op['params']
    m5r, m6r = results.get(op['vparts'][0]), results.get(op['vparts'][1])
    ref = (t.ref1.get(('gamma', (al, be))) or {}).get('s2')
    if m5r is None or m6r is None or 'error' in m5r or 'error' in m6r or ref is None or 'error' in ref:
        return None
    idx = [i for i, g in enumerate(c2['gammas']) if g == gp]
    if len(idx) != 1:
        return None
    i = idx[0]; n = len(c2['neg']); xs = c2['neg']; w = ref['w']; S = c2['spectra']
    out = []
    for e in [k for k, m in enumerate(rec['mask']) if not m]:
        if m5r['res'][e] is None or m6r['res'][e] is None:
            return None
        pos_neg = [S[i][j][e] for j in range(n)]
        neg_pos = [S[j][i][e] for j in range(n)]
        m4 = trapz([w[j] * pos_neg[j] for j in range(n)], xs) + pos_neg[0] * ref['del'] + pos_neg[-1] * ref['neu']
        m7 = trapz([w[j] * neg_pos[j] for j in range(n)], xs) + neg_pos[0] * ref['del'] + neg_pos[-1] * ref['neu']
        m2 = S[i][i][e]
        fs = (m5r['res'][e] * (1 - pw) * (1 - pc) + m6r['res'][e] * (1 - pw) * pc * (1 - pcp) + m7 * (1 - pw) * pc * pcp
              + m2 * pw * (1 - pc) + m2 * pw * pc * pcp + m4 * pw * pc * (1 - pcp))
        out.append(op['theta'] * fs)
    return out

def cache_desc(sc):
    return 'Cache1D gamma_bounds=%r gamma_pts=%r, Cache2D gamma_bounds=%r gamma_pts=%r' % (
        sc['gamma_bounds'], sc['gamma_pts'], sc.get('gamma_bounds2', sc['gamma_bounds']), sc.get('gamma_pts2', sc['gamma_pts']))

def predicates(ctx, sc, r, results, violation):
    c1, c2 = r.get('c1'), r.get('c2')
    for k, rec in results.items():
        op = rec['op']
        v = vals(rec)
        # (a) linear in theta
        if 'lin_of' in op and v is not None:
            base = vals(results[op['lin_of']])
            if base is not None:
                th = op['theta']
                scale = max(abs(x) for x in v + [th * x for x in base])
                if not all(close(a, th * bb, scale) for a, bb in zip(v, base)):
                    key = {'pp1': KEY_THETA, 'mixsym': KEY_THETA, 'mixpp': KEY_THETA}.get(op['op'])
                    violation('%s is not linear in theta: f(theta=%r) = %r but %r * f(theta=1) = %r (params=%r)' % (
                        FN[op['op']], th, v[0], th, th * base[0], op['params']), key, sc, op, {'f_theta': v, 'f_1': base})
                else:
                    ctx.count('linear ok')
        # (b) the result does not depend on earlier calls
        if 'hist_of' in op and v is not None:
            other = vals(results[op['hist_of']])
            if other is not None:
                scale = max(abs(x) for x in v + other)
                if not all(close(a, bb, scale) for a, bb in zip(v, other)):
                    violation('integrate_point_pos depends on the call history: after a call with theta=1 the same call (theta=%r, gammapos=%r) gives %r, '
                              'on a fresh cache %r' % (op['theta'], op['params'][-1], other[0], v[0]), KEY_HIST, sc, op, {'fresh': v, 'after_history': other})
                else:
                    ctx.count('history ok')
        # (c) mixtures are the stated weighted sums of their components
        if 'parts' in op:
            pa, pb = vals(results[op['parts'][0]]), vals(results[op['parts'][1]])
            p2d = op['params'][-1]
            if 'error' in rec and pa is not None and pb is not None:
                key = KEY_MIXPP if op['op'] == 'mixpp' else KEY_MIXSYM if op['op'] == 'mixsym' else None
                violation('%s raised %s although both components evaluate (params=%r)' % (FN[op['op']], rec['error'], op['params']), key, sc, op,
                          {'error': rec['error']})
            elif v is not None and pa is not None and pb is not None:
                want = [(1 - p2d) * a + p2d * bb for a, bb in zip(pa, pb)]
                scale = max(abs(x) for x in v + want)
                if not all(close(a, w, scale) for a, w in zip(v, want)):
                    key = KEY_MIXSYM if op['op'] == 'mixsym' else None
                    violation('%s is not (1-p2d)*fs1 + p2d*fs2 of its documented components: got %r, components give %r (params=%r)' % (
                        FN[op['op']], v[0], want[0], op['params']), key, sc, op, {'got': v, 'want': want})
                else:
                    ctx.count('mixture weights ok')
        # (d) selection has no effect: theta * S * total weight
        if sc.get('selfree') and v is not None and op['op'] in ('int1', 'int2'):
            cc = c1 if op['op'] == 'int1' else c2
            t = parse_records(rec, c1, c2); check_limits(ctx, sc, op, t, c1, c2)
            S = cc['spectra'][0] if op['op'] == 'int1' else cc['spectra'][0][0]
            ents = [i for i, m in enumerate(rec['mask']) if not m]
            tw = None
            xs = cc['neg']
            if op['op'] == 'int1' and len(t.pdf1) == 1:
                tw = trapz(t.pdf1[0][1], xs)
                if op.get('ext', True) and len(t.pairs1) == 1:
                    tw += t.pairs1[0]['neu']['val'] + t.pairs1[0]['del']['val']
            elif op['op'] == 'int2' and len(t.pdf2) == 1:
                W = t.pdf2[0][1]; n = len(xs)
                tw = trapz([trapz([W[i][j] for i in range(n)], xs) for j in range(n)], xs)
                if op.get('ext', True) and len(t.tl2) == 1:
                    blk = block2(t)          # the recorded edge / corner integrals, or the ones over the documented regions when the limits deviate
                    symm = not blk['q2low']
                    tw += trapz(blk['q1low'], xs) + trapz(blk['q1high'], xs)
                    tw += trapz(blk['q1low'] if symm else blk['q2low'], xs) + trapz(blk['q1high'] if symm else blk['q2high'], xs)
                    d = [x['val'] if isinstance(x, dict) else x for x in blk['dbl']]
                    tw += d[0] + d[1] + (d[1] if len(d) == 2 else d[2])
            if tw is not None:
                want = [op['theta'] * S[e] * tw for e in ents]
                scale = max(abs(x) for x in v + want)
                if not all(close(a, w, scale) for a, w in zip(v, want)):
                    violation('selection-free cache: %s = %r but theta*S*(total quadrature weight %r) = %r (pdf %s, params=%r; %s)' % (
                        FN[op['op']], v[0], tw, want[0], op.get('pdf1') or op.get('pdf2'), op['params'], cache_desc(sc)), None, sc, op, {'got': v, 'want': want})
                else:
                    ctx.count('selection-free ok')
                tol1 = sc.get('total_one')
                if tol1 == 'apriori':       # gamma(alpha = 1, beta) / biv_ind_gamma with the same marginals: a-priori bound
                    tol1 = None
                    if op['op'] == 'int1' and op.get('pdf1') == 'gamma' and op['params'][0] == 1.0:
                        tol1 = bound1_exp(xs, op['params'][1])
                    elif op['op'] == 'int2' and op.get('pdf2') == 'biv_ind_gamma' and op['params'][0] == 1.0 and len(op['params']) in (2, 3) and len(t.tl2) == 1:
                        refd = ((t.ref1.get(('gamma', tuple(op['params'][:2]))) or {}).get('s2') or {}).get('del')
                        dele = refd if refd is not None else math.exp(-(-xs[0]) / op['params'][1])
                        tol1 = bound2_exp(xs, op['params'][1], t.tl2[0], dele)
                if tol1 and op.get('ext', True):
                    ctx.count('total weight checked against 1')
                    ctx.notes.append('total quadrature weight %s%r, %d grid points on (%.6g, %.6g): %.6f (tolerance %.3g)' % (
                        op.get('pdf1') or op.get('pdf2'), op['params'], len(xs), -xs[-1], -xs[0], tw, tol1))
                    if abs(tw - 1.0) > tol1:
                        violation('total quadrature weight of %s%r on a fine grid is %r, not 1 +- %.3g' % (
                            op.get('pdf1') or op.get('pdf2'), op['params'], tw, tol1), None, sc, op, {'total_weight': tw})
        # (e) Vourlaki_mixture = theta * the stated weighted sum of its components, each with the tails of the grid it is integrated over
        if op['op'] == 'vourlaki' and 'vparts' in op and v is not None:
            t = parse_records(rec, c1, c2); check_limits(ctx, sc, op, t, c1, c2)
            want = vourlaki_components(op, rec, results, c2, t)
            if want is None:
                ctx.count('vourlaki components not available')
            else:
                scale = max(abs(x) for x in v + want)
                al, be, pw, gp, pc, pcp = op['params']
                ref = t.ref1.get(('gamma', (al, be))) or {}
                if 's1' in ref and 's2' in ref and 'error' not in ref['s1'] and 'error' not in ref['s2']:
                    between = abs(ref['s1']['neu'] - ref['s2']['neu']) + abs(ref['s1']['del'] - ref['s2']['del'])
                    mixed = (1 - pw) * pc * pcp + pw * pc * (1 - pcp)
                    if sc['family'].startswith('mixb'):
                        ctx.count('vourlaki relation=%s weights=%s' % (sc.get('relation'), op.get('weights')))
                        if between >= 0.05 and mixed > 0:
                            ctx.count('vourlaki between-mass>=5%% relation=%s' % sc.get('relation'))
                if not all(close(a, w, scale) for a, w in zip(v, want)):
                    violation('%s is not theta * the stated weighted sum of its components, each integrated over its own cache\'s grid with that grid\'s '
                              'neutral / lethal tail masses: got %r, components give %r (params=%r, theta=%r; %s)' % (
                                  FN['vourlaki'], v[0], want[0], op['params'], op['theta'], cache_desc(sc)), None, sc, op, {'got': v, 'want': want})
                else:
                    ctx.count('vourlaki components ok')
        # (e') selection has no effect, two caches: theta * S * total weight (C17_selection_free_mixture, C17_selection_free_vourlaki_own_grid_tails)
        if sc.get('selfree') and v is not None and op['op'] in ('mix', 'vourlaki') and c1 and c2 and op.get('ext', True):
            t = parse_records(rec, c1, c2); check_limits(ctx, sc, op, t, c1, c2)
            S = c1['spectra'][0]
            ents = [i for i, m in enumerate(rec['mask']) if not m]
            blk = block2(t)
            tw = bound = None
            if S == c2['spectra'][0][0] and S == c1['neu'] and blk is not None and len(t.pdf2) == 1:
                tw2 = tw2_of(t.pdf2[0][1], c2['neg'], blk)
                if op['op'] == 'mix':
                    ref = t.ref1.get((op['pdf1'], tuple(op['params'][:-2]))) or {}
                    p2d = op['params'][-1]
                    if 's1' in ref and 'error' not in ref['s1']:
                        tw = (1 - p2d) * tw1_of(ref['s1']['w'], c1['neg'], ref['s1']['neu'], ref['s1']['del']) + p2d * tw2
                        if sc.get('total_one') == 'apriori':
                            be = op['params'][1]
                            bound = (1 - p2d) * bound1_exp(c1['neg'], be) + p2d * bound2_exp(c2['neg'], be, blk, (ref.get('s2') or {}).get('del', 0.0))
                else:
                    al, be, pw, gp, pc, pcp = op['params']
                    ref = t.ref1.get(('gamma', (al, be))) or {}
                    if all(k in ref and 'error' not in ref[k] for k in ('s1', 's2')):
                        wts = [(1 - pw) * (1 - pc), (1 - pw) * pc * (1 - pcp), (1 - pw) * pc * pcp + pw * pc * (1 - pcp), pw * (1 - pc) + pw * pc * pcp]
                        tw = (tw1_of(ref['s1']['w'], c1['neg'], ref['s1']['neu'], ref['s1']['del']) * wts[0] + tw2 * wts[1]
                              + tw1_of(ref['s2']['w'], c2['neg'], ref['s2']['neu'], ref['s2']['del']) * wts[2] + wts[3])
                        if sc.get('total_one') == 'apriori':
                            bound = (wts[0] * bound1_exp(c1['neg'], be) + wts[1] * bound2_exp(c2['neg'], be, blk, ref['s2']['del'])
                                     + wts[2] * bound1_exp(c2['neg'], be))
            if tw is not None:
                want = [op['theta'] * S[e] * tw for e in ents]
                scale = max(abs(x) for x in v + want)
                if not all(close(a, w, scale) for a, w in zip(v, want)):
                    violation('selection-free caches: %s = %r but theta*S*(stated weighted sum of the components\' total quadrature weights, each on its '
                              'own grid: %r) = %r (params=%r; %s)' % (FN[op['op']], v[0], tw, want[0], op['params'], cache_desc(sc)),
                              None, sc, op, {'got': v, 'want': want})
                else:
                    ctx.count('selection-free two-cache ok')
            else:
                ctx.count('selection-free two-cache: total weight not computable')
            if bound is not None:
                # the statement itself, on the implementation's output alone: result / (theta * S) is one up to the quadrature error
                tws = [v[k] / (op['theta'] * S[e]) for k, e in enumerate(ents)]
                dev = max(abs(x - 1.0) for x in tws)
                ctx.count('total weight checked against 1 (a-priori bound)')
                ctx.notes.append('total weight of %s%r with selection-free caches (%s): %.6f, a-priori quadrature-error bound %.3g' % (
                    FN[op['op']], op['params'], cache_desc(sc), tws[0], bound))
                if not dev <= bound:
                    violation('selection has no effect, yet %s returns theta * S * %r: the total weight differs from 1 by %.3g, more than the quadrature-error '
                              'bound %.3g (params=%r; %s)' % (FN[op['op']], tws[0], dev, bound, op['params'], cache_desc(sc)),
                              None, sc, op, {'total_weight': tws[0], 'bound': bound})
        # (f) type and labels
        if v is not None and op['op'] in ('int1', 'int2', 'mix') and not rec.get('is_spectrum'):
            violation('%s did not return a Spectrum' % FN[op['op']], None, sc, op)

# ------------------------------------------------------------------------------------------------------------
# pdf numerics

def pdf_numeric(ctx):
    rng = ctx.rng
    cases = []
    for i in range(ctx.pick(12, 80)):
        name = rng.choice(['biv_lognormal', 'biv_ind_gamma'])
        pr = pdf2_params(rng, name)
        if name == 'biv_lognormal':
            pr[-1] = rng.choice([-0.96875, -0.5, 0.0, 0.25, 0.75, 0.96875])
        n, m = rng.randint(1, 5), rng.randint(1, 5)
        xx = sorted(2.0 ** rng.uniform(-8, 8) for _ in range(n))
        yy = sorted(2.0 ** rng.uniform(-8, 8) for _ in range(m))
        cases.append({'id': i, 'pdf': name, 'params': pr, 'xx': xx, 'yy': yy})
    zs = [0.0625, 0.25, 0.4375, 0.5, 0.75, 1.0, 1.5, 2.0, 2.5, 3.0, 4.5, 7.0, 10.0, 15.5, 20.0, 30.0] + [2.0 ** rng.uniform(-4, 5) for _ in range(ctx.pick(10, 100))]
    out = run_impl({'mode': 'pdf', 'cases': cases, 'gamma': zs}, timeout=300)
    worst = 0.0
    for c, r in zip(cases, out['cases']):
        ctx.count('pdfcmp=' + c['pdf'])
        if 'error' in r:
            ctx.obligation('compiled %s evaluates' % c['pdf'], False, 'correspondence', r['error'])
            ctx.violation('compiled pdf raised: ' + r['error'], data={'pdf_case': c}, key=None)
            continue
        cf = [v for row in (r['c'] if isinstance(r['c'], list) and r['c'] and isinstance(r['c'][0], list) else [r['c'] if isinstance(r['c'], list) else [r['c']]]) for v in row]
        pf = [v for row in (r['py'] if isinstance(r['py'], list) and r['py'] and isinstance(r['py'][0], list) else [r['py'] if isinstance(r['py'], list) else [r['py']]]) for v in row]
        ok = len(cf) == len(pf) == len(c['xx']) * len(c['yy'])
        rel = 0.0
        if ok:
            for a, bb in zip(cf, pf):
                if a == bb:
                    continue
                d = abs(a - bb) / max(abs(a), abs(bb), 1e-300)
                rel = max(rel, d)
            ok = rel <= 1e-11
        worst = max(worst, rel)
        ctx.case(signature=('pdf', c['pdf'], tuple(c['params']), tuple(c['xx']), tuple(c['yy'])))
        ctx.obligation('pdf case %d: compiled %s = Python reference (rel %.1e)' % (c['id'], c['pdf'], rel), ok, 'correspondence')
        if not ok:
            ctx.violation('compiled %s differs from the Python reference formula by %.3g (params %r)' % (c['pdf'], rel, c['params']),
                          data={'pdf_case': c, 'c': cf, 'py': pf}, key=None)
    ctx.notes.append('largest relative difference compiled vs Python pdf: %.2e (tolerance 1e-11)' % worst)
    if not out.get('have_lib'):
        ctx.obligation('libdadi_pdfs.so available for the Lanczos gamma comparison', False, 'correspondence')
        return
    gw = 0.0
    for z, cg, sg in out['gamma']:
        gw = max(gw, abs(cg - sg) / abs(sg))
    ok = gw <= 1e-12
    ctx.obligation('Lanczos gamma_func of PDFs.c = scipy.special.gamma on %d points in (0.06, 32) (rel %.1e, tol 1e-12)' % (len(out['gamma']), gw), ok, 'correspondence')
    if not ok:
        z, cg, sg = max(out['gamma'], key=lambda t: abs(t[1] - t[2]) / abs(t[2]))
        ctx.violation('gamma_func(%r) = %r but Gamma = %r' % (z, cg, sg), data={'z': z, 'c': cg, 'scipy': sg}, key=None)

# ------------------------------------------------------------------------------------------------------------
# multiprocessing, split jobs, merge

def mp_part(ctx, replay_req=None):
    rng = ctx.rng
    workers = ctx.pick([1, 2, 3], list(range(1, 17)))
    splits_s = ctx.pick([1, 2, 3], [1, 2, 3, 4, 5, 6])
    if ctx.quick:          # split_jobs 1..3, each with one worker count from {1,2,3} (split 3 with both 1 and 2)
        splits = [(k, s) for s in splits_s for k in ([1, 2] if s == 3 else [rng.choice([1, 2, 3])])]
    else:                  # the full grid: worker counts 1..16 x split_jobs 1..6
        splits = [(k, s) for s in splits_s for k in range(1, 17)]
    base = {'gamma_bounds': [0.0625, 16.0], 'gamma_pts': 5, 'gamma_pts2': 3, 'additional_gammas': [2.0], 'ns1': [3], 'ns2': [2, 2], 'pts': [6, 8, 10],
            'demog': {'kind': 'cheap', 'c': [0.25, 0.125, 0.5, 1.0, 0.0625]}}
    n2 = base['gamma_pts2'] + 1            # gammas per axis
    merges = []
    for s in [1, 2, 3, 4]:
        ids = list(range(s))
        # every subset of missing jobs x every subset of duplicated (present) jobs
        for miss in itertools.chain.from_iterable(itertools.combinations(ids, r) for r in range(0, s)):
            present = [i for i in ids if i not in miss]
            for dup in itertools.chain.from_iterable(itertools.combinations(present, r) for r in range(0, len(present) + 1)):
                lst = present + list(dup)
                rng.shuffle(lst)
                merges.append([s, lst, None])
        # a duplicate that disagrees in one entry it owns
        for i in ids:
            own = [e for e in range(n2 * n2) if e % s == i]
            e = rng.choice(own)
            lst = ids + [i]
            merges.append([s, lst, [len(lst) - 1, [e // n2, e % n2]]])
    raising = []
    for j in range(base['gamma_pts'] + 1):
        for k in ([1, 2] if ctx.quick else [1, 2, 3, 4]):
            raising.append([1, k, j])
    for e in range(n2 * n2):
        for k in ([2] if ctx.quick else [1, 2, 3]):
            raising.append([2, k, e])
    req = {'mode': 'mp', 'base': base, 'workers': workers, 'splits': splits, 'merges': merges, 'raising': raising, 'time_limit': 60}
    if replay_req:
        req = replay_req
        workers = req.get('workers', [])
    try:
        out = run_impl(req, timeout=ctx.pick(400, 1500))
    except subprocess.TimeoutExpired:
        ctx.obligation('multiprocessing cache generation finished in time', False, 'correspondence')
        ctx.violation('cache generation with multiprocessing did not finish (hung pool)', data={'request': req}, key=None)
        return
    ref1, ref2 = out['ref1'], out['ref2']
    # the single-process cache is map f gammas
    ok = ref1['labels'] == out['direct1'] and ref2['labels'] == out['direct2']
    ctx.obligation('single-process caches hold f(gamma) at every index (1-D and 2-D)', ok, 'predicate')
    if not ok:
        ctx.violation('single-process cache differs from direct evaluation of the demographic function', data={'request': dict(req, workers=[], splits=[], merges=[], raising=[])}, key=None)
    for rec in out['builds1']:
        ctx.count('mp workers=%d' % rec['cpus'])
        ctx.case(signature=('mp1', rec['cpus']))
        ok = 'error' not in rec and rec['labels'] == ref1['labels']
        ctx.obligation('Cache1D with %d workers = single-process cache' % rec['cpus'], ok, 'predicate', rec.get('error', ''))
        if not ok:
            ctx.violation('Cache1D built with cpus=%d differs from the single-process cache (%s)' % (rec['cpus'], rec.get('error', 'different spectra')),
                          data={'request': dict(req, workers=[rec['cpus']], splits=[], merges=[], raising=[])}, key=None)
    # split caches: each holds exactly its jobs; merge of all = reference
    flat_ref = [x for row in ref2['labels'] for x in row]
    for rec in out['builds2']:
        if rec.get('merge_all'):
            ok = 'error' not in rec and rec['labels'] == ref2['labels'] and rec.get('is_array')
            ctx.obligation('merge of split_jobs=%d (cpus=%d) = single-process cache' % (rec['split'], rec['cpus']), ok, 'predicate', rec.get('error', ''))
        else:
            ctx.count('split=%d' % rec['split'])
            ctx.case(signature=('mp2', rec['cpus'], rec['split'], rec['id']))
            ok = 'error' not in rec
            if ok:
                flat = [x for row in rec['labels'] for x in row]
                want = [flat_ref[e] if e % rec['split'] == rec['id'] else None for e in range(len(flat_ref))]
                ok = flat == want
            ctx.obligation('Cache2D split_jobs=%d id=%d cpus=%d holds exactly its jobs' % (rec['split'], rec['id'], rec['cpus']), ok, 'predicate', rec.get('error', ''))
        if not ok:
            ctx.violation('Cache2D(split_jobs=%d, this_job_id=%s, cpus=%d) does not hold the spectra of its jobs (%s)' % (
                rec['split'], rec.get('id', 'merged'), rec['cpus'], rec.get('error', 'different spectra')),
                data={'request': dict(req, workers=[], splits=[[rec['cpus'], rec['split']]], merges=[], raising=[])}, key=None)
    # merges: expected outcome from the property (complete iff every id present; conflict detected), and the Coq model on labels
    labmap = {}
    def lz(x):
        if x is None:
            return 'None'
        return '(Some (%d)%%Z)' % labmap.setdefault(x, len(labmap) + 1)
    mexprs = []
    for j, rec in enumerate(out['merges']):
        s, ids, conflict = rec['split'], rec['ids'], rec['conflict']
        ctx.count('merge split=%d' % s)
        ctx.case(signature=('merge', s, tuple(ids), str(conflict)))
        complete = set(ids) == set(range(s))
        if conflict is not None:
            want = 'conflict'
        else:
            want = 'ok' if complete else 'incomplete'
        err = rec.get('error', '')
        got_kind = 'ok' if 'labels' in rec else ('conflict' if 'onflict' in err and err.startswith('ValueError') else 'incomplete' if 'ncomplete' in err and err.startswith('ValueError') else 'other:' + err)
        ok = got_kind == want and (want != 'ok' or (rec['labels'] == ref2['labels'] and rec.get('inputs_after') == rec['inputs']))
        ctx.obligation('merge split=%d ids=%r conflict=%r -> %s' % (s, ids, conflict, want), ok, 'predicate', got_kind)
        if not ok:
            ctx.violation('Cache2D.merge of split_jobs=%d caches %r%s: expected %s, got %s' % (s, ids, ' with a conflicting entry' if conflict else '', want, got_kind),
                          data={'request': dict(req, workers=[], splits=[], merges=[[s, ids, conflict]], raising=[])}, key=None)
        code = {'ok': 0, 'conflict': 1, 'incomplete': 2}.get(got_kind, 9)
        caches = '[' + '; '.join('[' + '; '.join(lz(x) for row in c for x in row) + ']' for c in rec['inputs']) + ']'
        outl = '[' + '; '.join('(%d)%%Z' % labmap.setdefault(x, len(labmap) + 1) for row in rec.get('labels', []) for x in row) + ']'
        mexprs.append((j, '{| m_caches := %s; m_code := (%d)%%Z; m_out := %s |}' % (caches, code, outl)))
    hdr = HEADER.replace('Open Scope Q_scope.', 'Open Scope Z_scope.')
    mres = ctx.coq_cases('merge', hdr, mexprs, 'mcheck', 'exact', shard=100, kind='merge')
    okm = all(mres.get(j, (False, 0))[0] for j, _ in mexprs)
    ctx.obligation('Coq merge model reproduces the outcome of Cache2D.merge on all %d cache lists' % len(mexprs), okm, 'correspondence',
                   '' if okm else repr([j for j, _ in mexprs if not mres.get(j, (False, 0))[0]][:10]))
    # observation (not part of the verdict): split jobs built on DIFFERENT gamma grids, merged
    xg = out.get('cross_grid_merge')
    if xg:
        ctx.count('merge of split jobs built on different gamma grids: ' + xg['outcome'])
        ctx.notes.append('observation: Cache2D.merge of split_jobs=2 caches built with gamma_bounds %r and %r: %s' % (xg['bounds'][0], xg['bounds'][1], xg['detail']))
    # raising workers
    for rec in out['raising']:
        ctx.count('raising dim=%d' % rec['dim'])
        ctx.case(signature=('raise', rec['dim'], rec['cpus'], rec['index']))
        ok = rec.get('surfaced', False)
        ctx.obligation('worker raising at %d-D job %d with cpus=%d surfaces an error' % (rec['dim'], rec['index'], rec['cpus']), ok, 'predicate',
                       rec.get('error') or rec.get('note', ''))
        if not ok:
            ctx.violation('a demographic function raising at job %d (Cache%dD, cpus=%d) is absorbed: %s' % (rec['index'], rec['dim'], rec['cpus'], rec.get('note')),
                          data={'request': dict(req, workers=[], splits=[], merges=[], raising=[[rec['dim'], rec['cpus'], rec['index']]])}, key=None)
    # the Coq scheduler on random interleavings, against the implementation's caches (labels)
    sexprs = []
    gl = list(range(len(ref1['labels'])))
    def sched(njobs, k, fail_free=True):
        # a random complete interleaving: every worker id repeated often enough, shuffled, then a sequential tail
        sig = [rng.randrange(k + (0 if rng.random() < 0.8 else 1)) for _ in range(3 * njobs)] + [0] * (2 * njobs + 2) + list(range(k)) * 2
        return sig
    j = 0
    for k in (workers if ctx.quick else workers[:8]):
        for rep in range(ctx.pick(2, 6)):
            tbl = '[' + '; '.join('((%d)%%Z, inl (%d)%%Z)' % (g, labmap.setdefault(ref1['labels'][g], len(labmap) + 1)) for g in gl) + ']'
            impl = '(Some [' + '; '.join('Some (%d)%%Z' % labmap[ref1['labels'][g]] for g in gl) + '])'
            sexprs.append((j, '{| s_k := %d; s_split := 1; s_id := 0; s_gammas := %s; s_tbl := %s; s_sigma := %s; s_impl := %s |}' % (
                k, lib.zl(gl), tbl, lib.natl(sched(len(gl), k)), impl)))
            j += 1
    flat2 = flat_ref
    g2 = list(range(len(flat2)))
    for rec in out['builds2']:
        if rec.get('merge_all') or 'error' in rec or rng.random() > ctx.pick(1.0, 0.25):
            continue
        tbl = '[' + '; '.join('((%d)%%Z, inl (%d)%%Z)' % (g, labmap.setdefault(flat2[g], len(labmap) + 1)) for g in g2) + ']'
        flat = [x for row in rec['labels'] for x in row]
        impl = '(Some [' + '; '.join(lz(x) for x in flat) + '])'
        k = max(1, rec['cpus'])
        sexprs.append((j, '{| s_k := %d; s_split := %d; s_id := %d; s_gammas := %s; s_tbl := %s; s_sigma := %s; s_impl := %s |}' % (
            k, rec['split'], rec['id'], lib.zl(g2), tbl, lib.natl(sched(len(g2), k)), impl)))
        j += 1
    # an error object in the result list: the model build is an error for every interleaving
    for idx in gl:
        tbl = '[' + '; '.join('((%d)%%Z, %s)' % (g, 'inr 7%Z' if g == idx else 'inl (%d)%%Z' % labmap[ref1['labels'][g]]) for g in gl) + ']'
        sexprs.append((j, '{| s_k := 2; s_split := 1; s_id := 0; s_gammas := %s; s_tbl := %s; s_sigma := %s; s_impl := None |}' % (
            lib.zl(gl), tbl, lib.natl(sched(len(gl), 2)))))
        j += 1
    sres = ctx.coq_cases('sched', hdr, sexprs, 'scheck', 'exact', shard=60, kind='schedule')
    oks = all(sres.get(i, (False, 0))[0] for i, _ in sexprs)
    ctx.obligation('Coq scheduler model under %d random interleavings yields the implementation\'s caches (and an error when a job raises)' % len(sexprs),
                   oks, 'correspondence', '' if oks else repr([i for i, _ in sexprs if not sres.get(i, (False, 0))[0]][:10]))

# ------------------------------------------------------------------------------------------------------------
def run(ctx):
    ctx.rule = ('scenarios = (demographic stand-in: closed-form smooth in gamma / selection-free constant / DemogSelModels.equil / split_mig_sel; '
                'sample sizes; extrapolation grids; gamma range and number of grid points; additional positive gammas) x operations '
                '(integrate, integrate_point_pos with 1-2 cached / uncached point masses, 2-D integrate with symmetric and asymmetric pdfs, '
                'integrate_point_pos with rho, integrate_symmetric_point_pos, mixture, mixture_symmetric_point_pos, mixture_point_pos, '
                'Vourlaki_mixture; exterior_int on/off; pdf family and dyadic parameters; theta) from one PRNG; two-cache operations additionally '
                'with the 1-D and the 2-D cache on different gamma ranges / grid sizes in each of the four relations of the ranges x mixture weights '
                'inside (0,1) and each at 0 and 1 (systematic, every run); a density whose support starts inside the grid; distinct = distinct '
                '(family, op, pdfs, params, theta, flags, grid size, ns); multiprocessing: worker counts x split_jobs, every subset of missing / '
                'duplicated split jobs for split_jobs <= 4, one conflicting duplicate per job id, a raising worker at every job index')
    ctx.assumptions += [
        'the tail integrals returned by scipy.integrate.quad / dblquad are taken as given: 1-D tails as computed by the driver with the same scipy call '
        'over the documented regions of each cache\'s own grid (the implementation\'s own calls must agree in limits and value), 2-D edge / corner '
        'integrals as recorded when their limits are the documented ones, else recomputed over the documented regions',
        'a-priori bound on |total weight - 1| (two-cache fine grids, gamma DFE with alpha = 1): trapezoid error <= sum dx^3/12 * f\'\'(left end) '
        '(f\'\' > 0 decreasing), product structure of biv_ind_gamma (C17_regions_tile_the_quadrant), scipy meeting the tolerances requested '
        '(epsabs=1e-4, epsrel=1e-3 for 2-D edges / corners, defaults for 1-D tails)',
        'float64 evaluation is compared with exact rational evaluation at 1e-10 x max |entry| (observed <= 1e-13)',
        'spectra are compared on unmasked entries only',
        'OS scheduling itself is not modelled: the theorem covers every interleaving of the abstract pop/append protocol, the runs sample real ones; '
        'a worker process killed by the OS (as opposed to raising) is outside the model',
        'numpy.array_equal on the caches of different worker counts relies on the demographic function being deterministic']
    ctx.trusted += ['oracle inputs of Model/DFE.v: cached spectra, pdf values on the grid, quad/dblquad tail integrals, sqrt(ppos1*ppos2)',
                    'harness/translate/cbody.py (C body translator) and harness/props/c17_translate.py (Python pdf translator), fail-closed',
                    'Gam (the gamma function) is a Section variable of Proofs/DFEPdf.v: Lanczos vs scipy gamma is compared numerically (1e-12)']
    rp = (json.load(open(ctx.replay)).get('input') or {}) if ctx.replay else None
    import time
    def timed(name, thunk):
        t0 = time.time(); thunk()
        ctx.notes.append('phase %s: %.1fs' % (name, time.time() - t0))
    if rp is not None and 'types_case' in rp:
        c17_translate.obligations(ctx)
        c17_types.replay(ctx, rp['types_case'])
        return
    # stream 'types' (harness/props/c17_types.py): every entry point in every spelling of its arguments; the driver runs in the background
    types_stream = c17_types.Stream(ctx, c17_types.gen(ctx, thorough=not ctx.quick)) if rp is None else None
    timed('translators', lambda: c17_translate.obligations(ctx))
    broken = [o['name'] for o in ctx.obligations if not o['ok'] and o.get('kind') == 'translator']
    if rp is None or 'pdf_case' in rp or not ({'scenario', 'request'} & set(rp)):
        timed('pdf numerics', lambda: pdf_numeric(ctx))
    if rp is None or 'scenario' in rp or not ({'pdf_case', 'request'} & set(rp)):
        timed('scenarios', lambda: scenarios(ctx))
    if rp is None or 'request' in rp:
        timed('multiprocessing', lambda: mp_part(ctx, rp.get('request') if rp else None))
    if types_stream is not None:
        found = types_stream.finish()
        if broken and not found and not any(not v.get('no_input') and v.get('key') not in KNOWN_KEYS for v in ctx.violations):
            # a source obligation no longer checks and nothing has a failing input yet: targeted search over the argument spellings with
            # more number sets before lib reports no-failing-input-found
            ctx.notes.append('broken source obligation(s) %r: targeted search over argument spellings (3 x 3 number sets)' % broken[:3])
            for salt in (1, 2, 3):
                if c17_types.Stream(ctx, c17_types.gen(ctx, thorough=True, salt=salt), procs=3).finish():
                    break
