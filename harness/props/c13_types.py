"""C13 -- argument types / containers / layouts (stream 'types').

The VCF / SNP-file stream of c13.py only ever sees the data dictionaries the two text parsers build: letter alleles, tuples of python
ints, str population names.  The data dictionary is however an IN-MEMORY interface (Spectrum.from_data_dict documents its layout;
Misc.dd_from_SLiM_files builds one with 'segregating': [0, 1], 'outgroup_allele': 0 and integer population keys), and seed C13h
(`snp_info.get('outgroup_allele') or '-'`: every falsy allele code counts as "no outgroup") lives exactly there.

Every run (quick tier included) takes a systematic list of base genotype-count tables (1, 2, 3 populations; SNPs with ancestral
allele = first / second / unknown, under-called, non-biallelic, several chromosomes; two SLiM-shaped tables) and hands each to every
entry point C13 covers -- Misc.count_data_dict, Spectrum.from_data_dict (polarised / folded x mask_corners False / True x requested /
full projection; twice on the same objects), Misc.fragment_data_dict, Misc.bootstraps_from_dd_chunks, the statistics -- in every
spelling enumerated by the FACTORS table, one factor at a time against the canonical spelling plus the pairs (allele coding x
spelling of a missing outgroup) and (allele coding x segregating container) and a list of combined spellings.  For each variant:
   * every output is compared with the canonical spelling (count dictionary exactly, spectra / bootstraps / statistics at the
     existing 1e-11 / 1e-10, masks, folded flag, chunk membership exactly);
   * the property predicates are evaluated on the variant's own outputs against the generator's independent computation
     (spectrum == sum of hypergeometric projections, total == number of usable SNPs, chunk spectra add up, bootstraps are sums of
     the drawn chunk spectra);
   * the caller's objects must be bit-identical afterwards (type-tagged snapshot) and a second call on the same objects identical;
   * the canonical spelling of every base goes through the Coq model (count dictionary, 8 spectra, chunk membership, chunk spectra,
     bootstraps with the recorded draws).
Which spellings the unchanged library accepts was established on the unchanged tree (REJECTED below, reviewed): a spelling listed
there is counted, not compared, for the listed entry points; everything else must agree with the canonical call."""
import math
from fractions import Fraction
import numpy as np

TOL = 1e-11
TOL_STAT = 1e-10

# ---- the factors ------------------------------------------------------------------------------------------------------
FACTORS = {
    'alleles': ['int01', 'int10', 'lower', 'npstr', 'bytes', 'multichar', 'empty_first', 'empty_second', 'str01', 'int12', 'int_neg', 'int02',
                'bool', 'bool10', 'npbool', 'float01', 'float10', 'negzero', 'npint64', 'npint64_10', 'npint8', 'npuint8', 'npint32', 'npfloat32',
                'npfloat64', 'int_out_np', 'np_out_int', 'int_out_float', 'int_out_bool', 'int_out_0d', 'letters_out_npstr', 'letters_out_0d'],
    'missing': ['absent', 'none', 'N', 'dot', 'other_letter', 'other_lower', 'empty', 'int2', 'int_neg1', 'int7', 'nan', 'str_zero', 'float_half',
                'npint9', 'bytes_dash', 'np_dash'],
    'seg': ['list', 'ndarray', 'ndarray_obj', 'ndarray_view', 'ndarray_neg'],
    'calls': ['list', 'npint_tuple', 'npint32_tuple', 'npuint8_tuple', 'float_tuple', 'npfloat32_tuple', 'ndarray', 'ndarray_int32', 'ndarray_int16',
              'ndarray_float', 'ndarray_view', 'ndarray_F', 'ndarray_T', 'ndarray_neg', 'ndarray_strided', 'ma', 'ma_masked_false', 'zerod', 'bool_when_01'],
    'calls_dict': ['ordered', 'defaultdict', 'proxy', 'userdict', 'chainmap'],
    'snp_dict': ['ordered', 'defaultdict', 'proxy', 'userdict', 'chainmap'],
    'dd': ['ordered', 'defaultdict', 'proxy', 'userdict', 'chainmap'],
    'extra_keys': [True],
    'pop_key': ['int', 'npint', 'npstr', 'bytes', 'tuple', 'float'],
    'pop_ids': ['tuple', 'ndarray', 'ndarray_obj', 'ndarray_view', 'ndarray_neg', 'npstr_list', 'dict_keys'],
    'projs': ['tuple', 'ndarray', 'ndarray_view', 'ndarray_neg', 'npint_list', 'npint32_list', 'ndarray_int32', 'ndarray_uint8', 'float_list',
              'ndarray_float', 'zerod_list', 'ma'],
    'flag': ['int', 'npbool', 'npint', 'float', 'zerod', 'str', 'none_or_obj', 'list'],
    'cs': ['npint', 'npint32', 'float', 'npfloat', 'zerod'],
    'nboot': ['npint', 'npint32', 'npuint8', 'zerod'],
}
CANONICAL = {'alleles': 'letters', 'missing': 'dash', 'seg': 'tuple', 'calls': 'tuple', 'calls_dict': 'dict', 'snp_dict': 'dict', 'dd': 'dict',
             'extra_keys': False, 'pop_key': 'str', 'pop_ids': 'list', 'projs': 'list', 'flag': 'py', 'cs': 'py', 'nboot': 'py'}
INT_ALLELES = ['int01', 'int10', 'int12', 'int_neg', 'int02', 'bool', 'bool10', 'npbool', 'float01', 'float10', 'negzero', 'npint64', 'npint64_10',
               'npint8', 'npuint8', 'npint32', 'npfloat32', 'npfloat64', 'int_out_np', 'np_out_int', 'int_out_float', 'int_out_bool', 'int_out_0d']
COMBINED = [
    {'alleles': 'int01', 'seg': 'list', 'pop_key': 'int', 'calls': 'list'},                                  # what dd_from_SLiM_files builds
    {'alleles': 'int01', 'seg': 'list', 'pop_key': 'int', 'calls': 'list', 'missing': 'absent'},
    {'alleles': 'npint64', 'seg': 'ndarray', 'calls': 'ndarray_view', 'projs': 'ndarray', 'pop_ids': 'tuple'},     # from a 0/1 genotype matrix
    {'alleles': 'npint8', 'seg': 'ndarray', 'calls': 'ndarray_F', 'missing': 'int_neg1', 'projs': 'npint_list'},
    {'alleles': 'bool', 'seg': 'list', 'calls': 'npint_tuple', 'missing': 'none', 'flag': 'int'},
    {'alleles': 'float01', 'seg': 'list', 'calls': 'ndarray_int32', 'missing': 'nan'},
    {'alleles': 'int10', 'seg': 'ndarray_neg', 'calls': 'ndarray_neg', 'missing': 'int2', 'pop_key': 'npint'},
    {'alleles': 'npstr', 'seg': 'ndarray', 'calls': 'ndarray', 'pop_key': 'npstr', 'pop_ids': 'ndarray', 'projs': 'ndarray', 'flag': 'npbool',
     'cs': 'npint', 'nboot': 'npint', 'dd': 'ordered'},
    {'alleles': 'lower', 'missing': 'other_lower', 'extra_keys': True, 'snp_dict': 'ordered'},
    {'alleles': 'str01', 'missing': 'dot', 'seg': 'list', 'calls': 'list', 'dd': 'defaultdict'},
    {'alleles': 'empty_first', 'missing': 'none', 'seg': 'list'},
    {'alleles': 'int_out_np', 'seg': 'list', 'calls': 'npint_tuple', 'pop_key': 'int', 'pop_ids': 'tuple', 'projs': 'tuple'},
]

# ---- what the unchanged library does NOT accept (established with the probe on the unchanged tree, reviewed) ------------------------
# (factor, value) -> (groups, mode, why).  Groups: cd, fs, stats, chunks, chunk_fs, boots, unchanged.
#   mode 'raises' : the unchanged library raises there (for some or all inputs): an exception is counted, a returned value is still
#                   compared with the canonical spelling and goes through the predicates;
#   mode 'differs': the unchanged library returns something else: counted, nothing compared.
_FS = ('fs', 'stats', 'chunk_fs', 'boots')
REJECTED = {
    ('calls', 'zerod'): (('cd',) + _FS, 'raises', "count_data_dict builds its keys from the counts: tuple of 0-d arrays, TypeError unhashable type 'numpy.ndarray'"),
    ('pop_ids', 'ndarray'): (('boots',), 'raises', 'Spectrum(..., pop_ids=<ndarray of 2+ names>) in bootstraps_from_dd_chunks: truth value of an array is ambiguous'),
    ('pop_ids', 'ndarray_obj'): (('boots',), 'raises', 'as pop_ids=ndarray'),
    ('pop_ids', 'ndarray_view'): (('boots',), 'raises', 'as pop_ids=ndarray'),
    ('pop_ids', 'ndarray_neg'): (('boots',), 'raises', 'as pop_ids=ndarray'),
    ('projs', 'float_list'): (_FS, 'raises', "numpy.zeros(array(projections)+1): 'numpy.float64' object cannot be interpreted as an integer"),
    ('projs', 'ndarray_float'): (_FS, 'raises', 'as projs=float_list'),
    ('projs', 'zerod_list'): (_FS, 'raises', "_cached_projection caches on its arguments: unhashable type 'numpy.ndarray'"),
    ('cs', 'zerod'): (('chunks', 'chunk_fs', 'boots', 'unchanged'), 'differs',
                      'fragment_data_dict: end = chunk_size; end += chunk_size adds IN PLACE to the caller\'s 0-d array (window ends double, the argument is altered)'),
}

GROUPS = ('cd', 'fs', 'stats', 'chunks', 'chunk_fs', 'boots', 'unchanged')
def group_of(k):
    if k == 'cd': return 'cd'
    if k == 'stats': return 'stats'
    if k == 'chunks': return 'chunks'
    if k.startswith('chunk_fs'): return 'chunk_fs'
    if k.startswith('boots'): return 'boots'
    if k.startswith('fs_'): return 'fs'
    if k == 'inputs_unchanged': return 'unchanged'
    return None

def rejected_groups(v):
    """{group: (mode, text)} for the spelling of variant v"""
    out = {}
    for f, val in v['spelling'].items():
        r = REJECTED.get((f, val))
        if r:
            for g in r[0]:
                if g not in out or r[1] == 'differs':
                    out[g] = (r[1], '%s=%s: %s' % (f, val, r[2]))
    return out

# ---- base cases ----------------------------------------------------------------------------------------------------------
LETTERS = [('A', 'T'), ('C', 'G'), ('G', 'A'), ('T', 'C'), ('A', 'C'), ('G', 'T')]

def gen_base(rng, bid, npop, slim=False, nsnp=14):
    pops = rng.sample(['YRI', 'CEU', 'pop_1', 'P.q', 'A', 'Bb', 'sample_grp'], npop)
    nchrom = [2 * rng.randint(2, {1: 7, 2: 5, 3: 3}[npop]) for _ in pops]
    chroms = ['chr_1.2', 'scaf_7'] if not slim else ['SLiM']
    cs = rng.choice([50, 100, 400])
    snps = []
    used = set()
    for i in range(nsnp):
        # ancestral state: index 0, 1, unknown -- the first six SNPs enumerate (anc x fully called / under-called)
        anc = [0, 1, None, 0, 1, None][i] if i < 6 else rng.choice([0, 0, 1, 1, None])
        nseg = 2
        if not slim and i in (6, 7):
            nseg = 1 if i == 6 else 3
        a1, a2, carriers = [], [], []
        for p, n in enumerate(nchrom):
            if slim:
                called = n
            elif i in (3, 4, 5) and p == 0:
                called = rng.randint(0, max(0, n - 3))                # under-called: fewer calls than the requested projection
            else:
                called = n if rng.random() < 0.6 else rng.randint(max(0, n - 2), n)
            k = rng.randint(0, called)
            if i % 5 == 0 and called:
                k = rng.choice([0, called, 1])                        # fixed / absent / singleton in this population
            a2.append(k); a1.append(called - k)
            carriers.append(sorted(rng.sample(range(n), k)) if slim else None)
        if slim:
            anc = 0
            if sum(a2) == 0:
                a2[0] = 1; a1[0] -= 1; carriers[0] = [rng.randrange(nchrom[0])]
        while True:
            chrom = rng.choice(chroms)
            pos = rng.choice([cs, cs + 1, 2 * cs, 1, rng.randint(1, 6 * cs), rng.randint(1, 6 * cs)])
            if (chrom, pos) not in used:
                used.add((chrom, pos)); break
        key = '%s_%d' % (chrom, pos)
        if slim:
            key = 'SLiM_%d.%d' % (pos, 1000 + i)
        elif rng.random() < 0.25:
            key += '.' + rng.choice(['a', 'x1', '7'])
        snps.append({'key': key, 'pos': pos, 'gid': 1000 + i, 'letters': list(LETTERS[i % len(LETTERS)]), 'anc': anc, 'nseg': nseg,
                     'a1': a1, 'a2': a2, 'carriers': carriers})
    k = npop if (slim or bid % 2 == 0) else rng.randint(1, npop)
    pop_ids = pops[:] if slim else rng.sample(pops, k)
    sel = [pops.index(p) for p in pop_ids]
    full = [nchrom[i] for i in sel]
    projections = [max(2, n - rng.choice([0, 1, 2, 3])) for n in full]
    return {'id': bid, 'pops': pops, 'nchrom': nchrom, 'snps': snps, 'pop_ids': pop_ids, 'projections': projections, 'full': full,
            'chunk_size': cs, 'nboot': 2, 'boot_seed': rng.randint(0, 2 ** 31 - 1), 'slim': slim, 'slim_ns': nchrom if slim else None}

def gen_bases(rng, quick):
    plan = [(1, False), (2, False), (3, False), (2, True), (1, True)]
    if not quick:
        plan = plan * 4
    bases = [gen_base(rng, 100000 + i, npop, slim) for i, (npop, slim) in enumerate(plan)]
    for i, b in enumerate(bases):
        # the pair products run on the 1- and 2-population tables (missing outgroups) and on the 1-population and SLiM-shaped tables (containers)
        b['pairs_missing'] = i % 5 in (0, 1)
        b['pairs_seg'] = i % 5 in (0, 3)
    return bases

def variants_for(base, search=False):
    out = []
    seen = set()
    def add(spelling, tag):
        sp = {k: v for k, v in spelling.items() if CANONICAL.get(k) != v}
        sig = tuple(sorted(sp.items()))
        if sig in seen:
            return
        seen.add(sig)
        v = dict(sp); v['vid'] = len(out); v['tag'] = tag; v['spelling'] = dict(sp)
        out.append(v)
    add({}, 'canonical')
    for f, vals in FACTORS.items():
        for val in vals:
            add({f: val}, 'one-factor')
    for al in FACTORS['alleles']:
        if base.get('pairs_missing') or search:
            for ms in FACTORS['missing']:
                add({'alleles': al, 'missing': ms}, 'alleles x missing')
        if base.get('pairs_seg') or search:
            for sg in FACTORS['seg']:
                add({'alleles': al, 'seg': sg}, 'alleles x seg')
    for sp in COMBINED:
        add(sp, 'combined')
    if base['slim']:
        add({'producer': 'slim'}, 'dd_from_SLiM_files')
    if search:
        for al in FACTORS['alleles']:
            for f in ('calls', 'pop_key', 'dd', 'snp_dict', 'flag', 'projs', 'pop_ids'):
                for val in FACTORS[f]:
                    add({'alleles': al, f: val}, 'search: alleles x ' + f)
            for ms in FACTORS['missing']:
                for sg in FACTORS['seg']:
                    add({'alleles': al, 'missing': ms, 'seg': sg}, 'search: alleles x missing x seg')
    return out

# ---- independent computation from the count table --------------------------------------------------------------------------
def hyp(m, n, j):
    if n < m:
        return [0.0] * (m + 1)
    return [float(Fraction(math.comb(m, i) * math.comb(n - m, j - i), math.comb(n, j))) if 0 <= j - i <= n - m else 0.0 for i in range(m + 1)]

def expected(base, projs, snps=None):
    """(polarised spectrum, folded spectrum, usable polarised, usable) by direct summation of hypergeometric projections"""
    sel = [base['pops'].index(p) for p in base['pop_ids']]
    shape = [m + 1 for m in projs]
    pol = np.zeros(shape); allu = np.zeros(shape); npol = nall = 0
    for s in (base['snps'] if snps is None else snps):
        if s['nseg'] != 2:
            continue
        called = [s['a1'][i] + s['a2'][i] for i in sel]
        ok = all(c >= m for c, m in zip(called, projs))
        def outer(derived):
            arr = np.ones([1] * len(projs))
            for ax, (n, d, m) in enumerate(zip(called, derived, projs)):
                sh = [1] * len(projs); sh[ax] = m + 1
                arr = arr * np.array(hyp(m, n, d)).reshape(sh)
            return arr
        if s['anc'] is not None:
            pol += outer([s['a2'][i] if s['anc'] == 0 else s['a1'][i] for i in sel]); npol += ok
        allu += outer([s['a1'][i] if s['anc'] == 1 else s['a2'][i] for i in sel]); nall += ok
    T = sum(projs)
    tot = np.indices(shape).sum(axis=0)
    rev = allu[tuple(slice(None, None, -1) for _ in shape)]
    folded = np.where(2 * tot < T, allu + rev, np.where(2 * tot == T, (allu + rev) / 2.0, 0.0))
    return pol, folded, int(npol), int(nall)

def expected_cd(base):
    """the count dictionary as a multiset {(succ, der, pol): n}"""
    sel = [base['pops'].index(p) for p in base['pop_ids']]
    out = {}
    for s in base['snps']:
        if s['nseg'] != 2:
            continue
        succ = tuple(s['a1'][i] + s['a2'][i] for i in sel)
        der = tuple((s['a1'][i] if s['anc'] == 1 else s['a2'][i]) for i in sel)
        k = (succ, der, s['anc'] is not None)
        out[k] = out.get(k, 0) + 1
    return out

# ---- comparison ---------------------------------------------------------------------------------------------------------------
def is_err(x):
    return isinstance(x, dict) and 'error' in x

def close(a, b, tol=TOL):
    a = np.asarray(a, dtype=float); b = np.asarray(b, dtype=float)
    if a.shape != b.shape:
        return False
    s = max(1.0, float(np.max(np.abs(b))) if b.size else 1.0)
    return bool(np.all(np.abs(a - b) <= tol * s))

def fs_diff(got, want, what, ref='the canonical spelling'):
    if got['shape'] != want['shape']:
        return '%s has shape %r, %s gives %r' % (what, got['shape'], ref, want['shape'])
    if got['mask'] != want['mask']:
        return '%s: mask differs from %s' % (what, ref)
    if got['folded'] != want['folded']:
        return '%s: folded flag %r, %s %r' % (what, got['folded'], ref, want['folded'])
    if not close(got['data'], want['data']):
        d = float(np.max(np.abs(np.array(got['data']) - np.array(want['data']))))
        return '%s differs from %s by %.3g (total %r vs %r)' % (what, ref, d, float(np.sum(got['data'])), float(np.sum(want['data'])))
    return None

def compare(base, ref, vr, order_free=False):
    """{group: [messages]}: the outputs of variant record vr against the canonical record ref"""
    bad = {}
    def say(k, msg):
        bad.setdefault(group_of(k), []).append(msg)
    for k, want in ref.items():
        g = group_of(k)
        if g is None or is_err(want):
            continue
        got = vr.get(k)
        if got is None:
            if g in ('chunk_fs', 'boots') and is_err(vr.get('chunks')):
                continue
            say(k, '%s missing' % k); continue
        if is_err(got):
            say(k, '%s raised %s (the canonical spelling returns a value)' % (k, got['error'])); continue
        if k == 'cd':
            a, b = ([sorted(map(repr, got)), sorted(map(repr, want))] if order_free else [got, want])
            if a != b:
                say(k, 'count dictionary %r, canonical spelling %r' % (got[:4], want[:4]))
        elif g == 'fs':
            m = fs_diff(got, want, k)
            if m: say(k, m)
        elif k == 'stats':
            for n_, w in want.items():
                gv = got.get(n_)
                if is_err(w) or w is None:
                    if (gv is None) != (w is None) and not is_err(w):
                        say(k, 'statistic %s = %r, canonical spelling %r' % (n_, gv, w))
                    continue
                if is_err(gv) or gv is None or abs(gv - w) > TOL_STAT * max(1.0, abs(w)):
                    say(k, 'statistic %s = %r, canonical spelling %r' % (n_, gv, w))
        elif k == 'chunks':
            a, b = ([sorted(map(sorted, got)), sorted(map(sorted, want))] if order_free else [got, want])
            if a != b:
                say(k, 'chunk membership %r, canonical spelling %r' % (got[:3], want[:3]))
        elif g == 'chunk_fs':
            if order_free:
                continue
            if len(got) != len(want):
                say(k, '%d chunk spectra, canonical spelling %d' % (len(got), len(want))); continue
            for i, (x, y) in enumerate(zip(got, want)):
                m = fs_diff(x, y, '%s[%d]' % (k, i))
                if m:
                    say(k, m); break
        elif g == 'boots':
            if order_free:
                continue
            if got['picks'] != want['picks']:
                say(k, 'bootstrap draws %r, canonical spelling %r' % (got['picks'], want['picks'])); continue
            for i, (x, y) in enumerate(zip(got['fs'], want['fs'])):
                m = fs_diff(x, y, '%s[%d]' % (k, i))
                if m:
                    say(k, m); break
    return bad

def predicates(base, vr, skip):
    """the property itself on the variant's own outputs; {group: [messages]}"""
    bad = {}
    def say(g, msg):
        bad.setdefault(g, []).append(msg)
    if 'cd' not in skip and not is_err(vr.get('cd')) and vr.get('cd') is not None:
        got = {}
        for succ, der, pol, n in vr['cd']:
            k = (tuple(succ), tuple(der), pol)
            got[k] = got.get(k, 0) + n
        want = expected_cd(base)
        if got != want:
            extra = sorted(set(got.items()) - set(want.items()))[:2]; miss = sorted(set(want.items()) - set(got.items()))[:2]
            say('cd', 'count_data_dict is not the tally of the SNP table: has %r, direct counting %r' % (extra, miss))
    if 'fs' not in skip:
        for nm, projs in (('proj', base['projections']), ('full', base['full'])):
            epol, efold, npol, nall = expected(base, projs)
            for mtag in 'FT':
                for ptag, e, n in (('pol', epol, npol), ('fold', efold, nall)):
                    k = 'fs_%s_%s_%s' % (nm, mtag, ptag)
                    r = vr.get(k)
                    if r is None or is_err(r):
                        continue
                    what = 'from_data_dict(projections=%r, mask_corners=%s, polarized=%s)' % (projs, mtag == 'T', ptag == 'pol')
                    if r['shape'] != [m + 1 for m in projs]:
                        say('fs', '%s has shape %r' % (what, r['shape'])); continue
                    d = np.array(r['data']).reshape(r['shape'])
                    if not close(d, e):
                        say('fs', '%s is not the sum of the per-SNP hypergeometric projections (max diff %.3g; total %r, %d SNPs usable)' % (
                            what, float(np.max(np.abs(d - e))), float(d.sum()), n))
                    elif abs(d.sum() - n) > 1e-10 * max(1, n):
                        say('fs', '%s: total %r but %d SNPs are usable' % (what, float(d.sum()), n))
                    if r['folded'] != (ptag == 'fold'):
                        say('fs', '%s: folded flag is %r' % (what, r['folded']))
                    if mtag == 'F' and ptag == 'pol' and any(r['mask']):
                        say('fs', '%s has masked entries' % what)
        a, b = vr.get('fs_again'), vr.get('fs_proj_F_pol')
        if a is not None and b is not None and not is_err(a) and not is_err(b) and (a['data'] != b['data'] or a['mask'] != b['mask']):
            say('fs', 'a second from_data_dict call (positional flags) on the very same objects gives another spectrum')
    if 'chunks' not in skip and vr.get('chunks') is not None and not is_err(vr['chunks']):
        keys = [s['key'] for s in base['snps']]
        flat = [k for ch in vr['chunks'] for k in ch]
        if sorted(flat) != sorted(keys):
            say('chunks', 'the chunks do not partition the SNPs: %d keys in chunks, %d SNPs' % (len(flat), len(keys)))
        cs = base['chunk_size']
        for ch in vr['chunks']:
            wins = set()
            for k in ch:
                chrom, rest = k.rsplit('_', 1)
                wins.add((chrom, max(0, (int(rest.partition('.')[0]) - 1) // cs)))
            if len(wins) > 1:
                say('chunks', 'one chunk holds SNPs of several chunk_size windows: %r' % sorted(wins)[:3])
        for ptag in ('pol', 'fold'):
            cf, whole = vr.get('chunk_fs_' + ptag), vr.get('fs_proj_F_' + ptag)
            if 'chunk_fs' in skip or cf is None or is_err(cf) or whole is None or is_err(whole):
                continue
            ssum = np.sum([np.array(f['data']) for f in cf], axis=0) if cf else np.zeros(len(whole['data']))
            if not close(ssum, whole['data']):
                say('chunk_fs', 'the %s chunk spectra do not add up to the spectrum of the whole dictionary (max diff %.3g)' % (
                    ptag, float(np.max(np.abs(ssum - np.array(whole['data']))))))
            bt = vr.get('boots_' + ptag)
            if 'boots' in skip or bt is None or is_err(bt):
                continue
            if len(bt['fs']) != base['nboot'] or len(bt['picks']) != base['nboot']:
                say('boots', '%d bootstraps for Nboot=%d' % (len(bt['fs']), base['nboot']))
            for f, pk in zip(bt['fs'], bt['picks']):
                want = np.sum([np.array(cf[i]['data']) for i in pk], axis=0)
                if len(pk) != len(cf) or not close(f['data'], want) or f['folded'] != (ptag == 'fold') or f['mask'] != whole['mask']:
                    say('boots', 'a %s bootstrap is not the sum of the %d drawn chunk spectra' % (ptag, len(cf))); break
    return bad

def spelling_text(v):
    return ', '.join('%s=%s' % kv for kv in sorted(v['spelling'].items())) or 'canonical'
