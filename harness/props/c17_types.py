"""C17 -- argument types, containers and memory layouts (stream 'types').

The property speaks about numbers: the quadrature of the cached spectra against a pdf with given parameters, times theta.  It may
therefore not depend on the SPELLING in which the same numbers are handed over.  The scenario generator of c17.py only ever produced
python lists of python floats and float64 C-contiguous arrays (seed C17h: the coercion in front of the compiled bivariate pdfs was
narrowed to "convert unless already floating", so float32 / float16 / long double / big-endian buffers were read as C doubles).

Every run (quick tier included), systematically (enumerated, not sampled; only the NUMBERS come from the PRNG, all of them exactly
representable in float16 so that every dtype holds the very same values):

 (P) the compiled pdfs  PDFs.biv_lognormal (3 and 5 parameters) / PDFs.biv_ind_gamma (2, 3, 4, 5 parameters), fractional and
     integer-coded numbers (and 0/1-coded parameters):  each of xx, yy, params -- one at a time and all three at once -- in every
     spelling of ARRAY_KINDS; scalar xx / yy in every spelling of SCALAR_KINDS;
 (I) every integration entry point C17 covers (Cache1D.integrate / integrate_point_pos, Cache2D.integrate / integrate_point_pos /
     integrate_symmetric_point_pos, mixture, mixture_symmetric_point_pos, mixture_point_pos, Vourlaki_mixture) on real caches:
     params in every array spelling, theta / rho in every scalar spelling, exterior_int in every flag spelling.
 For each variant: the call is made twice with the SAME argument objects; required are
   - the value of the canonical spelling (float64 C-contiguous arrays for (P); list of python floats, python float theta, python
     bool for (I)) -- at 1e-11 relative per entry for (P) [the existing compiled-vs-reference tolerance], at 1e-10 x max|entry| for
     (I) [the existing FTOL]; where a float32 / float16 operand makes the unchanged library itself compute in that precision
     (scipy pdfs with float32 parameters, numpy.exp(uint8) -> float16, ...) at 2e-5 / 5e-3 (class 'f32' / 'f16' below);
   - same shape, same mask, a dadi.Spectrum where the canonical call returns one;
   - the second call bit-identical to the first;
   - the caller's objects (values, dtype, strides, mask, flags, the buffer around a view) and the caches unchanged afterwards;
   - canonical (P) = reference formula PDFs.*_py at 1e-11 (the formula the static theorems tie to the C code); canonical
     Cache2D.integrate without exterior integration = theta * trapezoid quadrature of reference-pdf-weighted cached spectra.
 What the UNCHANGED library accepts was established on the unchanged tree (function `expected` below = the reviewed table; rebuild
 aid: C17_TYPES_DISCOVER=<file> ./check C17 dumps the observed status of every (entry point, argument, spelling)).  A spelling
 the unchanged library rejects or treats differently is counted in the evidence only:
   * native float64 NON-CONTIGUOUS views (x[::2], x[::-1], a row of a Fortran-ordered / transposed matrix, masked arrays over such
     views) handed to PDFs.biv_* directly, or as params of Cache2D.integrate_point_pos (which slices params and hands the slice on):
     numpy.asarray(v, dtype=float) returns the view itself and PDFs_cython reads from its raw data pointer with stride 1
     -> wrong densities / nan, and for x[::-1] a read beyond the buffer.  (Every other dtype / byte order is copied by the
     conversion and is therefore read correctly, strided or not.)
   * a tuple as params of Cache1D.integrate / integrate_point_pos / mixture with exterior integration: scipy.integrate.quad(args=params)
     unpacks it (TypeError);
   * long double params of 1-D pdf entry points: scipy's pdf ufuncs refuse float128.
"""
import json, os, struct, subprocess, signal, threading, time
from harness import lib

FN = {'int1': 'Cache1D.integrate', 'pp1': 'Cache1D.integrate_point_pos', 'int2': 'Cache2D.integrate', 'pp2': 'Cache2D.integrate_point_pos',
      'sympp2': 'Cache2D.integrate_symmetric_point_pos', 'mix': 'DFE.mixture', 'mixsym': 'DFE.mixture_symmetric_point_pos',
      'mixpp': 'Cache2D_mod.mixture_point_pos', 'vourlaki': 'DFE.Vourlaki_mixture'}

# ---- spellings (built by harness/impl/c17_impl_types.py `spell`) ---------------------------------------------------------------
LAYOUTS_STRIDED = ('step2', 'step3', 'rev', 'Frow', 'Trow')          # non-contiguous
LAYOUTS_CONTIG = ('ro', 'offset', 'Fcol', 'Tcol')                     # contiguous, but read-only / inside a larger buffer / F-ordered parent
ARRAY_KINDS = (['list', 'tuple', 'list_int', 'tuple_int', 'list_mixed', 'list_bool', 'list_np_f32', 'list_np_f16', 'list_np_f64', 'list_np_longdouble',
                'list_np_i64', 'list_np_i8', 'list_0d', 'f64', 'be_f64', 'be_f64_step2', 'obj', 'f32', 'f16', 'longdouble',
                'i64', 'i32', 'i16', 'i8', 'u8', 'u64', 'bool']
               + ['f64_' + l for l in LAYOUTS_CONTIG + LAYOUTS_STRIDED]
               + ['f32_' + l for l in ('step2', 'rev', 'Frow', 'offset', 'ro')] + ['f16_step2', 'f16_rev', 'longdouble_step2', 'longdouble_rev']
               + ['i64_step2', 'i64_rev', 'i32_step3', 'u8_rev']
               + ['ma_f64', 'ma_f64_nomask', 'ma_f64_hard', 'ma_f32', 'ma_f16', 'ma_i64', 'ma_f64_step2', 'ma_f32_step2', 'ma_f64_rev'])
SCALAR_KINDS = ['s:float', 's:int', 's:bool', 's:f64', 's:f32', 's:f16', 's:longdouble', 's:i64', 's:i32', 's:i8', 's:u8',
                's:0d_f64', 's:0d_f32', 's:0d_f16', 's:0d_i64', 's:ma_f64', 's:ma_f32']
FLAG_KINDS = ['bool', 'np_bool', 'int', 'np_int', '0d_bool']
# the reduced lists used where one call costs several scipy dblquad evaluations
ARRAY_KINDS_SHORT = ['list', 'tuple', 'list_int', 'list_mixed', 'list_np_f32', 'f64', 'be_f64', 'obj', 'f32', 'f16', 'longdouble', 'i64', 'u8',
                     'f64_step2', 'f64_rev', 'f64_offset', 'f32_step2', 'i64_rev', 'ma_f64', 'ma_f32']
SCALAR_KINDS_SHORT = ['s:int', 's:f32', 's:f16', 's:i64', 's:0d_f64', 's:0d_f32', 's:longdouble']

def _dtype_of(kind):
    k = kind
    if k == 'list_bool':
        return 'bool'
    for pre in ('s:', 'ma_', '0d_', 'list_np_'):
        if k.startswith(pre):
            k = k[len(pre):]
    if k.startswith('0d_'):
        k = k[3:]
    if k.startswith('ma_'):
        k = k[3:]
    return k.split('_')[0]

def _strided_native_f64(kind):
    """a non-contiguous view of native float64 memory (also under a masked array)"""
    k = kind[3:] if kind.startswith('ma_') else kind
    p = k.split('_')
    return p[0] == 'f64' and len(p) > 1 and p[1] in LAYOUTS_STRIDED

ONE_D = ('int1', 'pp1', 'mix', 'mixsym', 'mixpp', 'vourlaki')          # entry points that evaluate a scipy 1-D pdf with (a slice of) params
F32_DT = ('f32', 'i16')                                               # scipy / numpy then compute (partly) in float32
F16_DT = ('f16', 'i8', 'u8', 'bool')                                  # ... in float16 (numpy.exp of an 8-bit integer is float16)

def expected(level, fn, arg, kind, ext=True):
    """the reviewed table.  Returns the tolerance class the variant must meet against the canonical spelling
    ('exact' = the existing tolerance, 'f32', 'f16'), or None: rejected / treated differently by the unchanged library (counted only)."""
    dt = _dtype_of(kind)
    if level == 'pdf':
        if arg == 'all':
            arg = 'xyp'
        return None if _strided_native_f64(kind) else 'exact'
    if arg in ('theta', 'ext'):
        return 'exact'
    if arg == 'rho':
        return 'f32' if dt in F32_DT else 'f16' if dt in F16_DT else 'exact'
    # params
    if fn == 'pp2' and _strided_native_f64(kind):
        return None                              # params[:-4] of a strided view goes to the compiled pdf as it is
    if fn in ONE_D:
        if dt == 'longdouble':
            return None                          # scipy pdf ufuncs refuse float128
        if kind in ('tuple', 'tuple_int') and ext and fn in ('int1', 'pp1', 'mix'):
            return None                          # quad(args=<tuple>) unpacks the parameters (the other entry points rebuild lists)
    if fn in ('int2',):
        return 'exact'                           # numpy.array(params) + exact conversion in front of the compiled pdf
    if dt in F16_DT:
        return 'f16'
    if dt in F32_DT:
        return 'f32'
    return 'exact'

TOL = {'exact': 1e-10, 'f32': 2e-5, 'f16': 5e-3}
PDF_REL = 1e-11

# ---- numbers ----------------------------------------------------------------------------------------------------------------------
def f16_exact(v):
    try:
        return struct.unpack('e', struct.pack('e', v))[0] == v
    except (OverflowError, struct.error):
        return False

def _grid(rng, n, integer):
    if integer:
        return sorted(rng.sample([1, 2, 3, 4, 5, 6, 8, 10, 12, 16, 20, 24, 32], n))
    pool = [m * 2.0 ** e for e in range(-4, 5) for m in (1.0, 1.25, 1.5, 1.75)]
    while True:
        g = sorted(rng.sample(pool, n))
        if any(not float(x).is_integer() for x in g):
            return g

def _q(rng, lo, hi):
    """a multiple of 1/4 in [lo, hi]"""
    return rng.randint(int(lo * 4), int(hi * 4)) / 4.0

def pdf_params(rng, pdf, n, cls):
    if cls == 'bool':                              # 0/1-coded
        return {('biv_lognormal', 3): [1.0, 1.0, 0.0], ('biv_ind_gamma', 2): [1.0, 1.0]}[(pdf, n)]
    if pdf == 'biv_lognormal':
        if cls == 'int':
            rho = 0.0
            p = [float(rng.randint(0, 2)), float(rng.randint(1, 2))] if n == 3 else \
                [float(rng.randint(0, 2)), float(rng.randint(0, 2)), float(rng.randint(1, 2)), float(rng.randint(1, 3))]
        else:
            rho = rng.choice([-0.875, -0.5, -0.25, 0.25, 0.5, 0.75, 0.875])
            p = [_q(rng, -1, 2), _q(rng, 0.5, 2)] if n == 3 else [_q(rng, -1, 2), _q(rng, -1, 2), _q(rng, 0.5, 2), _q(rng, 0.5, 2)]
            if all(x.is_integer() for x in p):
                p[-1] += 0.25
        return p + [rho]
    if cls == 'int':
        a = lambda: float(rng.randint(1, 3)); bb = lambda: float(rng.randint(1, 8))
        base = {2: [a(), bb()], 3: [a(), bb(), 0.0], 4: [a(), a(), bb(), bb()], 5: [a(), a(), bb(), bb(), 0.0]}[n]
        return base
    a = lambda: _q(rng, 0.5, 3); bb = lambda: _q(rng, 0.5, 8)
    base = {2: [a(), bb()], 3: [a(), bb(), 0.5], 4: [a(), a(), bb(), bb()], 5: [a(), a(), bb(), bb(), 0.25]}[n]
    if all(x.is_integer() for x in base):
        base[0] += 0.25
    return base

PDF_FORMS = [('biv_lognormal', 3), ('biv_lognormal', 5), ('biv_ind_gamma', 2), ('biv_ind_gamma', 3), ('biv_ind_gamma', 4), ('biv_ind_gamma', 5)]

def gen(ctx, thorough=False, salt=0):
    """the request of one run.  thorough: more number sets per form (also used as the targeted search after a broken obligation).
    The numbers come from a PRNG of their own (seeded from the run's seed), so the other generators of c17.py see the stream they always saw."""
    import random
    rng = random.Random('C17-types-%d-%d' % (ctx.seed, salt))
    pdf_blocks, int_blocks = [], []
    reps = 3 if thorough else 1
    for rep in range(reps):
        for pdf, n in PDF_FORMS:
            for cls in ('frac', 'int') + (('bool',) if (pdf, n) in (('biv_lognormal', 3), ('biv_ind_gamma', 2)) else ()):
                integer = cls != 'frac'
                b = {'id': len(pdf_blocks), 'pdf': pdf, 'cls': cls, 'xx': [float(v) for v in _grid(rng, rng.randint(3, 5), integer)],
                     'yy': [float(v) for v in _grid(rng, rng.randint(2, 4), integer)], 'params': pdf_params(rng, pdf, n, cls), 'variants': []}
                vs = b['variants']
                def add(arg, kx, ky, kp, kind):
                    vs.append({'vid': len(vs), 'arg': arg, 'kind': kind, 'kx': kx, 'ky': ky, 'kp': kp})
                for k in ARRAY_KINDS:
                    if cls == 'bool':
                        add('params', 'f64', 'f64', k, k)
                        continue
                    add('xx', k, 'f64', 'f64', k); add('yy', 'f64', k, 'f64', k); add('params', 'f64', 'f64', k, k); add('all', k, k, k, k)
                pdf_blocks.append(b)
                if cls == 'bool':
                    continue
                # scalar gammas (what scipy.integrate.quad hands over), each against the array spelling of the other
                for which in ('xx', 'yy', 'both'):
                    x1 = [float(rng.choice(b['xx']))]; y1 = [float(rng.choice(b['yy']))]
                    s = {'id': len(pdf_blocks), 'pdf': pdf, 'cls': cls, 'xx': x1 if which != 'yy' else b['xx'], 'yy': y1 if which != 'xx' else b['yy'],
                         'params': b['params'], 'variants': []}
                    for k in SCALAR_KINDS:
                        for kp in ('list', 'f32'):
                            s['variants'].append({'vid': len(s['variants']), 'arg': 'scalar-' + which, 'kind': k, 'kx': k if which != 'yy' else 'f64',
                                                  'ky': k if which != 'xx' else 'f64', 'kp': kp})
                    pdf_blocks.append(s)
    # ---- integration entry points
    for rep in range(reps):
        cheap = {'kind': 'cheap', 'c': [lib.dyadic(rng, 0.125, 1, 3), lib.dyadic(rng, 0.0625, 0.5, 4), lib.dyadic(rng, 0.25, 2, 3),
                                        lib.dyadic(rng, 0.125, 1, 3), lib.dyadic(rng, 0.0625, 0.5, 4)]}
        g = rng.choice([2.0, 4.0])
        blk = {'id': len(int_blocks), 'cache': {'c1': cheap, 'c2': dict(cheap), 'ns': rng.choice([[2, 2], [2, 3]]), 'pts': rng.choice([[8, 10, 12], [6]]),
                                                'gamma_bounds': [2.0 ** -rng.randint(3, 6), 2.0 ** rng.randint(3, 6)], 'gamma_pts': rng.randint(4, 7),
                                                'gamma_pts2': rng.randint(2, 3), 'additional_gammas': [g]}, 'calls': []}
        def call(fn, params, theta, ext, full, **kw):
            c = {'cid': len(blk['calls']), 'fn': fn, 'params': [float(p) for p in params], 'theta': float(theta), 'ext': ext, 'variants': []}
            c.update(kw)
            vs = c['variants']
            def add(arg, kind, kp='list', kt='s:float', ke='bool', kr='s:float'):
                vs.append({'vid': len(vs), 'arg': arg, 'kind': kind, 'kp': kp, 'kt': kt, 'ke': ke, 'kr': kr})
            for k in (ARRAY_KINDS if full else ARRAY_KINDS_SHORT):
                add('params', k, kp=k)
            for k in (SCALAR_KINDS if full else SCALAR_KINDS_SHORT):
                add('theta', k, kt=k)
            if fn in ('int1', 'pp1', 'int2', 'mix'):
                for k in FLAG_KINDS:
                    add('ext', k, ke=k)
            if fn == 'pp2':
                for k in (SCALAR_KINDS if full else SCALAR_KINDS_SHORT):
                    add('rho', k, kr=k)
            # several arguments at once in a non-canonical spelling
            for kp, kt in (('f32', 's:f32'), ('f64', 's:i64'), ('i64', 's:int'), ('ma_f32', 's:0d_f32'), ('f16_step2', 's:f16')):
                add('params+theta', kp + '+' + kt, kp=kp, kt=kt, ke='np_bool', kr=kt if fn == 'pp2' else 's:float')
            blk['calls'].append(c)
        th = lambda: rng.choice([2.0, 3.0, 10.0, 64.0])
        pp, pq = rng.choice([0.125, 0.25, 0.375]), rng.choice([0.125, 0.25, 0.5])
        fr2 = lambda pdf, n: pdf_params(rng, pdf, n, 'frac')
        in2 = lambda pdf, n: pdf_params(rng, pdf, n, 'int')
        # Cache2D.integrate: every parameter count, fractional and integer-coded, without exterior integration (cheap: every spelling) ...
        for pdf, n in PDF_FORMS:
            call('int2', fr2(pdf, n), th(), False, True, pdf2=pdf)
        call('int2', in2('biv_lognormal', 3), 1.0, False, True, pdf2='biv_lognormal')
        call('int2', in2('biv_ind_gamma', rng.choice([2, 4])), th(), False, True, pdf2='biv_ind_gamma')
        # ... and with it (the edge / corner integrals hand python-float gammas and the params array to the pdf through scipy)
        pdf, n = PDF_FORMS[(ctx.seed + rep) % len(PDF_FORMS)]
        call('int2', fr2(pdf, n), th(), True, False, pdf2=pdf)
        # 1-D cache: each pdf family
        lnf = [_q(rng, -1, 2), _q(rng, 0.5, 2) + 0.25]; gaf = [_q(rng, 0.5, 3) + 0.25, _q(rng, 0.5, 8)]
        gai = [float(rng.randint(1, 3)), float(rng.randint(2, 8))]; lni = [float(rng.randint(0, 2)), float(rng.randint(1, 2))]
        call('int1', gaf, th(), False, True, pdf1='gamma')
        call('int1', gai, 1.0, True, True, pdf1='gamma')
        call('int1', lnf, th(), True, True, pdf1='lognormal')
        call('int1', lni, th(), False, True, pdf1='lognormal')
        call('int1', [float(rng.randint(1, 8))], th(), True, True, pdf1='exponential')
        call('int1', [_q(rng, 0.5, 3) + 0.25, _q(rng, 1, 3)], th(), True, True, pdf1='beta')
        call('pp1', gaf + [pp, g], th(), True, True, pdf1='gamma', npos=1)
        call('pp1', lni + [0.0, g], th(), False, True, pdf1='lognormal', npos=1)
        # point masses / mixtures (each call costs a full exterior integration of the 2-D cache: reduced spelling lists)
        call('pp2', fr2('biv_lognormal', 3) + [pp, g, pq, g], th(), True, False, pdf2='biv_lognormal', rho=rng.choice([0.25, 0.5]))
        call('pp2', in2('biv_ind_gamma', 2) + [0.0, g, 0.0, g], th(), True, False, pdf2='biv_ind_gamma', rho=1.0)
        call('sympp2', fr2('biv_ind_gamma', 3) + [pp, g], th(), True, False, pdf2='biv_ind_gamma')
        call('mix', gaf + [0.5, 0.25], th(), False, True, pdf1='gamma', pdf2='biv_ind_gamma')
        call('mix', lni + [0.0, 1.0], th(), True, False, pdf1='lognormal', pdf2='biv_lognormal')
        call('mixsym', gaf + [0.5, pp, g, 0.25], th(), True, False, pdf1='gamma', pdf2='biv_ind_gamma')
        call('mixpp', lnf + [0.5, pp, g, pq, g, 0.5], th(), True, False, pdf1='lognormal', pdf2='biv_lognormal')
        call('vourlaki', gaf + [pp, g, 0.5, 0.75], th(), True, False)
        call('vourlaki', gai + [0.0, g, 1.0, 0.0], th(), True, False)
        int_blocks.append(blk)
    return {'pdf_blocks': pdf_blocks, 'int_blocks': int_blocks}

# ---- running ------------------------------------------------------------------------------------------------------------------------
def run_impl(payload, timeout):
    from harness import overlay
    p = subprocess.Popen([lib.PY, os.path.join(lib.HARNESS, 'impl', 'c17_impl_types.py')], stdin=subprocess.PIPE, stdout=subprocess.PIPE,
                         stderr=subprocess.PIPE, text=True, env=overlay.env(), cwd=lib.BUILD, start_new_session=True)
    try:
        out, err = p.communicate(json.dumps(payload), timeout=timeout)
    except subprocess.TimeoutExpired:
        try:
            os.killpg(p.pid, signal.SIGKILL)
        except ProcessLookupError:
            pass
        p.communicate()
        raise
    if p.returncode != 0:
        raise RuntimeError('c17_impl_types.py failed (rc=%d):\n%s' % (p.returncode, err[-3000:]))
    lines = [l for l in out.splitlines() if l.startswith('{')]
    return json.loads(lines[-1])

def _split(req, n):
    """n requests of about equal cost (int blocks are split by calls)"""
    parts = [{'pdf_blocks': [], 'int_blocks': []} for _ in range(n)]
    for i, b in enumerate(req['pdf_blocks']):
        parts[i % n]['pdf_blocks'].append(b)
    for b in req['int_blocks']:
        calls = sorted(b['calls'], key=lambda c: -len(c['variants']) * (8 if (c['ext'] or c['fn'] not in ('int1', 'int2', 'mix')) else 1))
        for j in range(n):
            sub = calls[j::n]
            if sub:
                parts[j]['int_blocks'].append({'id': b['id'], 'cache': b['cache'], 'calls': sub})
    return parts

class Stream:
    """runs the driver in background threads (2 interpreters), evaluation happens in finish() on the caller's thread"""
    def __init__(self, ctx, req, procs=2, timeout=900):
        self.ctx, self.req, self.t0 = ctx, req, time.time()
        self.parts = _split(req, procs)
        self.out = [None] * procs
        self.err = [None] * procs
        def work(i):
            try:
                self.out[i] = run_impl(self.parts[i], timeout)
            except Exception as e:          # evaluated in finish()
                self.err[i] = e
        self.threads = [threading.Thread(target=work, args=(i,), daemon=True) for i in range(procs)]
        for t in self.threads:
            t.start()

    def finish(self):
        for t in self.threads:
            t.join()
        ctx = self.ctx
        for e in self.err:
            if e is not None:
                ctx.obligation('types stream: the driver ran to completion', False, 'correspondence', repr(e)[:500])
                return 0
        pdf_out, int_out = {}, {}
        for o in self.out:
            for b in o['pdf_blocks']:
                pdf_out[b['id']] = b
            for b in o['int_blocks']:
                d = int_out.setdefault(b['id'], {'id': b['id'], 'calls': []})
                if 'build_error' in b:
                    d['build_error'] = b['build_error']
                d['calls'] += b.get('calls', [])
        n = evaluate(ctx, self.req, pdf_out, int_out)
        ctx.notes.append('phase types stream: %.1fs wall (overlapping the other phases)' % (time.time() - self.t0))
        return n

# ---- evaluation -----------------------------------------------------------------------------------------------------------------------
def _num(x):
    return isinstance(x, (int, float)) and not isinstance(x, bool)

def _cmp(got, want, mode, tol, masks=True):
    """message or None.  mode 'rel': per entry relative (pdf values); 'scale': tol x max|entry| of the canonical result"""
    if got['shape'] != want['shape']:
        return 'shape %r, canonical spelling gives %r' % (got['shape'], want['shape'])
    if masks and got['mask'] != want['mask']:
        return 'mask differs from the canonical spelling'
    vals = [b for b, m in zip(want['res'], want['mask']) if not m]
    scale = max([abs(b) for b in vals if _num(b)] + [1e-300])
    for i, (a, b, m) in enumerate(zip(got['res'], want['res'], want['mask'])):
        if m:
            continue
        if not _num(a) or not _num(b):
            if a != b:
                return 'entry %d = %r, canonical spelling gives %r' % (i, a, b)
            continue
        lim = tol * max(abs(a), abs(b)) if mode == 'rel' else tol * scale
        if abs(a - b) > lim:
            return 'entry %d = %r, canonical spelling gives %r' % (i, a, b)
    return None

def evaluate(ctx, req, pdf_out, int_out):
    nviol = 0
    observed = {}
    seen_fail = set()
    over = []
    def status(rec, canon, mode, tol_exact):
        if 'over_budget' in rec:
            return 'over-budget', None
        if 'skipped' in rec:
            return 'skipped', None
        if 'error' in rec:
            return 'raises', rec['error']
        if 'error' in canon:
            return 'returns-where-canonical-raises', None
        for cls in ('exact', 'f32', 'f16'):
            t = tol_exact if cls == 'exact' else TOL[cls]
            msg = _cmp(rec, canon, mode, t)
            if msg is None:
                return cls, None
        return 'differs', msg
    def judge(level, fn, arg, kind, ext, rec, canon, mode, tol_exact, describe, data):
        """one variant.  Returns 1 if a violation was reported"""
        st, msg = status(rec, canon, mode, tol_exact)
        observed.setdefault('%s %s %s:%s' % (level, fn, arg, kind), set()).add(st)
        if st == 'skipped':
            ctx.count('types skipped (numbers not representable in the spelling)')
            return 0
        if st == 'over-budget':
            over.append(describe)
            return 0
        want = expected(level, fn, arg.split('-')[0] if level == 'pdf' else arg.split('+')[0], kind.split('+')[0], ext)
        if level != 'pdf' and '+' in arg:          # several arguments: the weakest class of its parts
            w2 = expected(level, fn, 'theta', kind.split('+')[1], ext)
            order = [None, 'f16', 'f32', 'exact']
            ws = [want, w2] + ([expected(level, fn, 'rho', kind.split('+')[1], ext)] if fn == 'pp2' else [])
            want = order[min(order.index(w) for w in ws)]
        if want is None:
            ctx.count('types: spelling the unchanged library rejects / treats differently: %s %s:%s -> %s' % ('PDFs.biv_*' if level == 'pdf' else FN[fn], arg, kind, 'same' if st in TOL else st))
            return 0
        if 'error' in canon:
            ctx.count('types: canonical call raises (%s)' % fn)
            return 0
        ctx.count('types %s %s -> %s' % (level, arg.split('-')[0], 'same as canonical'))
        bad = []
        order = ['exact', 'f32', 'f16']
        if st not in order or order.index(st) > order.index(want):
            bad.append(('raised ' + msg) if st == 'raises' else (msg or st))
        else:
            if rec.get('type') != canon.get('type'):
                bad.append('returns a %s, the canonical spelling a %s' % (rec.get('type'), canon.get('type')))
            if not rec.get('again_same', True):
                bad.append('second call with the same argument objects differs from the first (%r)' % (rec.get('again'),))
            if not (rec.get('unchanged', True) and rec.get('unchanged2', True)):
                bad.append('the caller\'s argument objects were modified')
        if not bad:
            return 0
        key = (level, fn, arg, kind)
        what = '%s: %s' % (describe, '; '.join(str(b) for b in bad[:3]))
        ctx.obligation('types: %s' % describe, False, 'predicate', '; '.join(str(b) for b in bad[:3])[:300])
        k4 = (level, fn, arg, _dtype_of(kind.split('+')[0]))
        if k4 in seen_fail:
            return 1                                 # the same entry point / argument / dtype already has a replay
        seen_fail.add(k4)
        ctx.violation(what[:600], data=data, key=None)
        return 1

    # ---- (P)
    ok_ref = True
    for b in req['pdf_blocks']:
        o = pdf_out.get(b['id'])
        canon, py = o['canon'], o['py']
        ctx.case(signature=('types-pdf', b['pdf'], tuple(b['params']), tuple(b['xx']), tuple(b['yy'])))
        ctx.count('types pdf block %s/%d %s' % (b['pdf'], len(b['params']), b['cls']))
        if 'error' in canon or 'error' in py:
            ctx.obligation('types: canonical compiled %s and its reference formula evaluate' % b['pdf'], False, 'correspondence', repr((canon, py))[:300])
            ctx.violation('%s%r raised on float64 arrays: %r' % (b['pdf'], tuple(b['params']), canon.get('error') or py.get('error')),
                          data={'types_case': {'pdf_block': dict(b, variants=[])}}, key=None)
            nviol += 1
            continue
        m = _cmp(canon, py, 'rel', PDF_REL)
        if m is not None:
            ok_ref = False
            ctx.violation('compiled %s%r differs from the reference formula on float64 arrays: %s' % (b['pdf'], tuple(b['params']), m),
                          data={'types_case': {'pdf_block': dict(b, variants=[])}}, key=None)
            nviol += 1
        recs = {r['vid']: r for r in o['variants']}
        for v in b['variants']:
            desc = 'PDFs.%s(xx=%r, yy=%r, params=%r) with %s spelled %s' % (b['pdf'], b['xx'], b['yy'], b['params'], v['arg'], v['kind']
                                                                               if v['arg'] != 'all' else v['kind'] + ' (all three)')
            nviol += judge('pdf', b['pdf'], v['arg'], v['kind'], True, recs[v['vid']], canon, 'rel', PDF_REL, desc,
                           {'types_case': {'pdf_block': dict(b, variants=[v])}})
    ctx.obligation('types: compiled pdfs on canonical float64 arrays = reference formulas (1e-11), %d blocks' % len(req['pdf_blocks']), ok_ref, 'correspondence')
    # ---- (I)
    ok_q = True
    for blk in req['int_blocks']:
        o = int_out.get(blk['id'])
        if o is None or 'build_error' in o:
            ctx.obligation('types: caches build', False, 'correspondence', (o or {}).get('build_error', 'missing'))
            continue
        recs = {c['cid']: c for c in o['calls']}
        for c in blk['calls']:
            rc = recs[c['cid']]
            canon = rc['canon']
            ctx.case(signature=('types-int', c['fn'], c.get('pdf1'), c.get('pdf2'), tuple(c['params']), c['theta'], c['ext']))
            ctx.count('types call %s' % FN[c['fn']])
            one = lambda v: {'types_case': {'int_block': {'id': 0, 'cache': blk['cache'], 'calls': [dict(c, variants=[v] if v else [])]}}}
            if not rc.get('caches_unchanged', True):
                ctx.obligation('types: %s leaves the caches unchanged' % FN[c['fn']], False, 'predicate')
                ctx.violation('%s(params=%r) modified the cached spectra / gammas' % (FN[c['fn']], c['params']), data=one(None), key=None)
                nviol += 1
            if 'refquad' in rc and 'error' not in canon:
                m = _cmp(rc['refquad'], canon, 'scale', TOL['exact'], masks=False) if 'error' not in rc['refquad'] else rc['refquad']['error']
                if m is not None:
                    ok_q = False
                    ctx.violation('Cache2D.integrate(%r, %s, theta=%r, exterior_int=False) is not theta * trapezoid quadrature of the reference-pdf-weighted '
                                  'cached spectra: %s' % (c['params'], c['pdf2'], c['theta'], m), data=one(None), key=None)
                    nviol += 1
            vr = {r['vid']: r for r in rc['variants']}
            for v in c['variants']:
                desc = '%s(params=%r, %stheta=%r%s%s) with %s spelled %s' % (
                    FN[c['fn']], c['params'], ''.join('%s, ' % c[k] for k in ('pdf1', 'pdf2') if c.get(k)), c['theta'],
                    ', exterior_int=%r' % c['ext'] if c['fn'] in ('int1', 'pp1', 'int2', 'mix') else '', ', rho=%r' % c['rho'] if 'rho' in c else '',
                    v['arg'], v['kind'])
                ext_eff = c['ext'] if c['fn'] in ('int1', 'pp1', 'int2', 'mix') else True
                nviol += judge('int', c['fn'], v['arg'], v['kind'], ext_eff, vr[v['vid']], canon, 'scale', TOL['exact'], desc, one(v))
    ctx.obligation('types: canonical Cache2D.integrate without exterior integration = theta * trapezoid quadrature with the reference formulas', ok_q, 'predicate')
    # fail-closed: a variant that did not fit into the driver's time budget counts against the run unless a failing input was found anyway
    ctx.obligation('types: every spelled call was evaluated within the time budget of its entry point', not over or nviol > 0, 'predicate',
                   '%d not evaluated, first: %s' % (len(over), over[0][:200]) if over else '')
    nvar = sum(len(b['variants']) for b in req['pdf_blocks']) + sum(len(c['variants']) for blk in req['int_blocks'] for c in blk['calls'])
    ctx.obligation('types: %d spelled calls (compiled pdfs: %d spellings x {xx, yy, params, all}; %d scalar spellings; 9 integration entry points) agree with '
                   'the canonical spelling, repeat bit-identically and leave the caller\'s objects unchanged' % (nvar, len(ARRAY_KINDS), len(SCALAR_KINDS)),
                   nviol == 0, 'predicate')
    path = os.environ.get('C17_TYPES_DISCOVER')
    if path:
        with open(path, 'w') as f:
            json.dump({k: sorted(v) for k, v in sorted(observed.items())}, f, indent=0)
    return nviol

def replay(ctx, case):
    req = {'pdf_blocks': [case['pdf_block']] if 'pdf_block' in case else [], 'int_blocks': [case['int_block']] if 'int_block' in case else []}
    for b in req['pdf_blocks']:
        b.setdefault('cls', 'replay')
    return Stream(ctx, req, procs=1).finish()
