"""C01 — one-population SFS against exact coalescent / selection-equilibrium theory  (proof, PARTIAL).

Static theorems (coq/theories/Props/C01.v): the equilibrium density of PhiManip.phi_1D (faithful model,
Model/Equilibrium.v) is a stationary solution of the documented drift-selection equation for every nu
(genic closed form; general h given the quadrature oracle), both code paths agree at h = 1/2, non-negativity and
finiteness of the genic form, quantitative continuity at the gamma = 0 switch, bounds on the gaps at the
|gamma| = 300 guards, the Beta-integral identity behind theta/i, and the coalescent oracle's constant-size value.

Per run (this file):
  (i)  correspondence of PhiManip.phi_1D with the model on all regimes (evaluated in Coq on NumD, quadrature slot
       filled by a Gauss-Legendre rule written in Coq), finiteness / non-negativity / continuity across the
       switches evaluated on the implementation;
  (iii) Integration.one_pop with every argument of its signature (initial_t, frozen, deme_ids, each parameter as number /
       constant function / linear function of absolute time) entry by entry against the model drivers of Model/NDSweep.v
       STARTED AT initial_t, the chaining identity (one call = two calls split at a step boundary) on the real code, and
       histories handed over as functions of ABSOLUTE time (nu, theta0, gamma) integrated in one call from 0, in chained
       calls (initial_t = start, T = end of each epoch) and with a moved time origin, all against the same oracle;
  (ii) the NUMERICAL half, checked not proved (no finite-difference convergence theory is available in the
       installed libraries): generated size histories run through the real code at timescale_factor 1e-3 and
       1e-4 against the Coq-evaluated coalescent oracle / closed-form selection equilibrium, and stationarity of
       the equilibrium density under further integration.
"""
import ast, json, math, os, re
from fractions import Fraction
from harness import lib, numgen
from harness.lib import q, ql, b, zzl

TOL_DENS = Fraction(1, 10 ** 7)
HEADER = ('From Coq Require Import ZArith QArith List.\n'
          'From Dadi Require Import Base.Num Base.NumQ Base.NumD Model.DFast Model.Equilibrium Model.Coalescent Model.EquilibriumCheck.\n'
          'Import ListNotations.\nOpen Scope Q_scope.')
KEY_NU = 'phi_1D:gamma-not-multiplied-by-nu'
KEY_TINY = 'phi_1D_genic:tiny-gamma-cancellation'
KEY_COARSE = 'one_pop:coarse-grid-exceeds-1.5pct'
KEY_WINDOW = 'phi_1D:overflow-guard-window'
KEY_QUAD = 'phi_1D:quad-subdivision-limit'
LN_DBL_MAX = 709.782712893384

def read_guard(ctx):
    """the overflow guard of the general-h path, read off the current source of PhiManip.phi_1D:
         if gamma < 0 and numpy.isinf(numpy.exp(-2*gamma)):   -> threshold ln(DBL_MAX)
         if gamma < 0 and -2*gamma > <number>:                -> threshold <number>
    anything else is refused (fail closed)."""
    try:
        tree = ast.parse(open(os.path.join(lib.REPO, 'dadi', 'PhiManip.py')).read())
        fn = [n for n in tree.body if isinstance(n, ast.FunctionDef) and n.name == 'phi_1D'][0]
        found = []
        for node in ast.walk(fn):
            if isinstance(node, ast.If) and isinstance(node.test, ast.BoolOp) and isinstance(node.test.op, ast.And) and len(node.test.values) == 2:
                a, bb = node.test.values
                if ast.unparse(a).replace(' ', '') != 'gamma<0':
                    continue
                body = ast.unparse(node.body[0]).replace(' ', '') if len(node.body) == 1 else ''
                if body != 'Qadjust=-2*gamma':
                    continue
                t = ast.unparse(bb).replace(' ', '')
                if t in ('numpy.isinf(numpy.exp(-2*gamma))', 'np.isinf(np.exp(-2*gamma))'):
                    found.append(LN_DBL_MAX)
                else:
                    m = re.fullmatch(r'-2\*gamma>(\d+(?:\.\d*)?)', t)
                    if m:
                        found.append(float(m.group(1)))
        if len(found) != 1:
            raise ValueError('overflow guard of phi_1D not recognised (%r)' % (found,))
        ctx.obligation('translate the overflow guard of PhiManip.phi_1D (Qadjust iff gamma < 0 and -2*gamma > %r)' % found[0], True, 'translator')
        return found[0]
    except Exception as e:
        ctx.obligation('translate the overflow guard of PhiManip.phi_1D', False, 'translator', repr(e))
        return LN_DBL_MAX

# ------------------------------------------------------------------------------------------------
# (i) density

G_FORCED = [0.0, 1e-8, -1e-8, 1e-4, -1e-4, 0.01, -0.01, 0.5, -1.0, 3.0, -10.0, 40.0, -100.0, 250.0,
            299.9, 300.0, 300.1, -299.9, -300.0, -300.1, -354.0, -356.0, 600.0, 1e3, -1e3, -1e4, -1e5, -1e6]
H_FORCED = [0.5, 0.0, 0.2, 0.5 - 1e-9, 0.5 + 1e-9, 1.0]
TINY = 1e-5                 # below: 1 - exp(-2 g (1-x)) loses more than 1e-7 to cancellation in float64 (grids reach 1-x ~ 4e-4)

class Findings:
    """several failing inputs of one defect are reported as ONE violation (first input as replay, the others listed)"""
    def __init__(self, ctx):
        self.ctx = ctx; self.by = {}
    def add(self, key, what, data):
        self.by.setdefault(key, []).append((what, data))
    def flush(self):
        for key, items in self.by.items():
            what, data = items[0]
            if len(items) > 1:
                what += '  [+%d more inputs of the same class]' % (len(items) - 1)
                data = dict(data); data['other_inputs'] = [d.get('case') for _, d in items[1:20]]
            self.ctx.violation(what, data=data, key=key if isinstance(key, str) else None)
        self.by = {}

def g_eff(c):
    return c['gamma'] * c['nu'] * 4 * c['beta'] / (c['beta'] + 1) ** 2

def in_window(g, guard):
    """-2g so large that quad's own arithmetic overflows on exp(-Q) although the guard (Qadjust) is not yet active"""
    return g < 0 and LN_DBL_MAX - 1.0 < -2 * g <= guard

def near_switch(g, guard):
    """effective coefficient within rounding distance of a branch point (only reachable when nu, beta make it inexact)"""
    return any(abs(abs(g) - t) < 1e-6 * t for t in (300.0, guard / 2)) or (g != 0 and abs(g) < TINY) or in_window(g, guard)

def gen_density(ctx, guard):
    rng = ctx.rng
    cases = []
    def add(gamma, h, nu=1.0, theta0=1.0, beta=1.0, grid=None, via=None):
        c = {'kind': 'dens', 'gamma': gamma, 'h': h, 'nu': nu, 'theta0': theta0, 'beta': beta}
        if via:
            c['via'] = via
        if grid is None:
            c['pts'] = rng.choice([8, 10, 12, 14, 16, 20])
        elif isinstance(grid, int):
            c['pts'] = grid
        else:
            c['xx'] = grid
        cases.append(c)
    # forced regime grid, nu = beta = 1 so that the thresholds are hit exactly
    if ctx.quick:
        for i, g in enumerate(G_FORCED):
            add(g, 0.5)
            add(g, H_FORCED[1 + i % 5])
    else:
        for g in G_FORCED:
            for h in H_FORCED:
                add(g, h)
    # just above the overflow guard of the general-h path
    for g in (-354.8, -354.6):
        for h in (0.0, 0.3, 1.0):
            add(g, h, grid=12)
    # sharply peaked integrand (width 1/(4|gamma|) at h = 0): scipy's quad needs more than its default 50 subdivisions
    add(-125696.0, 0.0, grid=12)
    # random parameters (nu, theta0, beta included), gamma log-uniform in magnitude
    nrand = ctx.pick(60, 2000) - len(cases)
    k = 0
    while k < max(nrand, 0):
        mag = math.exp(rng.uniform(math.log(1e-5), math.log(1e6)))
        gamma = numgen.logdy(rng, mag, mag * 1.0001, 8)
        if rng.random() < 0.6 or gamma > 1e3:
            gamma = -gamma
        if gamma > 1e3:
            continue
        nu = numgen.logdy(rng, 0.1, 10) if rng.random() < 0.8 else 1.0
        beta = numgen.logdy(rng, 0.2, 5) if rng.random() < 0.5 else 1.0
        theta0 = numgen.logdy(rng, 0.01, 100) if rng.random() < 0.7 else 1.0
        h = rng.choice([0.5, 0.5, 0.0, 1.0, lib.dyadic(rng, 0, 1, 6), lib.dyadic(rng, 0, 1, 6)])
        c = {'gamma': gamma, 'nu': nu, 'beta': beta}
        ge = g_eff(c)
        if near_switch(ge, guard) or abs(ge) > 1.2e6:
            continue
        grid = None; via = None
        r = rng.random()
        if h == 0.5 and r < 0.25:
            grid = numgen.grid(rng, rng.randint(5, 12), exact_ends=(rng.random() < 0.4))   # incl. grids not starting at 0 / ending at 1
            via = 'genic'
        elif r < 0.2:
            grid = numgen.grid(rng, rng.randint(5, 12), exact_ends=True)
        add(gamma, h, nu, theta0, beta, grid, via)
        k += 1
    for i, c in enumerate(cases):
        c['id'] = i
    return cases

def coq_dens(c, xx, phi, guard):
    return '{| dn_ovf := %s; dn_xs := %s; dn_nu := %s; dn_theta0 := %s; dn_gamma := %s; dn_h := %s; dn_beta := %s; dn_impl := %s |}' % (
        q(Fraction(repr(guard))), zzl(xx), q(c['nu']), q(c['theta0']), q(c['gamma']), q(c['h']), q(c['beta']), zzl(phi))

def snm_ref(xx, c):
    bf = 4 * c['beta'] / (c['beta'] + 1) ** 2
    v = [c['nu'] * c['theta0'] / x * bf if x != 0 else None for x in xx]
    if v[0] is None:
        v[0] = v[1]
    return v

def pdesc(c):
    return 'gamma=%r h=%r nu=%r theta0=%r beta=%r' % (c['gamma'], c['h'], c['nu'], c['theta0'], c['beta'])

def density_part(ctx, guard, fnd):
    cases = gen_density(ctx, guard)
    if ctx.replay:
        rp = json.load(open(ctx.replay))
        if rp.get('input') and rp['input'].get('case', {}).get('kind') == 'dens':
            c = rp['input']['case']; c['id'] = 0; cases = [c]
        elif rp.get('input') and 'case' in rp['input']:
            cases = []
    res = lib.run_impl('c01_impl.py', cases, timeout=1800)
    byid = {r['id']: r for r in res}
    exprs = []; meta = {}
    for c in cases:
        r = byid[c['id']]
        ge = g_eff(c)
        regime = ('g=0' if ge == 0 else 'tiny' if abs(ge) < 1e-3 else 'g<-guard' if -2 * ge > guard else 'guard window' if in_window(ge, guard) else
                  'g<=-300' if ge <= -300 else 'g>=300' if ge >= 300 else 'neg' if ge < 0 else 'pos')
        ctx.count('dens %s %s' % ('h=.5' if c['h'] == 0.5 else 'h~.5' if abs(c['h'] - 0.5) < 1e-6 else 'h general', regime))
        if 'error' in r:
            ctx.obligation('dens case %d runs' % c['id'], False, 'correspondence', r['error'])
            ctx.violation('phi_1D raised %s (%s)' % (r['error'], pdesc(c)), data={'case': c, 'impl': r})
            continue
        phi = r['phi']; xx = r['xx']
        ctx.case(signature=None if c['gamma'] == 0 else ('dens', json.dumps(c, sort_keys=True)),
                 sample={'case': c, 'phi_head': phi[:3], 'phi_tail': phi[-3:]} if c['id'] % 23 == 0 else None)
        # finiteness / non-negativity on the implementation (property clause)
        bad = [i for i, v in enumerate(phi) if isinstance(v, str)]
        ctx.obligation('dens case %d finite and non-negative: %s' % (c['id'], pdesc(c)), not bad and min(phi) >= 0, 'predicate',
                       '' if not bad else 'entry %d is %s' % (bad[0], phi[bad[0]]))
        if bad:
            key = KEY_WINDOW if (c['h'] != 0.5 and in_window(ge, guard)) else None
            ctx.obligations[-1]['known_key'] = key
            fnd.add(key or ('nonfinite', c['id']), 'phi_1D returns a non-finite density (entry %d is %s) for %s%s' % (
                bad[0], phi[bad[0]], pdesc(c), ': exp(-2*gamma) is still finite, so Qadjust is not applied, but the quadrature overflows' if key else ''),
                {'case': c, 'impl': r})
            continue
        if min(phi) < 0:
            ctx.violation('phi_1D returned a negative density entry %r (%s)' % (min(phi), pdesc(c)), data={'case': c, 'impl': r})
        exprs.append((c['id'], coq_dens(c, xx, phi, guard)))
        meta[c['id']] = (c, r)
    results = ctx.coq_cases('dens', HEADER, exprs, '(dens_check 30 1 %s)' % q(TOL_DENS), 'rel 1e-7 per entry (abs floor 1e-301)', shard=ctx.pick(4, 40), timeout=2400)
    nbad = 0
    for cid, (c, r) in meta.items():
        rr = results.get(cid)
        ok = rr is not None and rr[0]
        ctx.obligation('dens case %d = closed-form model: %s' % (cid, pdesc(c)), ok, 'correspondence', '' if ok else 'coq %r' % (rr,))
        if not ok:
            tiny = c['h'] == 0.5 and 0 < abs(g_eff(c)) < TINY
            if tiny:
                # float cancellation in (1-exp(-2g(1-x)))/(1-exp(-2g)): the density is not continuous at the gamma = 0 switch in float64
                ctx.obligations[-1]['known_key'] = KEY_TINY
                ref = snm_ref(r['xx'], c)
                dev = max(abs(a - bb) / bb for a, bb in zip(r['phi'][1:-1], ref[1:-1]))
                fnd.add(KEY_TINY, 'phi_1D_genic loses accuracy to cancellation near gamma = 0: gamma=%r gives entries %.3g (relative) away from the neutral density, exact theory says <= %.1g' % (
                    c['gamma'], dev, 3 * abs(g_eff(c))), {'case': c, 'impl': r, 'coq': rr})
                continue
            if c['h'] != 0.5 and r.get('quad_limit_warnings', 0) > 0 and rr is not None:
                # scipy.integrate.quad gave up at its subdivision limit (it says so in an IntegrationWarning): the oracle slot did not return the integral
                ctx.obligations[-1]['known_key'] = KEY_QUAD
                fnd.add(KEY_QUAD, 'phi_1D is off by 2^%d relative from the closed-form equilibrium density for %s: scipy.integrate.quad stops at its limit of 50 subdivisions (IntegrationWarning, %d times) on the sharply peaked integrand exp(-Q)' % (
                    rr[1], pdesc(c), r['quad_limit_warnings']), {'case': c, 'impl': r, 'coq': rr})
                continue
            nbad += 1
            if nbad <= 3:
                ctx.violation('phi_1D differs from the closed-form equilibrium density (model) beyond 1e-7: %s (log2 rel err %r)' % (pdesc(c), rr),
                              data={'case': c, 'impl': r, 'coq': rr})

def continuity_part(ctx, guard, fnd):
    """continuity across the switches, evaluated on the implementation alone (pairs straddling each switch)"""
    probes = []
    def pair(tag, a, bb, scale_tol, key=None):
        probes.append((tag, a, bb, scale_tol, key))
    base = {'kind': 'dens', 'nu': 1.0, 'theta0': 1.0, 'beta': 1.0, 'pts': 16}
    # gamma = 0 switch (genic and general h): |phi(g) - phi(0)| <= C |g|  (theorem: C = 2 e^{2|g|}/x relative to 1/x -> rel 2.1|g|)
    for g in [1e-3, -1e-3, 1e-5, -1e-5]:
        pair('gamma0', dict(base, gamma=g, h=0.5), dict(base, gamma=0.0, h=0.5), 3 * abs(g) + 2e-7)
    for g in [1e-3, -1e-5, 1e-8, -1e-8, 1e-12]:
        pair('gamma0', dict(base, gamma=g, h=0.2), dict(base, gamma=0.0, h=0.2), 3 * abs(g) + 2e-7)
    # far below: float cancellation region of the genic closed form (normal floats only; denormal gamma is not probed)
    for g in [1e-7, -1e-8, 1e-9, -1e-10, 1e-12, -1e-14, 1e-16, -1e-17, 1e-100, -1e-300]:
        pair('gamma0-tiny', dict(base, gamma=g, h=0.5), dict(base, gamma=0.0, h=0.5), 2e-6, KEY_TINY)
    # |gamma| = 300 guards and the overflow guard of the general-h path; h = 0.5 switch
    for h in [0.5, 0.0, 0.3, 1.0]:
        for g0 in [-300.0, 300.0] + ([-guard / 2] if h != 0.5 else []):
            d = abs(g0) * 2.0 ** -40
            pair('guard%g' % g0, dict(base, gamma=g0 - d, h=h), dict(base, gamma=g0 + d, h=h), 1e-9,
                 KEY_WINDOW if (h != 0.5 and in_window(g0 + d, guard)) else None)
    for g in [-1e6, -1e4, -400.0, -300.0, -299.0, -30.0, -1.0, 1e-3, 2.0, 50.0, 299.0, 300.0, 1e3]:
        pair('h=.5', dict(base, gamma=g, h=0.5 - 1e-9), dict(base, gamma=g, h=0.5), 1e-6)
        pair('h=.5', dict(base, gamma=g, h=0.5 + 1e-9), dict(base, gamma=g, h=0.5), 1e-6)
    cases = []
    for tag, a, bb, tol, key in probes:
        a['id'] = len(cases); cases.append(a)
        bb['id'] = len(cases); cases.append(bb)
    res = lib.run_impl('c01_impl.py', cases, timeout=900)
    byid = {r['id']: r for r in res}
    for tag, a, bb, tol, key in probes:
        ra, rb = byid[a['id']], byid[bb['id']]
        ctx.count('continuity ' + tag)
        name = 'continuity across %s: gamma=%r,h=%r vs gamma=%r,h=%r' % (tag, a['gamma'], a['h'], bb['gamma'], bb['h'])
        if 'error' in ra or 'error' in rb:
            ctx.obligation(name, False, 'predicate', ra.get('error') or rb.get('error'))
            ctx.violation('phi_1D raised: %s' % (ra.get('error') or rb.get('error')), data={'a': a, 'b': bb})
            continue
        pa, pb = ra['phi'], rb['phi']
        nonfin = [v for v in pa + pb if isinstance(v, str)]
        if nonfin:
            dev = float('inf')
        else:
            scale = max(max(pa), max(pb), 1e-300)
            # relative to each entry where it is not negligible against the largest one, else to the largest
            dev = max(abs(x - y) / max(abs(y), 1e-12 * scale) for x, y in zip(pa, pb))
        ok = dev <= tol
        ctx.obligation(name, ok, 'predicate', 'dev %.3g tol %.3g' % (dev, tol), )
        ctx.case(signature=('cont', tag, a['gamma'], a['h']))
        if not ok:
            ctx.obligations[-1]['known_key'] = key
            what = 'equilibrium density jumps across the %s switch: phi_1D(gamma=%r, h=%r) vs phi_1D(gamma=%r, h=%r) differ by %.3g relative%s' % (
                tag, a['gamma'], a['h'], bb['gamma'], bb['h'], dev, ' (non-finite entries)' if nonfin else '')
            data = {'case': a, 'other': bb, 'phi': pa, 'phi_other': pb}
            if key:
                fnd.add(key, what, data)
            else:
                ctx.violation(what, data=data)

# ------------------------------------------------------------------------------------------------
# (ii) numerical half

def rnd_hist(rng, ne):
    return [{'kind': 'const', 'nu': numgen.logdy(rng, 0.05, 20), 'T': numgen.logdy(rng, 0.005, 3)} for _ in range(ne)]

def gen_histories(ctx):
    rng = ctx.rng
    N = ctx.pick(10, 150)
    vias = ['const', 'func', 'two_epoch', 'three_epoch', 'growth', 'bottlegrowth', 'equil', 'two_epoch_sel', 'const', 'func', 'snm']
    cases = []
    for k in range(N):
        via = vias[k % len(vias)] if k < len(vias) or rng.random() < 0.5 else rng.choice(['const', 'func', 'genexp'])
        n = rng.randint(2, 30)
        if k % 7 == 3:
            n = rng.choice([2, 3, 29, 30])
        coarse = not ctx.quick and rng.random() < 0.06
        p0 = rng.randint(max(n, 10), 39) if coarse else rng.randint(max(n, 40), 70)
        c = {'kind': 'hist', 'via': via, 'n': n, 'pts_l': [p0, p0 + 10, p0 + 20], 'extrap': rng.choice(['lin', 'log']),
             'tfs': [1e-3, 1e-4], 'theta0': 1.0, 'coarse': coarse}
        if via in ('const', 'func', 'genexp'):
            h = rnd_hist(rng, rng.randint(1, 4))
            if via == 'genexp':
                # one epoch replaced by exponential change between its neighbours' sizes
                j = rng.randrange(len(h))
                a = numgen.logdy(rng, 0.05, 20); bb = numgen.logdy(rng, 0.05, 20)
                if a != bb:
                    h[j] = {'kind': 'exp', 'nu_start': a, 'nu_end': bb, 'T': h[j]['T']}
                c['via'] = 'func'
            c['hist'] = h
            c['theta0'] = rng.choice([1.0, 1.0, numgen.logdy(rng, 0.1, 10)])
        elif via == 'snm':
            c['hist'] = []; c['params'] = []
        elif via == 'two_epoch':
            h = rnd_hist(rng, 1); c['hist'] = h; c['params'] = [h[0]['nu'], h[0]['T']]
        elif via == 'three_epoch':
            h = rnd_hist(rng, 2); c['hist'] = h; c['params'] = [h[0]['nu'], h[1]['nu'], h[0]['T'], h[1]['T']]
        elif via == 'growth':
            nu = numgen.logdy(rng, 0.05, 20); T = numgen.logdy(rng, 0.005, 3)
            if nu == 1.0:
                nu = 2.0
            c['hist'] = [{'kind': 'exp', 'nu_start': 1.0, 'nu_end': nu, 'T': T}]; c['params'] = [nu, T]
        elif via == 'bottlegrowth':
            nuB = numgen.logdy(rng, 0.05, 20); nuF = numgen.logdy(rng, 0.05, 20); T = numgen.logdy(rng, 0.005, 3)
            if nuB == nuF:
                nuF = nuB * 2
            c['hist'] = [{'kind': 'exp', 'nu_start': nuB, 'nu_end': nuF, 'T': T}]; c['params'] = [nuB, nuF, T]
        elif via == 'equil':
            g = lib.dyadic(rng, -20, 8, 3)
            c['sel'] = {'g': g, 'scale': 1.0, 'res': abs(g)}; c['params'] = [g]
        elif via == 'two_epoch_sel':
            g = lib.dyadic(rng, -20, 8, 3)
            r = rng.random()
            if r < 0.3:
                # neutral: coalescent oracle
                h = rnd_hist(rng, 1); c['hist'] = h; c['params'] = [h[0]['nu'], h[0]['T'], 0.0]
            elif r < 0.6:
                # same size: the equilibrium stays the equilibrium
                T = numgen.logdy(rng, 0.005, 3)
                g = lib.dyadic(rng, -10, 8, 3)
                # (integration lets the tiny high-frequency entries relax to the DISCRETE stationary state: needs a finer grid than sampling alone)
                c['sel'] = {'g': g, 'scale': 1.0, 'res': 3.5 * abs(g)}; c['params'] = [1.0, T, g]
            else:
                # long after the change (T/nu >= 25): the new equilibrium, effective coefficient gamma*nu, scale nu
                nu = numgen.logdy(rng, 0.05, 0.11); T = numgen.logdy(rng, 2.8, 3.0)
                g = lib.dyadic(rng, -40, 30, 2)
                c['sel'] = {'g': g * nu, 'scale': nu, 'res': max(abs(g * nu), abs(g) / 4)}; c['params'] = [nu, T, g]
        if 'sel' in c:
            # the selected density varies on the scale 1/(2|g|): the grid must resolve it (grid error, not time-step error)
            p0 = max(n, 40) + int(8 * c['sel']['res']) + rng.randint(0, 30)
            c['pts_l'] = [p0, p0 + 10, p0 + 20]; c['coarse'] = False
        c['id'] = len(cases)
        cases.append(c)
    # one fixed coarse grid list "at the sample size": grid error alone is ~4 % here (reported under KEY_COARSE)
    cases.append({'kind': 'hist', 'via': 'const', 'n': 9, 'pts_l': [9, 19, 29], 'extrap': 'lin', 'tfs': [1e-3, 1e-4], 'theta0': 1.0, 'coarse': True,
                  'hist': [{'kind': 'const', 'nu': 4.0, 'T': 0.125}, {'kind': 'const', 'nu': 0.3125, 'T': 1.125},
                           {'kind': 'const', 'nu': 2.0, 'T': 0.1875}, {'kind': 'const', 'nu': 2.5, 'T': 0.015625}], 'id': len(cases)})
    return cases

# histories handed to Integration.one_pop as functions of ABSOLUTE time, integrated piece by piece with initial_t / T
# or with a shifted time origin (one_pop's initial_t is "the time at which to start", T "the time at which to halt")

def _ep(nu, T, theta=1.0, gamma=0.0):
    if isinstance(nu, tuple):
        return {'kind': 'exp', 'nu_start': nu[0], 'nu_end': nu[1], 'T': T, 'theta': theta, 'gamma': gamma}
    return {'kind': 'const', 'nu': nu, 'T': T, 'theta': theta, 'gamma': gamma}

# (name, carrier = the argument whose time dependence the case isolates, epochs oldest first, theta of the ancestral epoch)
HISTX_FIXED = [
    ('N1', 'nu', [_ep(0.3, 0.2), _ep(3.0, 0.15), _ep(0.8, 0.3)], 1.0),
    ('N2', 'nu', [_ep(0.25, 0.0625), _ep((0.25, 4.0), 0.25), _ep(2.0, 0.125)], 1.0),
    ('T1', 'theta0', [_ep(2.0, 0.25, theta=3.0), _ep(2.0, 0.25, theta=0.5)], 1.0),
    ('T2', 'theta0', [_ep(0.5, 0.125, theta=2.0), _ep((0.5, 4.0), 0.25, theta=0.25), _ep(4.0, 0.125, theta=1.5)], 0.75),
    # selection changing with time: long after the last change (T/nu >= 12) the spectrum is the equilibrium of the LAST
    # coefficient; the earlier epochs are at least as long as the last one, so that a call which looks up gamma at the
    # wrong time never sees the last coefficient
    ('G1', 'gamma', [_ep(0.0625, 0.75, gamma=-24.0), _ep(0.0625, 0.75, gamma=16.0)], 1.0),
    ('G2', 'gamma', [_ep(0.125, 0.5, gamma=4.0), _ep(0.125, 1.0, gamma=-16.0), _ep(0.125, 1.5, gamma=-8.0)], 1.0),
]
HISTX_MODES = ['single', 'chained', 'shifted']

def histx_case(name, carrier, epochs, theta_anc, mode, n, pts0, extrap, shift, split_at=None):
    edges = []; t = 0.0
    for e in epochs:
        t = t + e['T']; edges.append(t)
    Ttot = edges[-1]
    if mode in ('single', 'shifted'):
        cuts = [0.0, Ttot]
    elif mode in ('chained', 'chained_shifted'):
        cuts = [0.0] + edges
    else:   # 'split': every epoch in several calls
        cuts = sorted(set([0.0] + edges + list(split_at or [])))
    s = shift if mode in ('shifted', 'chained_shifted') else 0.0
    # which arguments MUST be functions: those that change inside one call; plus the carrier
    need = {carrier}
    for a, bb in zip(cuts[:-1], cuts[1:]):
        inside = [e for e, st, en in zip(epochs, [0.0] + edges[:-1], edges) if st < bb - 1e-12 and en > a + 1e-12]
        if any(e['kind'] == 'exp' for e in inside) or len({e.get('nu') for e in inside}) > 1:
            need.add('nu')
        if len({e['theta'] for e in inside}) > 1:
            need.add('theta0')
        if len({e['gamma'] for e in inside}) > 1:
            need.add('gamma')
    c = {'kind': 'histx', 'name': name, 'carrier': carrier, 'mode': mode, 'epochs': epochs, 'theta_anc': theta_anc, 'cuts': cuts, 'shift': s,
         'as_func': sorted(need), 'outside': {'nu': 0.03125, 'theta': 8.0 * max(e['theta'] for e in epochs), 'gamma': -64.0},
         'n': n, 'pts_l': [pts0, pts0 + 10, pts0 + 20], 'extrap': extrap, 'tfs': [1e-3, 1e-4], 'coarse': False}
    if carrier == 'gamma':
        nu = epochs[-1]['nu']; g = epochs[-1]['gamma'] * nu
        c['sel'] = {'g': g, 'scale': nu * epochs[-1]['theta'], 'res': max([3.5 * abs(g)] + [abs(e['gamma'] * e['nu']) for e in epochs])}
        c['pts_l'] = [pts0 + int(8 * c['sel']['res']) + k for k in (0, 10, 20)]
    return c

def gen_histx(ctx):
    """systematic in every run: each fixed history x {one call from t = 0, chained calls with initial_t = start and T = end
    of every epoch, one call with the time origin moved} ; more (random histories, chained + moved origin, epochs cut in
    several calls) in the thorough tier.  Own random stream, so that the other generators are unaffected."""
    import random
    rng = random.Random('C01-histx-%d' % ctx.seed)
    cases = []
    for k, (name, carrier, eps, tha) in enumerate(HISTX_FIXED):
        n = rng.randint(6, 12) if carrier != 'gamma' else rng.randint(6, 20)     # one sample size per history: the oracle is evaluated once
        for m, mode in enumerate(HISTX_MODES):
            shift = lib.dyadic(rng, 1.5, 4.0, 3) if carrier != 'gamma' else lib.dyadic(rng, 1.0, 1.5, 3) + eps[-1]['T']
            cases.append(histx_case(name, carrier, eps, tha, mode, n, rng.randint(40, 50), ['lin', 'log'][(k + m) % 2], shift))
    if not ctx.quick:
        for rep in range(36):
            carrier = ['nu', 'theta0', 'nu', 'theta0', 'gamma'][rep % 5] if rep % 12 != 11 else 'gamma'
            if carrier == 'gamma':
                nu = numgen.logdy(rng, 0.0625, 0.125, 3)
                ne = rng.randint(2, 3)
                Tl = nu * lib.dyadic(rng, 12, 16, 1)
                gs = [lib.dyadic(rng, -2.0, 1.5, 2) / nu for _ in range(ne)]
                if abs(gs[-1] - gs[-2]) * nu < 0.75:
                    gs[-2] = gs[-1] - 1.5 / nu if gs[-1] > 0 else gs[-1] + 1.5 / nu
                eps = [_ep(nu, Tl * rng.choice([1.0, 1.25]), gamma=g) for g in gs[:-1]] + [_ep(nu, Tl, gamma=gs[-1])]
                tha = 1.0
            else:
                ne = rng.randint(1, 4)
                eps = []; prev = 1.0
                for j in range(ne):
                    # size changes by at most a factor 4 downwards from one epoch to the next: the time step of the first
                    # step of a call is estimated from the size BEFORE the change (documented inconsistency of the driver)
                    nu = numgen.logdy(rng, max(0.2, prev / 4), 5.0)
                    th = numgen.logdy(rng, 0.25, 4.0, 3) if carrier == 'theta0' else 1.0
                    T = numgen.logdy(rng, 0.03, 0.4)
                    if rng.random() < 0.3 and nu != prev and j > 0:
                        eps.append(_ep((prev, nu), T, theta=th))
                    else:
                        eps.append(_ep(nu, T, theta=th))
                    prev = nu
                tha = numgen.logdy(rng, 0.5, 2.0, 3) if carrier == 'theta0' else 1.0
                if carrier == 'theta0':
                    for e in eps:
                        e['theta'] = e['theta'] if rng.random() < 0.8 else tha
            mode = rng.choice(['single', 'chained', 'shifted', 'chained_shifted', 'split', 'split'])
            split_at = []
            if mode == 'split':
                t = 0.0
                for e in eps:
                    for f in sorted(rng.sample([0.125, 0.25, 0.5, 0.75], rng.randint(1, 2))):
                        split_at.append(t + f * e['T'])
                    t += e['T']
            n = rng.randint(3, 12) if carrier != 'gamma' else rng.randint(3, 24)
            shift = lib.dyadic(rng, 0.5, 6.0, 3) if carrier != 'gamma' else lib.dyadic(rng, 1.0, 1.5, 3) + eps[-1]['T']
            cases.append(histx_case('R%d' % rep, carrier, eps, tha, mode, n, rng.randint(40, 60), rng.choice(['lin', 'log']), shift, split_at))
    # the long ones first (pool with chunksize 1)
    cases.sort(key=lambda c: 0 if c['carrier'] == 'gamma' else 1)
    for i, c in enumerate(cases):
        c['id'] = 1000 + i
    return cases

def replay_filter(ctx, cases, kinds):
    """--replay: only the recorded case when it is one of `kinds`, nothing when it belongs to another part"""
    if not ctx.replay:
        return cases
    rp = json.load(open(ctx.replay))
    c = (rp.get('input') or {}).get('case')
    if isinstance(c, dict) and c.get('kind') in kinds:
        c = dict(c); c.setdefault('id', 0)
        return [c]
    if isinstance(c, dict):
        return []
    return cases

def start_histx(ctx):
    """the absolute-time histories run in the background (a separate interpreter) while the other parts are evaluated"""
    import concurrent.futures
    cases = replay_filter(ctx, gen_histx(ctx), ('histx',))
    if not cases:
        return [], None
    ex = concurrent.futures.ThreadPoolExecutor(1)
    fut = ex.submit(lib.run_impl, 'c01_impl.py', cases, 3000, {'C01_POOL': '4'})
    ex.shutdown(wait=False)
    return cases, fut

def coq_epochs_th(epochs):
    """oldest first -> most recent first: (is_exp, nu_recent, nu_old, T, theta)"""
    out = []
    for e in reversed(epochs):
        if e['kind'] == 'exp':
            out.append('(true, %s, %s, %s, %s)' % (q(e['nu_end']), q(e['nu_start']), q(e['T']), q(e['theta'])))
        else:
            out.append('(false, %s, %s, %s, %s)' % (q(e['nu']), q(e['nu']), q(e['T']), q(e['theta'])))
    return '[' + '; '.join(out) + ']'

def histx_desc(c):
    def ed(e):
        s = ('nu=%r->%r' % (e['nu_start'], e['nu_end'])) if e['kind'] == 'exp' else 'nu=%r' % e['nu']
        return '(%s T=%r theta0=%r gamma=%r)' % (s, e['T'], e['theta'], e['gamma'])
    calls = ', '.join('one_pop(T=%r, initial_t=%r)' % (c['shift'] + bb, c['shift'] + a) for a, bb in zip(c['cuts'][:-1], c['cuts'][1:]))
    return 'history %s as functions of absolute time (%s as function%s), epochs oldest first %s, ancestral theta0=%r, time origin at %r, calls: %s; n=%d pts=%r extrap=%s' % (
        c['name'], ', '.join(c['as_func']), 's' if len(c['as_func']) > 1 else '', ' '.join(ed(e) for e in c['epochs']), c['theta_anc'], c['shift'], calls,
        c['n'], c['pts_l'], c['extrap'])

def coq_epochs(hist):
    """history is oldest first; the oracle wants most recent first: (is_exp, nu_recent, nu_old, T)"""
    out = []
    for e in reversed(hist):
        if e['kind'] == 'exp':
            out.append('(true, %s, %s, %s)' % (q(e['nu_end']), q(e['nu_start']), q(e['T'])))
        else:
            out.append('(false, %s, %s, %s)' % (q(e['nu']), q(e['nu']), q(e['T'])))
    return '[' + '; '.join(out) + ']'

_PAIR = re.compile(r'\((-?\d+),\((-?\d+),(-?\d+)\)\)')

def pair_files(tag, exprs, fn, shard):
    """generated files: every case through `fn : case -> Z * Z`"""
    files = []
    for k in range(0, len(exprs), shard):
        chunk = exprs[k:k + shard]
        body = [HEADER, '']
        for cid, ex in chunk:
            body.append('Definition case_%d := %s.' % (cid, ex))
        body.append('Definition results := map (fun p => (fst p, %s (snd p))) [%s].' % (fn, '; '.join('(%d%%Z, case_%d)' % (cid, cid) for cid, _ in chunk)))
        body.append('Eval vm_compute in results.')
        files.append(('C01_%s_%d' % (tag, k // shard), '\n'.join(body) + '\n'))
    return files

def shared_oracle_file(name, oracle_expr, runs):
    """one oracle evaluation compared with several runs of the implementation: runs = [(id, fs3, fs4)]"""
    body = [HEADER, '',
            'Definition results := let o := %s in map (fun p => (fst p, (Dppb (Dmaxrel Dtiny o (z2D (fst (snd p)))), Dppb (Dmaxrel Dtiny o (z2D (snd (snd p))))))) [%s].' % (
                oracle_expr, '; '.join('(%d%%Z, (%s, %s))' % (cid, zzl(f3), zzl(f4)) for cid, f3, f4 in runs)),
            'Eval vm_compute in results.']
    return (name, '\n'.join(body) + '\n')

def run_files(ctx, files, what):
    """all files in ONE parallel batch; returns id -> (err at 1e-3, err at 1e-4)"""
    out = {}
    for nme, (rc, so, se, secs) in lib.run_case_files(files, timeout=2400).items():
        if os.environ.get('C01_DEBUG'):
            print('TIMING coqc %s %.1f s' % (nme, secs))
        if rc != 0:
            ctx.obligation('coqc %s' % nme, False, 'correspondence', se[-600:])
            continue
        s = re.sub(r'\s+', '', so).replace('%Z', '')
        for m in _PAIR.finditer(s):
            out[int(m.group(1))] = (int(m.group(2)) * 1e-9, int(m.group(3)) * 1e-9)
    ctx.checker_cmds.append('coqc -Q coq/theories Dadi build/cases/C01_{%s}_*.v  (oracles evaluated by vm_compute)' % what)
    return out

def conv_floor(p0, sel=False):
    """level of the grid error, below which the time-step error cannot be seen (selected densities: the discrete stationary state)"""
    return 0.010 if (p0 < 60 or sel) else 0.006 if p0 < 100 else 0.004

def history_part(ctx, xcases=(), xfut=None):
    cases = gen_histories(ctx)
    if ctx.replay:
        rp = json.load(open(ctx.replay))
        if rp.get('input') and rp['input'].get('case', {}).get('kind') == 'hist':
            c = rp['input']['case']; c['id'] = 0; cases = [c]
        elif rp.get('input') and 'case' in rp['input']:
            cases = []
    import time
    t0 = time.time()
    res = lib.run_impl('c01_impl.py', cases, timeout=3000) if cases else []
    t1 = time.time()
    if xfut is not None:
        res = res + xfut.result()
        cases = cases + list(xcases)
    if os.environ.get('C01_DEBUG'):
        print('TIMING hist impl %.1f s, waited %.1f s more for the absolute-time histories' % (t1 - t0, time.time() - t1))
    byid = {r['id']: r for r in res}
    hex_, sex, xruns = [], [], {}
    xf = Findings(ctx)
    for c in cases:
        r = byid[c['id']]
        if c['kind'] == 'histx':
            ctx.count('histx %s: %s as function, %s' % (c['name'], c['carrier'], c['mode'])); ctx.count('histx calls with initial_t <> 0', sum(1 for a in c['cuts'][:-1] if c['shift'] + a != 0))
        else:
            ctx.count('hist via=' + c['via']); ctx.count('hist extrap=' + c['extrap']); ctx.count('hist n<=5' if c['n'] <= 5 else 'hist n>=25' if c['n'] >= 25 else 'hist n mid')
            if 'hist' in c:
                ctx.count('hist epochs=%d' % len(c['hist']))
        if 'error' in r:
            ctx.obligation('hist case %d runs' % c['id'], False, 'predicate', r['error'])
            ctx.violation('one-population model raised %s%s' % (r['error'], (' (%s)' % histx_desc(c)) if c['kind'] == 'histx' else ''), data={'case': c, 'impl': r})
            continue
        f3 = r['fs'][repr(1e-3)][1:-1]; f4 = r['fs'][repr(1e-4)][1:-1]
        if not all(math.isfinite(v) for v in f3 + f4):
            ctx.violation('one-population spectrum has non-finite entries', data={'case': c, 'impl': r})
            continue
        if c['kind'] == 'histx':
            xruns[c['id']] = (f3, f4)
        elif 'sel' in c:
            g = c['sel']['g']
            terms = int(8 * abs(g)) + 80
            sex.append((c['id'], '{| sc_n := %d%%nat; sc_theta := %s; sc_g := %s; sc_terms := %d%%nat; sc_fs3 := %s; sc_fs4 := %s |}' % (
                c['n'], q(Fraction(c['sel']['scale'])), q(g), terms, zzl(f3), zzl(f4))))
        else:
            hex_.append((c['id'], '{| hc_n := %d%%nat; hc_eps := %s; hc_theta := %s; hc_fs3 := %s; hc_fs4 := %s |}' % (
                c['n'], coq_epochs(c['hist']), q(c.get('theta0', 1.0)), zzl(f3), zzl(f4))))
    files = []
    if hex_:
        files += pair_files('hist', hex_, 'hist_check', ctx.pick(1, 4))
    if sex:
        files += pair_files('sel', sex, 'sel_check', ctx.pick(1, 4))
    # absolute-time histories: the runs of one history with the same sample size share ONE evaluation of the oracle
    groups = {}
    for c in cases:
        if c['kind'] == 'histx' and c['id'] in xruns:
            groups.setdefault((c['name'], c['n']), []).append(c)
    for (name, n), cs in sorted(groups.items()):
        c = cs[0]
        if 'sel' in c:
            g = c['sel']['g']
            orc = 'sel_oracle {| sc_n := %d%%nat; sc_theta := %s; sc_g := %s; sc_terms := %d%%nat; sc_fs3 := []; sc_fs4 := [] |}' % (
                n, q(Fraction(c['sel']['scale'])), q(g), int(8 * abs(g)) + 80)
        else:
            orc = 'hist_th_oracle {| ht_n := %d%%nat; ht_eps := %s; ht_thA := %s; ht_fs3 := []; ht_fs4 := [] |}' % (n, coq_epochs_th(c['epochs']), q(c['theta_anc']))
        files.append(shared_oracle_file('C01_histx_%s_%d' % (name, n), orc, [(cc['id'],) + xruns[cc['id']] for cc in cs]))
    if groups:
        # the oracle with a theta per epoch against the constant-theta oracle where they must coincide (theorem
        # C01_coal_theta_per_epoch_uniform over R; here the two evaluations on NumDF)
        files += pair_files('histgap', [(999999, '(5%%nat, %s, 3#2)' % coq_epochs([{'kind': 'const', 'nu': 0.25, 'T': 0.0625}, {'kind': 'exp', 'nu_start': 0.25, 'nu_end': 4.0, 'T': 0.25},
                                                                                {'kind': 'const', 'nu': 2.0, 'T': 0.125}]))],
                            '(fun c => (hist_th_uniform_gap (fst (fst c)) (snd (fst c)) (snd c), 0%Z))', 1)
    errs = run_files(ctx, files, 'hist,sel,histx,histgap') if files else {}
    if groups:
        gap = errs.pop(999999, None)
        ctx.obligation('oracle with one theta per epoch = constant-theta oracle when all thetas are equal (evaluated: n = 5, three epochs)',
                       gap is not None and gap[0] <= 1e-9, 'correspondence', repr(gap))
    if os.environ.get('C01_DEBUG'):
        print('TIMING oracles evaluated %.1f s after the implementation runs' % (time.time() - t1))
    worst = 0.0
    for c in cases:
        if c['id'] not in errs:
            if 'error' not in byid[c['id']]:
                ctx.obligation('hist case %d oracle evaluated' % c['id'], False, 'correspondence', 'no result from Coq')
            continue
        e3, e4 = errs[c['id']]
        p0 = c['pts_l'][0]
        if os.environ.get('C01_DEBUG') and c['kind'] == 'hist':
            print('HIST', c['via'], c['n'], c['pts_l'], c['extrap'], c.get('params', c.get('hist')), c.get('sel'), 'err %.4g %.4g' % (e3, e4))
        if c['kind'] == 'histx':
            desc = histx_desc(c)
            if os.environ.get('C01_DEBUG'):
                print('HISTX', c['name'], c['carrier'], c['mode'], c['n'], c['pts_l'], c['extrap'], 'err %.4g %.4g' % (e3, e4))
        else:
            desc = 'via=%s n=%d pts=%r extrap=%s %s' % (c['via'], c['n'], c['pts_l'], c['extrap'],
                                                         ('params=%r' % c['params']) if 'params' in c else 'hist=%r' % [(e.get('nu', (e.get('nu_start'), e.get('nu_end'))), e['T']) for e in c['hist']])
        ctx.case(signature=('hist', json.dumps(c, sort_keys=True)), sample={'case': c, 'err_1e-3': e3, 'err_1e-4': e4} if c['id'] % 11 == 0 else None)
        ok15 = e4 <= 0.015
        okconv = e4 <= max(0.3 * e3, conv_floor(p0, 'sel' in c))
        if c['coarse']:
            ctx.count('hist coarse grid')
            ctx.obligation('hist %d (coarse grid) within 1.5%% at 1e-4: %s' % (c['id'], desc), ok15, 'predicate', 'err %.4g / %.4g' % (e3, e4))
            if not ok15:
                ctx.obligations[-1]['known_key'] = KEY_COARSE
                ctx.violation('grid list %r below 40 points: polymorphic entries off by %.2f%% at timescale_factor 1e-4 (%.2f%% at 1e-3); %s' % (c['pts_l'], 100 * e4, 100 * e3, desc),
                              data={'case': c, 'impl': byid[c['id']], 'err': [e3, e4]}, key=KEY_COARSE)
            continue
        worst = max(worst, e4)
        ctx.obligation('hist %d within 1.5%% of the oracle at 1e-4: %s' % (c['id'], desc), ok15, 'predicate', 'err %.4g / %.4g' % (e3, e4))
        ctx.obligation('hist %d error shrinks with the time step: %s' % (c['id'], desc), okconv, 'predicate', 'err %.4g / %.4g floor %.3g' % (e3, e4, conv_floor(p0, 'sel' in c)))
        # (the absolute-time histories: one violation per argument passed as a function, the other failing inputs listed with it)
        report = (lambda what, data: xf.add(('histx', c['carrier']), what, data)) if c['kind'] == 'histx' else (lambda what, data: ctx.violation(what, data=data))
        if not ok15:
            report('one-population spectrum is %.2f%% from exact theory at timescale_factor 1e-4 (%.2f%% at 1e-3): %s' % (100 * e4, 100 * e3, desc),
                   {'case': c, 'impl': byid[c['id']], 'err': [e3, e4]})
        elif not okconv:
            report('error against exact theory does not shrink with the time step: %.3g at 1e-3, %.3g at 1e-4 (%s)' % (e3, e4, desc),
                   {'case': c, 'impl': byid[c['id']], 'err': [e3, e4]})
    xf.flush()
    ctx.err('spectrum vs oracle at 1e-4 (fine grids)', math.floor(math.log2(worst)) if worst > 0 else -10000, '1.5% per polymorphic entry')

def gen_stationarity(ctx):
    rng = ctx.rng
    cases = []
    forced = [dict(nu=2.0, gamma=-5.0, h=0.5, beta=1.0, theta0=1.0), dict(nu=0.25, gamma=8.0, h=0.5, beta=1.0, theta0=1.0),
              dict(nu=4.0, gamma=-3.0, h=0.25, beta=1.0, theta0=2.0), dict(nu=1.0, gamma=-20.0, h=0.0, beta=2.0, theta0=1.0),
              dict(nu=0.5, gamma=0.0, h=0.5, beta=0.5, theta0=1.0), dict(nu=3.0, gamma=2.0, h=1.0, beta=1.0, theta0=0.5)]
    N = ctx.pick(8, 60)
    for k in range(N):
        if k < len(forced):
            p = dict(forced[k])
        else:
            nu = numgen.logdy(rng, 0.1, 10)
            p = dict(nu=nu, gamma=lib.dyadic(rng, -60, 30, 2) / max(nu, 1.0) if rng.random() < 0.9 else 0.0,
                     h=rng.choice([0.5, 0.5, 0.0, 1.0, lib.dyadic(rng, 0, 1, 4)]),
                     beta=numgen.logdy(rng, 0.2, 5) if rng.random() < 0.4 else 1.0, theta0=numgen.logdy(rng, 0.1, 10))
        p.update(kind='stat', n=12, pts_l=[40, 80, 160], T=p['nu'] * numgen.logdy(rng, 0.3, 1.5), with_prefix=(p['nu'] != 1 and p['gamma'] != 0), id=len(cases))
        cases.append(p)
    return cases

def drift(before, after):
    """(largest change relative to the largest entry, largest change relative to the entry itself)"""
    s = max(before[1:-1])
    return (max(abs(a - bb) for a, bb in zip(after[1:-1], before[1:-1])) / s,
            max(abs(a - bb) / max(bb, 1e-12 * s) for a, bb in zip(after[1:-1], before[1:-1])))

def stationarity_part(ctx, fnd):
    cases = gen_stationarity(ctx)
    if ctx.replay:
        rp = json.load(open(ctx.replay))
        if rp.get('input') and rp['input'].get('case', {}).get('kind') == 'stat':
            c = rp['input']['case']; c['id'] = 0; cases = [c]
        elif rp.get('input') and 'case' in rp['input']:
            cases = []
    res = lib.run_impl('c01_impl.py', cases, timeout=1800)
    byid = {r['id']: r for r in res}
    seen_old = []
    for c in cases:
        r = byid[c['id']]
        desc = 'nu=%r gamma=%r h=%r beta=%r theta0=%r T=%r' % (c['nu'], c['gamma'], c['h'], c['beta'], c['theta0'], c['T'])
        ctx.count('stat nu%s1 %s' % ('=' if c['nu'] == 1 else '<>', 'neutral' if c['gamma'] == 0 else 'genic' if c['h'] == 0.5 else 'dominance'))
        if 'error' in r:
            ctx.obligation('stationarity case %d runs' % c['id'], False, 'predicate', r['error'])
            ctx.violation('phi_1D / one_pop raised %s (%s)' % (r['error'], desc), data={'case': c, 'impl': r})
            continue
        (a40, r40), (a80, r80), (a160, r160) = [drift(r[p]['cur']['before'], r[p]['cur']['after']) for p in ('40', '80', '160')]
        # grid error: x4 finer grid -> 1/16 (second order; observed) or 1/4 (first order: the beta <> 1 boundary term); demand 0.35 on the
        # scale of the largest entry and a decrease entry by entry (entries 1e-10 of the largest included)
        ok = (a160 <= 0.01 and a160 <= 0.35 * a40 + 1e-7 and r160 <= 0.7 * min(r40, 1.0) + 1e-6 and r['160']['cur']['finite'])
        if os.environ.get('C01_DEBUG'):
            print('STAT', desc, 'abs %.3g %.3g %.3g  rel %.3g %.3g %.3g' % (a40, a80, a160, r40, r80, r160), ok)
        ctx.case(signature=('stat', json.dumps(c, sort_keys=True)), sample={'case': c, 'drift_abs': [a40, a80, a160], 'drift_rel': [r40, r80, r160]} if c['id'] % 5 == 0 else None)
        ctx.obligation('equilibrium density stationary under one_pop up to a shrinking grid error: %s' % desc, ok, 'predicate',
                       'drift/max entry %.3g, %.3g, %.3g; per entry %.3g, %.3g, %.3g at 40, 80, 160 points' % (a40, a80, a160, r40, r80, r160))
        if not ok:
            # which input class?  the nu factor of the effective selection coefficient is the known way to break this
            key = None
            if c['nu'] != 1 and c['gamma'] != 0 and 'prefix' in r['160']:
                same_as_prefix = max(abs(a - bb) for a, bb in zip(r['160']['cur']['before'], r['160']['prefix']['before'])) <= 1e-9 * max(r['160']['cur']['before'][1:-1])
                if same_as_prefix:
                    key = KEY_NU
            ctx.obligations[-1]['known_key'] = key
            what = 'phi_1D(%s) is not stationary under one_pop with the same nu, gamma, h, beta: over T=%r the spectrum (n=12) moves by %.3g / %.3g / %.3g of its largest entry at 40 / 80 / 160 grid points (no second-order decay)%s' % (
                desc, c['T'], a40, a80, a160, '; the density equals the form with selection strength gamma instead of gamma*nu' if key else '')
            fnd.add(key or ('stat', c['id']), what, {'case': c, 'impl': r})
        if 'prefix' in r['160']:
            seen_old.append((c['nu'], c['gamma'], drift(r['160']['prefix']['before'], r['160']['prefix']['after'])[0], a160))
    if seen_old:
        big = max(seen_old, key=lambda t: t[2])
        ctx.notes.append('sensitivity: the density with selection strength gamma instead of gamma*nu (nu=%r, gamma=%r) moves by %.3g of its largest entry under one_pop, the current one by %.3g' % big)
        ctx.obligation('the stationarity predicate distinguishes gamma from gamma*nu (drift of the gamma-only form %.3g >> %.3g)' % (big[2], big[3]), big[2] > 10 * max(big[3], 1e-3), 'predicate')

# ------------------------------------------------------------------------------------------------
# the neutral equilibrium is an EXACT fixed point of the discrete integrator at interior grid points
# (Proofs/SnmStationary.v: C01_neutral_equilibrium_is_discrete_fixed_point, any grid from 0 to 1, any time step)

def snm_fixed_part(ctx):
    rng = ctx.rng
    cases = []
    N = ctx.pick(14, 90)
    for k in range(N):
        c = dict(kind='snmfix', id=k, nu=numgen.logdy(rng, 0.05, 20), theta0=numgen.logdy(rng, 0.1, 10),
                 beta=numgen.logdy(rng, 0.2, 5) if k % 3 == 0 else 1.0, T=numgen.logdy(rng, 0.01, 2.0),
                 tf=rng.choice([1e-3, 1e-2, 1e-1, 1.0]), as_func=bool(k % 2), via=rng.choice(['phi_1D', 'snm']),
                 gamma_arg=bool(k % 4 == 1), h=rng.choice([0.5, 0.0, 1.0, 0.25]))
        if k % 2 == 0:
            c['grid'] = numgen.grid(rng, rng.randint(4, 40), exact_ends=True)
        else:
            c['pts'] = rng.randint(5, 60)
        cases.append(c)
    if ctx.replay:
        rp = json.load(open(ctx.replay))
        if rp.get('input') and rp['input'].get('case', {}).get('kind') == 'snmfix':
            c = rp['input']['case']; c['id'] = 0; cases = [c]
        elif rp.get('input') and 'case' in rp['input']:
            cases = []
    if not cases:
        return
    res = lib.run_impl('c01_impl.py', cases, timeout=900)
    byid = {r['id']: r for r in res}
    worst = 0.0
    for c in cases:
        r = byid[c['id']]
        desc = 'nu=%r theta0=%r beta=%r T=%r timescale_factor=%r %s grid of %s points, parameters as %s' % (
            c['nu'], c['theta0'], c['beta'], c['T'], c['tf'], 'random' if 'grid' in c else 'default', len(c['grid']) if 'grid' in c else c['pts'], 'functions' if c['as_func'] else 'constants')
        ctx.count('snmfix %s %s beta%s1' % ('random grid' if 'grid' in c else 'default grid', 'functions' if c['as_func'] else 'constants', '=' if c['beta'] == 1 else '<>'))
        if 'error' in r:
            ctx.obligation('neutral fixed-point case %d runs' % c['id'], False, 'predicate', r['error'])
            ctx.violation('phi_1D / one_pop raised %s (%s)' % (r['error'], desc), data={'case': c, 'impl': r})
            continue
        b, a = r['before'], r['after']
        dev = max(abs(x - y) / abs(x) for x, y in zip(b[1:-1], a[1:-1]))
        worst = max(worst, dev)
        ok = dev <= 1e-10 and all(math.isfinite(v) for v in a)
        ctx.case(signature=('snmfix', json.dumps(c, sort_keys=True)), sample={'case': {k: v for k, v in c.items() if k != 'grid'}, 'max_rel_dev_interior': dev} if c['id'] % 6 == 0 else None)
        ctx.obligation('neutral equilibrium density reproduced exactly at every interior grid point by one_pop (%s)' % desc, ok, 'predicate',
                       'largest relative change of an interior entry %.3g (theorem: 0 in exact arithmetic; tolerance 1e-10)' % dev)
        if not ok:
            i = max(range(1, len(b) - 1), key=lambda j: abs(b[j] - a[j]) / abs(b[j]))
            ctx.violation('the neutral equilibrium density phi_1D(gamma=0) is not left unchanged by Integration.one_pop with the same nu, theta0, beta: interior entry %d (x=%r) moves from %r to %r (relative %.3g; exact discrete fixed point by C01_neutral_equilibrium_is_discrete_fixed_point) - %s' % (
                i, r['xx'][i], b[i], a[i], dev, desc), data={'case': c, 'impl': {'before': b, 'after': a}})
    ctx.err('neutral equilibrium under one_pop, interior entries', math.floor(math.log2(worst)) if worst > 0 else -10000, '1e-10 relative (exact in the model)')

# ------------------------------------------------------------------------------------------------
# one_pop against the scheme model (the integrator model of C02, imported): a missing 1/nu, a wrong boundary term,
# a misplaced mutation influx are O(1) here while they can hide below the 1.5 % of the accuracy check

def driver_part(ctx):
    from harness.numgen import coq_pop, HEADER as SCHEME_HEADER
    rng = ctx.rng
    cases = []
    for rep in range(ctx.pick(8, 60)):
        n = rng.randint(5, 14)
        g = numgen.grid(rng, n, kind=rng.choice(['uniform', 'exp', 'quad', 'random']))
        p = numgen.pop(rng, 1, beta=True)
        p['nu'] = numgen.logdy(rng, 0.05, 20)
        p['gamma'] = lib.dyadic(rng, -8, 8, 3) if rng.random() < 0.7 else 0.0
        p['ms'] = []
        tf = rng.choice([1 / 64, 1 / 128, 1 / 256, 1 / 1024])
        mv = max(0.25 / p['nu'], abs(p['gamma']) * 0.25)
        dt = tf / mv
        nsteps = rng.choice([1, 2, 3])
        T = numgen.logdy(rng, dt * (nsteps - 0.6), dt * (nsteps - 0.1))
        mode = rng.choice([None, 'const', 'lin'])
        c = {'kind': 'drv', 'shape': [n], 'grid': g, 'pops': [p], 'theta0': lib.dyadic(rng, 0.25, 4, 4), 'tf': tf, 'T': T,
             'phi': numgen.density(rng, n), 'as_func': mode, 'theta_slope': 0.0, 'id': len(cases)}
        if mode == 'lin':
            p['nu_slope'] = lib.dyadic(rng, 0, 2, 3); c['theta_slope'] = lib.dyadic(rng, 0, 1, 3)
        cases.append(c)
    res = lib.run_impl('c01_impl.py', cases, timeout=900)
    byid = {r['id']: r for r in res}
    exprs = []
    for c in cases:
        r = byid[c['id']]
        ctx.count('driver %s' % ('constants' if c['as_func'] is None else 'functions'))
        if 'error' in r or not all(math.isfinite(v) for v in r.get('res', [float('nan')])):
            ctx.obligation('driver case %d runs' % c['id'], False, 'correspondence', r.get('error', 'non-finite'))
            ctx.violation('Integration.one_pop failed or returned non-finite values: %s' % r.get('error', 'non-finite'), data={'case': c, 'impl': r})
            continue
        lin = c['as_func'] == 'lin'
        exprs.append((c['id'], ('{| dc_shape := %s; dc_grid := %s; dc_pops := [%s]; dc_nuslopes := %s; dc_theta0 := %s; dc_thslope := %s; dc_tf := %s; '
                                'dc_delj := false; dc_T := %s; dc_tdep := %s; dc_phi := %s; dc_impl := %s |}') % (
            lib.natl(c['shape']), ql(c['grid']), coq_pop(c['pops'][0]), ql([c['pops'][0].get('nu_slope', 0.0) if lin else 0.0]), q(c['theta0']),
            q(c['theta_slope'] if lin else 0.0), q(c['tf']), q(c['T']), b(c['as_func'] is not None), zzl(c['phi']), zzl(r['res']))))
    results = ctx.coq_cases('drv', SCHEME_HEADER, exprs, '(dcheck %s)' % q(Fraction(1, 10 ** 9)), 'rel 1e-9 of max|phi|', shard=ctx.pick(2, 6), timeout=1800)
    nbad = 0
    for c in cases:
        if c['id'] not in [e[0] for e in exprs]:
            continue
        rr = results.get(c['id'])
        ok = rr is not None and rr[0]
        ctx.case(signature=('drv', json.dumps(c, sort_keys=True)))
        p = c['pops'][0]
        ctx.obligation('one_pop = documented implicit scheme (model), case %d: nu=%r gamma=%r h=%r beta=%r as_func=%r' % (c['id'], p['nu'], p['gamma'], p['h'], p['beta'], c['as_func']),
                       ok, 'correspondence', '' if ok else 'coq %r' % (rr,))
        if not ok:
            nbad += 1
            if nbad <= 2:
                ctx.violation('Integration.one_pop does not solve the documented scheme (V = x(1-x)/nu (beta+1)^2/(4 beta), M = gamma 2(h+(1-2h)x)x(1-x), influx theta0/2 at the first interior point, '
                              'absorbing boundary terms 0.5/nu): nu=%r gamma=%r h=%r beta=%r theta0=%r as_func=%r differs from the model beyond 1e-9' % (p['nu'], p['gamma'], p['h'], p['beta'], c['theta0'], c['as_func']),
                              data={'case': c, 'impl': byid[c['id']], 'coq': rr})

# ------------------------------------------------------------------------------------------------
# one_pop with EVERY argument of its signature against the model drivers started at time t0 = initial_t
# (Model/NDSweep.v integrate_const / integrate_tdep ... t T, Model/EquilibriumCheck.v onepop_check), and the chaining
# identity  one call over [t0, T]  =  calls over [t0, t1], [t1, T]  (t1 a step boundary of the single call) on the real code

PAR1 = ('nu', 'gamma', 'h', 'beta', 'theta0')

def _max_vm(nu, gamma, h):
    return max(0.25 / nu, abs(gamma) * 2 * max(0.125, abs(0.25 + 0.5 * h) * 0.1875))

def drv1_case(rng, forms, t0, nsteps, extra=None, kind='drv1'):
    """forms: name -> 'scalar' | 'const' | 'lin'.  Parameters are value + slope * t (absolute time)."""
    n = rng.randint(5, 14)
    par = {'nu': [numgen.logdy(rng, 0.05, 20), lib.dyadic(rng, 0.25, 2, 3)],
           'gamma': [lib.dyadic(rng, -8, 8, 3) if rng.random() < 0.8 else 0.0, rng.choice([-1, 1]) * lib.dyadic(rng, 0.25, 2, 3)],
           'h': [rng.choice([0.5, 0.0, 1.0, lib.dyadic(rng, 0, 1, 5)]), rng.choice([-1, 1]) * lib.dyadic(rng, 0.0625, 0.25, 4)],
           'beta': [numgen.logdy(rng, 0.2, 5), lib.dyadic(rng, 0.125, 1, 3)],
           'theta0': [lib.dyadic(rng, 0.25, 4, 4), lib.dyadic(rng, 0.25, 1, 3)]}
    for name in PAR1:
        if forms[name] != 'lin':
            par[name][1] = 0.0
    if t0 < 0:
        # positive sizes / rates over the whole interval (the start is moved to about one step before 0 below)
        for name in ('nu', 'beta', 'theta0'):
            par[name][0] += 0.5
    at = lambda name, t: par[name][0] + par[name][1] * t
    tf = rng.choice([1 / 64, 1 / 128, 1 / 256, 1 / 1024])
    if t0 < 0:
        # a start before 0 with the end after 0 (the code refuses T < 0): about one step before 0
        t0 = -numgen.logdy(rng, 0.5, 1.0, 3) * 2.0 ** math.floor(math.log2(tf / _max_vm(at('nu', 0.0), at('gamma', 0.0), at('h', 0.0))))
    dt = tf / _max_vm(at('nu', t0), at('gamma', t0), at('h', t0))
    T = t0 + numgen.logdy(rng, dt * (nsteps - 0.6), dt * (nsteps - 0.1))
    c = {'kind': kind, 'n': n, 'grid': numgen.grid(rng, n, kind=rng.choice(['uniform', 'exp', 'quad', 'random'])), 'par': par, 'form': dict(forms),
         'tf': tf, 't0': t0, 'T': T, 'phi': numgen.density(rng, n)}
    c.update(extra or {})
    if c.pop('zero_length', False):
        c['T'] = c['t0']          # "if T - initial_t == 0: return phi"
    return c

def gen_drv1(ctx):
    import random
    rng = random.Random('C01-drv1-%d' % ctx.seed)
    cases = []
    def t0gen():
        return lib.dyadic(rng, 0.25, 4, 3)
    allf = lambda f: {name: f for name in PAR1}
    # systematic: initial_t <> 0 with numbers / constant functions / each argument alone as a linear function / all of them
    cases.append(drv1_case(rng, allf('scalar'), t0gen(), rng.choice([2, 3])))
    cases.append(drv1_case(rng, allf('const'), t0gen(), rng.choice([2, 3])))
    for name in PAR1:
        f = allf('scalar'); f[name] = 'lin'
        cases.append(drv1_case(rng, f, t0gen(), rng.choice([2, 3])))
    cases.append(drv1_case(rng, allf('lin'), t0gen(), 3))
    f = allf('const'); f['beta'] = 'lin'; f['theta0'] = 'lin'
    cases.append(drv1_case(rng, f, t0gen(), 2))
    # initial_t = 0 passed explicitly / not passed at all, functions
    cases.append(drv1_case(rng, allf('lin'), 0.0, 3))
    cases.append(drv1_case(rng, allf('lin'), 0.0, 2, {'pass_t0': False}))
    # a negative start (T itself must stay >= 0: the code refuses T < 0)
    c = drv1_case(rng, allf('lin'), -1.0, 3)
    assert c['t0'] < 0 < c['T']
    cases.append(c)
    # frozen (documented: "equivalent to not running the integration at all"), explicit frozen=False, deme_ids (bookkeeping only)
    cases.append(drv1_case(rng, allf('scalar'), t0gen(), 2, {'frozen': True}))
    cases.append(drv1_case(rng, allf('lin'), t0gen(), 2, {'frozen': True}))
    cases.append(drv1_case(rng, allf('lin'), t0gen(), 2, {'frozen': False, 'deme_ids': ['popA']}))
    cases.append(drv1_case(rng, allf('scalar'), t0gen(), 2, {'deme_ids': ['popA']}))
    cases.append(drv1_case(rng, allf('lin'), t0gen(), 2, {'zero_length': True}))
    for rep in range(ctx.pick(3, 80)):
        f = {name: rng.choice(['scalar', 'const', 'lin', 'lin']) for name in PAR1}
        extra = {}
        if rng.random() < 0.1:
            extra['frozen'] = rng.random() < 0.5
        if rng.random() < 0.2:
            extra['deme_ids'] = ['d%d' % rep]
        cases.append(drv1_case(rng, f, rng.choice([0.0, t0gen(), t0gen(), t0gen()]), rng.choice([1, 2, 3]), extra))
    # chaining identity
    chains = []
    f1 = allf('lin')
    f2 = allf('scalar'); f2['nu'] = 'const'; f2['gamma'] = 'lin'
    f3 = allf('scalar'); f3['nu'] = 'const'; f3['theta0'] = 'lin'
    for f, t0 in [(f1, 0.0), (f1, t0gen()), (f2, t0gen()), (f3, t0gen())] + [(None, None)] * ctx.pick(0, 30):
        if f is None:
            f = {name: rng.choice(['scalar', 'const', 'lin', 'lin']) for name in PAR1}
            f['nu'] = rng.choice(['const', 'lin', 'lin'])
            t0 = rng.choice([0.0, t0gen(), t0gen()])
        ns = rng.randint(4, 6)
        chains.append(drv1_case(rng, f, t0, ns, {'cut_step': rng.randint(1, ns - 2)}, kind='chain'))
    cases += chains
    for i, c in enumerate(cases):
        c['id'] = i
    return cases

def coq_onepop(c, t0, T, phi, impl):
    tdep = any(c['form'][name] != 'scalar' for name in PAR1)
    return ('{| o1_n := %d%%nat; o1_grid := %s; o1_par := [%s]; o1_frozen := %s; o1_tdep := %s; o1_tf := %s; o1_t0 := %s; o1_T := %s; o1_phi := %s; o1_impl := %s |}' % (
        c['n'], ql(c['grid']), '; '.join('(%s, %s)' % (q(c['par'][name][0]), q(c['par'][name][1])) for name in PAR1), b(bool(c.get('frozen'))), b(tdep),
        q(c['tf']), q(t0), q(T), zzl(phi), zzl(impl)))

def drv1_desc(c):
    def one(name):
        v, sl = c['par'][name]; f = c['form'][name]
        return '%s=%s' % (name, repr(v) if f == 'scalar' else '(lambda t: %r)' % v if f == 'const' else '(lambda t: %r + %r*t)' % (v, sl))
    return 'one_pop(phi, xx, T=%r, %s%s%s%s), timescale_factor=%r, %d grid points' % (
        c['T'], ', '.join(one(name) for name in PAR1), (', initial_t=%r' % c['t0']) if c.get('pass_t0', True) else '',
        (', frozen=%r' % c['frozen']) if 'frozen' in c else '', (', deme_ids=%r' % c['deme_ids']) if 'deme_ids' in c else '', c['tf'], c['n'])

def maxdev(a, bb):
    s = max(max(abs(v) for v in a), max(abs(v) for v in bb), 1e-300)
    return max(abs(x - y) for x, y in zip(a, bb)) / s if len(a) == len(bb) else float('inf')

def driver1_part(ctx):
    cases = replay_filter(ctx, gen_drv1(ctx), ('drv1', 'chain'))
    if not cases:
        return
    res = lib.run_impl('c01_impl.py', cases, timeout=900)
    byid = {r['id']: r for r in res}
    exprs = []; owner = {}
    def add(c, label, t0, T, phi, impl):
        eid = len(exprs)
        exprs.append((eid, coq_onepop(c, t0, T, phi, impl)))
        owner[eid] = (c, label)
    for c in cases:
        r = byid[c['id']]
        nf = sum(1 for name in PAR1 if c['form'][name] != 'scalar')
        ctx.count('driver1 %s, initial_t %s' % ('numbers' if nf == 0 else 'functions' if nf > 1 else [name for name in PAR1 if c['form'][name] != 'scalar'][0] + ' as function',
                                                '= 0' if c['t0'] == 0 else '<> 0'))
        if 'frozen' in c: ctx.count('driver1 frozen=%r' % c['frozen'])
        if 'deme_ids' in c: ctx.count('driver1 deme_ids')
        vals = [v for k in ('res', 'single', 'leg1', 'leg2') for v in r.get(k, [])]
        if 'error' in r or not vals or not all(math.isfinite(v) for v in vals):
            ctx.obligation('driver1 case %d runs' % c['id'], False, 'correspondence', r.get('error', 'non-finite'))
            ctx.violation('Integration.one_pop failed or returned non-finite values (%s): %s' % (r.get('error', 'non-finite'), drv1_desc(c)), data={'case': c, 'impl': r})
            continue
        if c['kind'] == 'drv1':
            add(c, 'call', c['t0'], c['T'], c['phi'], r['res'])
        else:
            ctx.count('driver1 chained calls')
            add(c, 'single call', c['t0'], c['T'], c['phi'], r['single'])
            add(c, 'first leg [t0, t1]', c['t0'], r['t1'], c['phi'], r['leg1'])
            add(c, 'second leg [t1, T]', r['t1'], c['T'], r['leg1'], r['leg2'])
            dev = maxdev(r['single'], r['leg2'])
            ok = dev <= 1e-9
            ctx.obligation('one call over [%r, %r] = calls over [%r, %r], [%r, %r] (t1 = the single call after %d steps): %s' % (
                c['t0'], c['T'], c['t0'], r['t1'], r['t1'], c['T'], c['cut_step'], drv1_desc(c)), ok, 'predicate', 'max difference / max entry %.3g (tolerance 1e-9)' % dev)
            if not ok:
                ctx.violation('Integration.one_pop: integrating over [%r, %r] in one call and in two calls split at t1=%r (the time the single call reaches after %d steps; second call with initial_t=t1) '
                              'gives densities that differ by %.3g of the largest entry: %s' % (c['t0'], c['T'], r['t1'], c['cut_step'], dev, drv1_desc(c)), data={'case': c, 'impl': r})
    results = ctx.coq_cases('drv1', HEADER, exprs, '(onepop_check %s)' % q(Fraction(1, 10 ** 9)), 'rel 1e-9 of max|phi|', shard=ctx.pick(4, 12), timeout=1800)
    nbad = 0; seen = set()
    for eid, (c, label) in owner.items():
        rr = results.get(eid)
        ok = rr is not None and rr[0]
        if c['id'] not in seen:
            seen.add(c['id'])
            ctx.case(signature=('drv1', json.dumps(c, sort_keys=True)))
        ctx.obligation('one_pop = model driver started at initial_t, case %d (%s): %s' % (c['id'], label, drv1_desc(c)), ok, 'correspondence', '' if ok else 'coq %r' % (rr,))
        if not ok:
            nbad += 1
            if nbad <= 3:
                ctx.violation('Integration.one_pop differs beyond 1e-9 from the documented scheme integrated from initial_t to T (time step from the parameters at the current time, step with the '
                              'parameters at the next ABSOLUTE time; frozen = unchanged) - %s: %s' % (label, drv1_desc(c)), data={'case': c, 'impl': byid[c['id']], 'coq': rr})

def run(ctx):
    ctx.level = 'proof'
    ctx.notes.append('PARTIAL: the analytic half is proved (Props/C01.v); the numerical half (convergence under grid / time-step refinement) is checked against Coq-evaluated oracles, not proved')
    ctx.rule = ('density cases = (gamma on a forced grid through 0, +-1e-8, +-299.9/300/300.1, the exp-overflow guard, -1e6, 1e3 and log-uniform '
                'random; h in {0, .2, .5-1e-9, .5, .5+1e-9, 1} and random; nu, theta0, beta; default and random dyadic grids, with and without '
                'exact end points for the genic path); histories = 1-4 epochs, nu in [0.05,20], lengths in [0.005,3], n in 2..30, grid lists '
                '[p,p+10,p+20] with p >= max(n,40) (a few coarser ones reported separately), linear/log extrapolation, constants / functions of '
                'time / exponential epochs, Demographics1D.{snm,two_epoch,three_epoch,growth,bottlegrowth}, DFE.DemogSelModels.{equil,two_epoch_sel}; '
                'histories as functions of ABSOLUTE time (every run: 6 fixed histories - nu / theta0 / gamma as the time-dependent argument, constant and '
                'exponential epochs - each by one call from t = 0, by chained calls with initial_t = start and T = end of every epoch, and by one call with '
                'the time origin moved; thorough: random histories, chained + moved origin, epochs cut into several calls); '
                'stationarity = (nu, gamma, h, beta, theta0, T); one_pop driver = every argument of the signature (initial_t = 0 / > 0 / < 0 / = T, each of nu, gamma, h, '
                'beta, theta0 as number / constant function / linear function of time alone and together, frozen, deme_ids) against the model driver started '
                'at initial_t, and one call against two calls split at a step boundary; argument types / containers / re-use of the same argument objects '
                '(harness/props/c01_types.py, enumerated on every run: every scalar argument of one_pop (both drivers), phi_1D*, from_phi, the Demographics1D / DemogSelModels '
                '1-D models through make_extrap_func / make_extrap_log_func and directly, as python int / float / bool, numpy float64 / float32 / int64 / int32 / bool_ and 0-d arrays, '
                'params as list / tuple / float64 / float32 / int64 / strided / object arrays, grids as list / tuple / strided / read-only; same objects for every grid size, '
                'timescale factor and the repeat; vs canonical spelling, oracle, arguments bit-for-bit unchanged, repeat identical); distinct = distinct parameter tuples; non-trivial = gamma <> 0 or at least one epoch')
    ctx.assumptions += ['PARTIAL: convergence of the finite-difference scheme to the diffusion and of the diffusion to the coalescent is numerical analysis that '
                        'is not mechanised (no PDE / finite-difference convergence theory installed); it is checked on generated histories against Coq-evaluated oracles',
                        'density correspondence tolerance 1e-7 relative per entry (scipy.integrate.quad has epsrel 1.5e-8; the genic closed form loses 1e-16/|gamma| to cancellation)',
                        'the 1.5% bound is asserted for grid lists whose coarsest grid has >= max(n,40) points; coarser lists are grid-error dominated (reported under a stable key)',
                        'two_epoch_sel with gamma <> 0 has a closed form only for nu = 1 or T/nu >= 25 (relaxed to the new equilibrium): those are the generated cases',
                        'selection changing with time (gamma as a function of absolute time) is compared with the equilibrium of the LAST coefficient, the last epoch lasting T/nu >= 12 '
                        '(slowest mode decays like exp(-T/nu)); a mutation rate changing with time is compared with the coalescent oracle weighted epoch by epoch '
                        '(Model/Coalescent.v ej_aux_th; equal to the constant-theta oracle when the thetas are equal: C01_coal_theta_per_epoch_uniform)',
                        'functions of time with jumps: the epoch in force at time t is decided with a margin of 1e-9 of the total length, so that the rounding of current_t + this_dt '
                        'never decides it; sizes drop by at most a factor 4 between consecutive epochs of the random absolute-time histories (the first time step of a call is estimated from the size before the change),',
                        'effective selection coefficients within 1e-6 relative of a regime switch are generated only with nu = beta = 1 (exactly representable); denormal gamma is not generated']
    ctx.trusted += ['scipy.integrate.quad returns the integral (oracle slot of the general-h density; checked at 1e-7 against a Gauss-Legendre rule evaluated in Coq)',
                    'the coalescent formulas of Model/Coalescent.v (Tavare lineage-count probabilities, Fu branch-size probabilities): independent oracle, validated by '
                    'coal_const_is_theta_over_i (all n <= 30) and by the agreement with the implementation itself under refinement']
    only = os.environ.get('C01_ONLY', '')
    guard = read_guard(ctx)
    fnd = Findings(ctx)
    xcases, xfut = start_histx(ctx) if (not only or 'hist' in only) else ([], None)
    from harness.props import c01_types
    import sys
    tcases, tfut = c01_types.start(ctx) if (not only or 'types' in only) else ([], None)
    if not only or 'dens' in only:
        density_part(ctx, guard, fnd)
        if not ctx.replay:
            continuity_part(ctx, guard, fnd)
        fnd.flush()
    if (not only or 'drv' in only) and not ctx.replay:
        driver_part(ctx)
    if (not only or 'drv' in only):
        driver1_part(ctx)
    if not only or 'stat' in only:
        stationarity_part(ctx, fnd)
        fnd.flush()
    if not only or 'snmfix' in only:
        snm_fixed_part(ctx)
    if not only or 'hist' in only:
        history_part(ctx, xcases, xfut)
    if not only or 'types' in only:
        c01_types.finish(ctx, tcases, tfut, sys.modules[__name__])
