"""C01 — one-population SFS against exact coalescent / selection-equilibrium theory  (proof, PARTIAL).

Static theorems (coq/theories/Props/C01.v): the equilibrium density of PhiManip.phi_1D (faithful model,
Model/Equilibrium.v) is a stationary solution of the documented drift-selection equation for every nu
(genic closed form; general h given the quadrature oracle), both code paths agree at h = 1/2, non-negativity and
finiteness of the genic form, quantitative continuity at the gamma = 0 switch, bounds on the gaps at the
|gamma| = 300 guards, the Beta-integral identity behind theta/i, and the coalescent oracle's constant-size value.

Per run (this file):
  (i)  correspondence of PhiManip.phi_1D with the model on all regimes (evaluated in Coq on NumD, quadrature slot
       filled by a Gauss-Legendre rule written in Coq), finiteness / non-negativity / continuity across the
       switches evaluated on the implementation;
  (ii) the NUMERICAL half, checked not proved (no finite-difference convergence theory is available in the
       installed libraries): generated size histories run through the real code at timescale_factor 1e-3 and
       1e-4 against the Coq-evaluated coalescent oracle / closed-form selection equilibrium, and stationarity of
       the equilibrium density under further integration.
"""
import ast, json, math, os, re
from fractions import Fraction
from harness import lib, numgen
from harness.lib import q, ql, b, zzl

TOL_DENS = Fraction(1, 10 ** 7)
HEADER = ('From Coq Require Import ZArith QArith List.\n'
          'From Dadi Require Import Base.Num Base.NumQ Base.NumD Model.DFast Model.Equilibrium Model.Coalescent Model.EquilibriumCheck.\n'
          'Import ListNotations.\nOpen Scope Q_scope.')
KEY_NU = 'phi_1D:gamma-not-multiplied-by-nu'
KEY_TINY = 'phi_1D_genic:tiny-gamma-cancellation'
KEY_COARSE = 'one_pop:coarse-grid-exceeds-1.5pct'
KEY_WINDOW = 'phi_1D:overflow-guard-window'
KEY_QUAD = 'phi_1D:quad-subdivision-limit'
LN_DBL_MAX = 709.782712893384

def read_guard(ctx):
    """the overflow guard of the general-h path, read off the current source of PhiManip.phi_1D:
         if gamma < 0 and numpy.isinf(numpy.exp(-2*gamma)):   -> threshold ln(DBL_MAX)
         if gamma < 0 and -2*gamma > <number>:                -> threshold <number>
    anything else is refused (fail closed)."""
    try:
        tree = ast.parse(open(os.path.join(lib.REPO, 'dadi', 'PhiManip.py')).read())
        fn = [n for n in tree.body if isinstance(n, ast.FunctionDef) and n.name == 'phi_1D'][0]
        found = []
        for node in ast.walk(fn):
            if isinstance(node, ast.If) and isinstance(node.test, ast.BoolOp) and isinstance(node.test.op, ast.And) and len(node.test.values) == 2:
                a, bb = node.test.values
                if ast.unparse(a).replace(' ', '') != 'gamma<0':
                    continue
                body = ast.unparse(node.body[0]).replace(' ', '') if len(node.body) == 1 else ''
                if body != 'Qadjust=-2*gamma':
                    continue
                t = ast.unparse(bb).replace(' ', '')
                if t in ('numpy.isinf(numpy.exp(-2*gamma))', 'np.isinf(np.exp(-2*gamma))'):
                    found.append(LN_DBL_MAX)
                else:
                    m = re.fullmatch(r'-2\*gamma>(\d+(?:\.\d*)?)', t)
                    if m:
                        found.append(float(m.group(1)))
        if len(found) != 1:
            raise ValueError('overflow guard of phi_1D not recognised (%r)' % (found,))
        ctx.obligation('translate the overflow guard of PhiManip.phi_1D (Qadjust iff gamma < 0 and -2*gamma > %r)' % found[0], True, 'translator')
        return found[0]
    except Exception as e:
        ctx.obligation('translate the overflow guard of PhiManip.phi_1D', False, 'translator', repr(e))
        return LN_DBL_MAX

# ------------------------------------------------------------------------------------------------
# (i) density

G_FORCED = [0.0, 1e-8, -1e-8, 1e-4, -1e-4, 0.01, -0.01, 0.5, -1.0, 3.0, -10.0, 40.0, -100.0, 250.0,
            299.9, 300.0, 300.1, -299.9, -300.0, -300.1, -354.0, -356.0, 600.0, 1e3, -1e3, -1e4, -1e5, -1e6]
H_FORCED = [0.5, 0.0, 0.2, 0.5 - 1e-9, 0.5 + 1e-9, 1.0]
TINY = 1e-5                 # below: 1 - exp(-2 g (1-x)) loses more than 1e-7 to cancellation in float64 (grids reach 1-x ~ 4e-4)

class Findings:
    """several failing inputs of one defect are reported as ONE violation (first input as replay, the others listed)"""
    def __init__(self, ctx):
        self.ctx = ctx; self.by = {}
    def add(self, key, what, data):
        self.by.setdefault(key, []).append((what, data))
    def flush(self):
        for key, items in self.by.items():
            what, data = items[0]
            if len(items) > 1:
                what += '  [+%d more inputs of the same class]' % (len(items) - 1)
                data = dict(data); data['other_inputs'] = [d.get('case') for _, d in items[1:20]]
            self.ctx.violation(what, data=data, key=key if isinstance(key, str) else None)
        self.by = {}

def g_eff(c):
    return c['gamma'] * c['nu'] * 4 * c['beta'] / (c['beta'] + 1) ** 2

def in_window(g, guard):
    """-2g so large that quad's own arithmetic overflows on exp(-Q) although the guard (Qadjust) is not yet active"""
    return g < 0 and LN_DBL_MAX - 1.0 < -2 * g <= guard

def near_switch(g, guard):
    """effective coefficient within rounding distance of a branch point (only reachable when nu, beta make it inexact)"""
    return any(abs(abs(g) - t) < 1e-6 * t for t in (300.0, guard / 2)) or (g != 0 and abs(g) < TINY) or in_window(g, guard)

def gen_density(ctx, guard):
    rng = ctx.rng
    cases = []
    def add(gamma, h, nu=1.0, theta0=1.0, beta=1.0, grid=None, via=None):
        c = {'kind': 'dens', 'gamma': gamma, 'h': h, 'nu': nu, 'theta0': theta0, 'beta': beta}
        if via:
            c['via'] = via
        if grid is None:
            c['pts'] = rng.choice([8, 10, 12, 14, 16, 20])
        elif isinstance(grid, int):
            c['pts'] = grid
        else:
            c['xx'] = grid
        cases.append(c)
    # forced regime grid, nu = beta = 1 so that the thresholds are hit exactly
    if ctx.quick:
        for i, g in enumerate(G_FORCED):
            add(g, 0.5)
            add(g, H_FORCED[1 + i % 5])
    else:
        for g in G_FORCED:
            for h in H_FORCED:
                add(g, h)
    # just above the overflow guard of the general-h path
    for g in (-354.8, -354.6):
        for h in (0.0, 0.3, 1.0):
            add(g, h, grid=12)
    # sharply peaked integrand (width 1/(4|gamma|) at h = 0): scipy's quad needs more than its default 50 subdivisions
    add(-125696.0, 0.0, grid=12)
    # random parameters (nu, theta0, beta included), gamma log-uniform in magnitude
    nrand = ctx.pick(60, 2000) - len(cases)
    k = 0
    while k < max(nrand, 0):
        mag = math.exp(rng.uniform(math.log(1e-5), math.log(1e6)))
        gamma = numgen.logdy(rng, mag, mag * 1.0001, 8)
        if rng.random() < 0.6 or gamma > 1e3:
            gamma = -gamma
        if gamma > 1e3:
            continue
        nu = numgen.logdy(rng, 0.1, 10) if rng.random() < 0.8 else 1.0
        beta = numgen.logdy(rng, 0.2, 5) if rng.random() < 0.5 else 1.0
        theta0 = numgen.logdy(rng, 0.01, 100) if rng.random() < 0.7 else 1.0
        h = rng.choice([0.5, 0.5, 0.0, 1.0, lib.dyadic(rng, 0, 1, 6), lib.dyadic(rng, 0, 1, 6)])
        c = {'gamma': gamma, 'nu': nu, 'beta': beta}
        ge = g_eff(c)
        if near_switch(ge, guard) or abs(ge) > 1.2e6:
            continue
        grid = None; via = None
        r = rng.random()
        if h == 0.5 and r < 0.25:
            grid = numgen.grid(rng, rng.randint(5, 12), exact_ends=(rng.random() < 0.4))   # incl. grids not starting at 0 / ending at 1
            via = 'genic'
        elif r < 0.2:
            grid = numgen.grid(rng, rng.randint(5, 12), exact_ends=True)
        add(gamma, h, nu, theta0, beta, grid, via)
        k += 1
    for i, c in enumerate(cases):
        c['id'] = i
    return cases

def coq_dens(c, xx, phi, guard):
    return '{| dn_ovf := %s; dn_xs := %s; dn_nu := %s; dn_theta0 := %s; dn_gamma := %s; dn_h := %s; dn_beta := %s; dn_impl := %s |}' % (
        q(Fraction(repr(guard))), zzl(xx), q(c['nu']), q(c['theta0']), q(c['gamma']), q(c['h']), q(c['beta']), zzl(phi))

def snm_ref(xx, c):
    bf = 4 * c['beta'] / (c['beta'] + 1) ** 2
    v = [c['nu'] * c['theta0'] / x * bf if x != 0 else None for x in xx]
    if v[0] is None:
        v[0] = v[1]
    return v

def pdesc(c):
    return 'gamma=%r h=%r nu=%r theta0=%r beta=%r' % (c['gamma'], c['h'], c['nu'], c['theta0'], c['beta'])

def density_part(ctx, guard, fnd):
    cases = gen_density(ctx, guard)
    if ctx.replay:
        rp = json.load(open(ctx.replay))
        if rp.get('input') and rp['input'].get('case', {}).get('kind') == 'dens':
            c = rp['input']['case']; c['id'] = 0; cases = [c]
        elif rp.get('input') and 'case' in rp['input']:
            cases = []
    res = lib.run_impl('c01_impl.py', cases, timeout=1800)
    byid = {r['id']: r for r in res}
    exprs = []; meta = {}
    for c in cases:
        r = byid[c['id']]
        ge = g_eff(c)
        regime = ('g=0' if ge == 0 else 'tiny' if abs(ge) < 1e-3 else 'g<-guard' if -2 * ge > guard else 'guard window' if in_window(ge, guard) else
                  'g<=-300' if ge <= -300 else 'g>=300' if ge >= 300 else 'neg' if ge < 0 else 'pos')
        ctx.count('dens %s %s' % ('h=.5' if c['h'] == 0.5 else 'h~.5' if abs(c['h'] - 0.5) < 1e-6 else 'h general', regime))
        if 'error' in r:
            ctx.obligation('dens case %d runs' % c['id'], False, 'correspondence', r['error'])
            ctx.violation('phi_1D raised %s (%s)' % (r['error'], pdesc(c)), data={'case': c, 'impl': r})
            continue
        phi = r['phi']; xx = r['xx']
        ctx.case(signature=None if c['gamma'] == 0 else ('dens', json.dumps(c, sort_keys=True)),
                 sample={'case': c, 'phi_head': phi[:3], 'phi_tail': phi[-3:]} if c['id'] % 23 == 0 else None)
        # finiteness / non-negativity on the implementation (property clause)
        bad = [i for i, v in enumerate(phi) if isinstance(v, str)]
        ctx.obligation('dens case %d finite and non-negative: %s' % (c['id'], pdesc(c)), not bad and min(phi) >= 0, 'predicate',
                       '' if not bad else 'entry %d is %s' % (bad[0], phi[bad[0]]))
        if bad:
            key = KEY_WINDOW if (c['h'] != 0.5 and in_window(ge, guard)) else None
            ctx.obligations[-1]['known_key'] = key
            fnd.add(key or ('nonfinite', c['id']), 'phi_1D returns a non-finite density (entry %d is %s) for %s%s' % (
                bad[0], phi[bad[0]], pdesc(c), ': exp(-2*gamma) is still finite, so Qadjust is not applied, but the quadrature overflows' if key else ''),
                {'case': c, 'impl': r})
            continue
        if min(phi) < 0:
            ctx.violation('phi_1D returned a negative density entry %r (%s)' % (min(phi), pdesc(c)), data={'case': c, 'impl': r})
        exprs.append((c['id'], coq_dens(c, xx, phi, guard)))
        meta[c['id']] = (c, r)
    results = ctx.coq_cases('dens', HEADER, exprs, '(dens_check 30 1 %s)' % q(TOL_DENS), 'rel 1e-7 per entry (abs floor 1e-301)', shard=ctx.pick(4, 40), timeout=2400)
    nbad = 0
    for cid, (c, r) in meta.items():
        rr = results.get(cid)
        ok = rr is not None and rr[0]
        ctx.obligation('dens case %d = closed-form model: %s' % (cid, pdesc(c)), ok, 'correspondence', '' if ok else 'coq %r' % (rr,))
        if not ok:
            tiny = c['h'] == 0.5 and 0 < abs(g_eff(c)) < TINY
            if tiny:
                # float cancellation in (1-exp(-2g(1-x)))/(1-exp(-2g)): the density is not continuous at the gamma = 0 switch in float64
                ctx.obligations[-1]['known_key'] = KEY_TINY
                ref = snm_ref(r['xx'], c)
                dev = max(abs(a - bb) / bb for a, bb in zip(r['phi'][1:-1], ref[1:-1]))
                fnd.add(KEY_TINY, 'phi_1D_genic loses accuracy to cancellation near gamma = 0: gamma=%r gives entries %.3g (relative) away from the neutral density, exact theory says <= %.1g' % (
                    c['gamma'], dev, 3 * abs(g_eff(c))), {'case': c, 'impl': r, 'coq': rr})
                continue
            if c['h'] != 0.5 and r.get('quad_limit_warnings', 0) > 0 and rr is not None:
                # scipy.integrate.quad gave up at its subdivision limit (it says so in an IntegrationWarning): the oracle slot did not return the integral
                ctx.obligations[-1]['known_key'] = KEY_QUAD
                fnd.add(KEY_QUAD, 'phi_1D is off by 2^%d relative from the closed-form equilibrium density for %s: scipy.integrate.quad stops at its limit of 50 subdivisions (IntegrationWarning, %d times) on the sharply peaked integrand exp(-Q)' % (
                    rr[1], pdesc(c), r['quad_limit_warnings']), {'case': c, 'impl': r, 'coq': rr})
                continue
            nbad += 1
            if nbad <= 3:
                ctx.violation('phi_1D differs from the closed-form equilibrium density (model) beyond 1e-7: %s (log2 rel err %r)' % (pdesc(c), rr),
                              data={'case': c, 'impl': r, 'coq': rr})

def continuity_part(ctx, guard, fnd):
    """continuity across the switches, evaluated on the implementation alone (pairs straddling each switch)"""
    probes = []
    def pair(tag, a, bb, scale_tol, key=None):
        probes.append((tag, a, bb, scale_tol, key))
    base = {'kind': 'dens', 'nu': 1.0, 'theta0': 1.0, 'beta': 1.0, 'pts': 16}
    # gamma = 0 switch (genic and general h): |phi(g) - phi(0)| <= C |g|  (theorem: C = 2 e^{2|g|}/x relative to 1/x -> rel 2.1|g|)
    for g in [1e-3, -1e-3, 1e-5, -1e-5]:
        pair('gamma0', dict(base, gamma=g, h=0.5), dict(base, gamma=0.0, h=0.5), 3 * abs(g) + 2e-7)
    for g in [1e-3, -1e-5, 1e-8, -1e-8, 1e-12]:
        pair('gamma0', dict(base, gamma=g, h=0.2), dict(base, gamma=0.0, h=0.2), 3 * abs(g) + 2e-7)
    # far below: float cancellation region of the genic closed form (normal floats only; denormal gamma is not probed)
    for g in [1e-7, -1e-8, 1e-9, -1e-10, 1e-12, -1e-14, 1e-16, -1e-17, 1e-100, -1e-300]:
        pair('gamma0-tiny', dict(base, gamma=g, h=0.5), dict(base, gamma=0.0, h=0.5), 2e-6, KEY_TINY)
    # |gamma| = 300 guards and the overflow guard of the general-h path; h = 0.5 switch
    for h in [0.5, 0.0, 0.3, 1.0]:
        for g0 in [-300.0, 300.0] + ([-guard / 2] if h != 0.5 else []):
            d = abs(g0) * 2.0 ** -40
            pair('guard%g' % g0, dict(base, gamma=g0 - d, h=h), dict(base, gamma=g0 + d, h=h), 1e-9,
                 KEY_WINDOW if (h != 0.5 and in_window(g0 + d, guard)) else None)
    for g in [-1e6, -1e4, -400.0, -300.0, -299.0, -30.0, -1.0, 1e-3, 2.0, 50.0, 299.0, 300.0, 1e3]:
        pair('h=.5', dict(base, gamma=g, h=0.5 - 1e-9), dict(base, gamma=g, h=0.5), 1e-6)
        pair('h=.5', dict(base, gamma=g, h=0.5 + 1e-9), dict(base, gamma=g, h=0.5), 1e-6)
    cases = []
    for tag, a, bb, tol, key in probes:
        a['id'] = len(cases); cases.append(a)
        bb['id'] = len(cases); cases.append(bb)
    res = lib.run_impl('c01_impl.py', cases, timeout=900)
    byid = {r['id']: r for r in res}
    for tag, a, bb, tol, key in probes:
        ra, rb = byid[a['id']], byid[bb['id']]
        ctx.count('continuity ' + tag)
        name = 'continuity across %s: gamma=%r,h=%r vs gamma=%r,h=%r' % (tag, a['gamma'], a['h'], bb['gamma'], bb['h'])
        if 'error' in ra or 'error' in rb:
            ctx.obligation(name, False, 'predicate', ra.get('error') or rb.get('error'))
            ctx.violation('phi_1D raised: %s' % (ra.get('error') or rb.get('error')), data={'a': a, 'b': bb})
            continue
        pa, pb = ra['phi'], rb['phi']
        nonfin = [v for v in pa + pb if isinstance(v, str)]
        if nonfin:
            dev = float('inf')
        else:
            scale = max(max(pa), max(pb), 1e-300)
            # relative to each entry where it is not negligible against the largest one, else to the largest
            dev = max(abs(x - y) / max(abs(y), 1e-12 * scale) for x, y in zip(pa, pb))
        ok = dev <= tol
        ctx.obligation(name, ok, 'predicate', 'dev %.3g tol %.3g' % (dev, tol), )
        ctx.case(signature=('cont', tag, a['gamma'], a['h']))
        if not ok:
            ctx.obligations[-1]['known_key'] = key
            what = 'equilibrium density jumps across the %s switch: phi_1D(gamma=%r, h=%r) vs phi_1D(gamma=%r, h=%r) differ by %.3g relative%s' % (
                tag, a['gamma'], a['h'], bb['gamma'], bb['h'], dev, ' (non-finite entries)' if nonfin else '')
            data = {'case': a, 'other': bb, 'phi': pa, 'phi_other': pb}
            if key:
                fnd.add(key, what, data)
            else:
                ctx.violation(what, data=data)

# ------------------------------------------------------------------------------------------------
# (ii) numerical half

def rnd_hist(rng, ne):
    return [{'kind': 'const', 'nu': numgen.logdy(rng, 0.05, 20), 'T': numgen.logdy(rng, 0.005, 3)} for _ in range(ne)]

def gen_histories(ctx):
    rng = ctx.rng
    N = ctx.pick(10, 150)
    vias = ['const', 'func', 'two_epoch', 'three_epoch', 'growth', 'bottlegrowth', 'equil', 'two_epoch_sel', 'const', 'func', 'snm']
    cases = []
    for k in range(N):
        via = vias[k % len(vias)] if k < len(vias) or rng.random() < 0.5 else rng.choice(['const', 'func', 'genexp'])
        n = rng.randint(2, 30)
        if k % 7 == 3:
            n = rng.choice([2, 3, 29, 30])
        coarse = not ctx.quick and rng.random() < 0.06
        p0 = rng.randint(max(n, 10), 39) if coarse else rng.randint(max(n, 40), 70)
        c = {'kind': 'hist', 'via': via, 'n': n, 'pts_l': [p0, p0 + 10, p0 + 20], 'extrap': rng.choice(['lin', 'log']),
             'tfs': [1e-3, 1e-4], 'theta0': 1.0, 'coarse': coarse}
        if via in ('const', 'func', 'genexp'):
            h = rnd_hist(rng, rng.randint(1, 4))
            if via == 'genexp':
                # one epoch replaced by exponential change between its neighbours' sizes
                j = rng.randrange(len(h))
                a = numgen.logdy(rng, 0.05, 20); bb = numgen.logdy(rng, 0.05, 20)
                if a != bb:
                    h[j] = {'kind': 'exp', 'nu_start': a, 'nu_end': bb, 'T': h[j]['T']}
                c['via'] = 'func'
            c['hist'] = h
            c['theta0'] = rng.choice([1.0, 1.0, numgen.logdy(rng, 0.1, 10)])
        elif via == 'snm':
            c['hist'] = []; c['params'] = []
        elif via == 'two_epoch':
            h = rnd_hist(rng, 1); c['hist'] = h; c['params'] = [h[0]['nu'], h[0]['T']]
        elif via == 'three_epoch':
            h = rnd_hist(rng, 2); c['hist'] = h; c['params'] = [h[0]['nu'], h[1]['nu'], h[0]['T'], h[1]['T']]
        elif via == 'growth':
            nu = numgen.logdy(rng, 0.05, 20); T = numgen.logdy(rng, 0.005, 3)
            if nu == 1.0:
                nu = 2.0
            c['hist'] = [{'kind': 'exp', 'nu_start': 1.0, 'nu_end': nu, 'T': T}]; c['params'] = [nu, T]
        elif via == 'bottlegrowth':
            nuB = numgen.logdy(rng, 0.05, 20); nuF = numgen.logdy(rng, 0.05, 20); T = numgen.logdy(rng, 0.005, 3)
            if nuB == nuF:
                nuF = nuB * 2
            c['hist'] = [{'kind': 'exp', 'nu_start': nuB, 'nu_end': nuF, 'T': T}]; c['params'] = [nuB, nuF, T]
        elif via == 'equil':
            g = lib.dyadic(rng, -20, 8, 3)
            c['sel'] = {'g': g, 'scale': 1.0, 'res': abs(g)}; c['params'] = [g]
        elif via == 'two_epoch_sel':
            g = lib.dyadic(rng, -20, 8, 3)
            r = rng.random()
            if r < 0.3:
                # neutral: coalescent oracle
                h = rnd_hist(rng, 1); c['hist'] = h; c['params'] = [h[0]['nu'], h[0]['T'], 0.0]
            elif r < 0.6:
                # same size: the equilibrium stays the equilibrium
                T = numgen.logdy(rng, 0.005, 3)
                g = lib.dyadic(rng, -10, 8, 3)
                # (integration lets the tiny high-frequency entries relax to the DISCRETE stationary state: needs a finer grid than sampling alone)
                c['sel'] = {'g': g, 'scale': 1.0, 'res': 3.5 * abs(g)}; c['params'] = [1.0, T, g]
            else:
                # long after the change (T/nu >= 25): the new equilibrium, effective coefficient gamma*nu, scale nu
                nu = numgen.logdy(rng, 0.05, 0.11); T = numgen.logdy(rng, 2.8, 3.0)
                g = lib.dyadic(rng, -40, 30, 2)
                c['sel'] = {'g': g * nu, 'scale': nu, 'res': max(abs(g * nu), abs(g) / 4)}; c['params'] = [nu, T, g]
        if 'sel' in c:
            # the selected density varies on the scale 1/(2|g|): the grid must resolve it (grid error, not time-step error)
            p0 = max(n, 40) + int(8 * c['sel']['res']) + rng.randint(0, 30)
            c['pts_l'] = [p0, p0 + 10, p0 + 20]; c['coarse'] = False
        c['id'] = len(cases)
        cases.append(c)
    # one fixed coarse grid list "at the sample size": grid error alone is ~4 % here (reported under KEY_COARSE)
    cases.append({'kind': 'hist', 'via': 'const', 'n': 9, 'pts_l': [9, 19, 29], 'extrap': 'lin', 'tfs': [1e-3, 1e-4], 'theta0': 1.0, 'coarse': True,
                  'hist': [{'kind': 'const', 'nu': 4.0, 'T': 0.125}, {'kind': 'const', 'nu': 0.3125, 'T': 1.125},
                           {'kind': 'const', 'nu': 2.0, 'T': 0.1875}, {'kind': 'const', 'nu': 2.5, 'T': 0.015625}], 'id': len(cases)})
    return cases

def coq_epochs(hist):
    """history is oldest first; the oracle wants most recent first: (is_exp, nu_recent, nu_old, T)"""
    out = []
    for e in reversed(hist):
        if e['kind'] == 'exp':
            out.append('(true, %s, %s, %s)' % (q(e['nu_end']), q(e['nu_start']), q(e['T'])))
        else:
            out.append('(false, %s, %s, %s)' % (q(e['nu']), q(e['nu']), q(e['T'])))
    return '[' + '; '.join(out) + ']'

_PAIR = re.compile(r'\((-?\d+),\((-?\d+),(-?\d+)\)\)')

def run_pair_files(ctx, tag, exprs, fn, shard):
    files = []
    for k in range(0, len(exprs), shard):
        chunk = exprs[k:k + shard]
        body = [HEADER, '']
        for cid, ex in chunk:
            body.append('Definition case_%d := %s.' % (cid, ex))
        body.append('Definition results := map (fun p => (fst p, %s (snd p))) [%s].' % (fn, '; '.join('(%d%%Z, case_%d)' % (cid, cid) for cid, _ in chunk)))
        body.append('Eval vm_compute in results.')
        files.append(('C01_%s_%d' % (tag, k // shard), '\n'.join(body) + '\n'))
    out = {}
    for nme, (rc, so, se, secs) in lib.run_case_files(files, timeout=2400).items():
        if rc != 0:
            ctx.obligation('coqc %s' % nme, False, 'correspondence', se[-600:])
            continue
        s = re.sub(r'\s+', '', so).replace('%Z', '')
        for m in _PAIR.finditer(s):
            out[int(m.group(1))] = (int(m.group(2)) * 1e-9, int(m.group(3)) * 1e-9)
    ctx.checker_cmds.append('coqc -Q coq/theories Dadi build/cases/C01_%s_*.v  (%d cases, oracle evaluated by vm_compute)' % (tag, len(exprs)))
    return out

def conv_floor(p0, sel=False):
    """level of the grid error, below which the time-step error cannot be seen (selected densities: the discrete stationary state)"""
    return 0.010 if (p0 < 60 or sel) else 0.006 if p0 < 100 else 0.004

def history_part(ctx):
    cases = gen_histories(ctx)
    if ctx.replay:
        rp = json.load(open(ctx.replay))
        if rp.get('input') and rp['input'].get('case', {}).get('kind') == 'hist':
            c = rp['input']['case']; c['id'] = 0; cases = [c]
        elif rp.get('input') and 'case' in rp['input']:
            cases = []
    res = lib.run_impl('c01_impl.py', cases, timeout=3000)
    byid = {r['id']: r for r in res}
    hex_, sex = [], []
    for c in cases:
        r = byid[c['id']]
        ctx.count('hist via=' + c['via']); ctx.count('hist extrap=' + c['extrap']); ctx.count('hist n<=5' if c['n'] <= 5 else 'hist n>=25' if c['n'] >= 25 else 'hist n mid')
        if 'hist' in c:
            ctx.count('hist epochs=%d' % len(c['hist']))
        if 'error' in r:
            ctx.obligation('hist case %d runs' % c['id'], False, 'predicate', r['error'])
            ctx.violation('one-population model raised %s' % r['error'], data={'case': c, 'impl': r})
            continue
        f3 = r['fs'][repr(1e-3)][1:-1]; f4 = r['fs'][repr(1e-4)][1:-1]
        if not all(math.isfinite(v) for v in f3 + f4):
            ctx.violation('one-population spectrum has non-finite entries', data={'case': c, 'impl': r})
            continue
        if 'sel' in c:
            g = c['sel']['g']
            terms = int(8 * abs(g)) + 80
            sex.append((c['id'], '{| sc_n := %d%%nat; sc_theta := %s; sc_g := %s; sc_terms := %d%%nat; sc_fs3 := %s; sc_fs4 := %s |}' % (
                c['n'], q(Fraction(c['sel']['scale'])), q(g), terms, zzl(f3), zzl(f4))))
        else:
            hex_.append((c['id'], '{| hc_n := %d%%nat; hc_eps := %s; hc_theta := %s; hc_fs3 := %s; hc_fs4 := %s |}' % (
                c['n'], coq_epochs(c['hist']), q(c.get('theta0', 1.0)), zzl(f3), zzl(f4))))
    errs = {}
    if hex_:
        errs.update(run_pair_files(ctx, 'hist', hex_, 'hist_check', ctx.pick(1, 4)))
    if sex:
        errs.update(run_pair_files(ctx, 'sel', sex, 'sel_check', ctx.pick(1, 4)))
    worst = 0.0
    for c in cases:
        if c['id'] not in errs:
            if 'error' not in byid[c['id']]:
                ctx.obligation('hist case %d oracle evaluated' % c['id'], False, 'correspondence', 'no result from Coq')
            continue
        e3, e4 = errs[c['id']]
        p0 = c['pts_l'][0]
        if os.environ.get('C01_DEBUG'):
            print('HIST', c['via'], c['n'], c['pts_l'], c['extrap'], c.get('params', c.get('hist')), c.get('sel'), 'err %.4g %.4g' % (e3, e4))
        desc = 'via=%s n=%d pts=%r extrap=%s %s' % (c['via'], c['n'], c['pts_l'], c['extrap'],
                                                     ('params=%r' % c['params']) if 'params' in c else 'hist=%r' % [(e.get('nu', (e.get('nu_start'), e.get('nu_end'))), e['T']) for e in c['hist']])
        ctx.case(signature=('hist', json.dumps(c, sort_keys=True)), sample={'case': c, 'err_1e-3': e3, 'err_1e-4': e4} if c['id'] % 11 == 0 else None)
        ok15 = e4 <= 0.015
        okconv = e4 <= max(0.3 * e3, conv_floor(p0, 'sel' in c))
        if c['coarse']:
            ctx.count('hist coarse grid')
            ctx.obligation('hist %d (coarse grid) within 1.5%% at 1e-4: %s' % (c['id'], desc), ok15, 'predicate', 'err %.4g / %.4g' % (e3, e4))
            if not ok15:
                ctx.obligations[-1]['known_key'] = KEY_COARSE
                ctx.violation('grid list %r below 40 points: polymorphic entries off by %.2f%% at timescale_factor 1e-4 (%.2f%% at 1e-3); %s' % (c['pts_l'], 100 * e4, 100 * e3, desc),
                              data={'case': c, 'impl': byid[c['id']], 'err': [e3, e4]}, key=KEY_COARSE)
            continue
        worst = max(worst, e4)
        ctx.obligation('hist %d within 1.5%% of the oracle at 1e-4: %s' % (c['id'], desc), ok15, 'predicate', 'err %.4g / %.4g' % (e3, e4))
        ctx.obligation('hist %d error shrinks with the time step: %s' % (c['id'], desc), okconv, 'predicate', 'err %.4g / %.4g floor %.3g' % (e3, e4, conv_floor(p0, 'sel' in c)))
        if not ok15:
            ctx.violation('one-population spectrum is %.2f%% from exact theory at timescale_factor 1e-4 (%.2f%% at 1e-3): %s' % (100 * e4, 100 * e3, desc),
                          data={'case': c, 'impl': byid[c['id']], 'err': [e3, e4]})
        elif not okconv:
            ctx.violation('error against exact theory does not shrink with the time step: %.3g at 1e-3, %.3g at 1e-4 (%s)' % (e3, e4, desc),
                          data={'case': c, 'impl': byid[c['id']], 'err': [e3, e4]})
    ctx.err('spectrum vs oracle at 1e-4 (fine grids)', math.floor(math.log2(worst)) if worst > 0 else -10000, '1.5% per polymorphic entry')

def gen_stationarity(ctx):
    rng = ctx.rng
    cases = []
    forced = [dict(nu=2.0, gamma=-5.0, h=0.5, beta=1.0, theta0=1.0), dict(nu=0.25, gamma=8.0, h=0.5, beta=1.0, theta0=1.0),
              dict(nu=4.0, gamma=-3.0, h=0.25, beta=1.0, theta0=2.0), dict(nu=1.0, gamma=-20.0, h=0.0, beta=2.0, theta0=1.0),
              dict(nu=0.5, gamma=0.0, h=0.5, beta=0.5, theta0=1.0), dict(nu=3.0, gamma=2.0, h=1.0, beta=1.0, theta0=0.5)]
    N = ctx.pick(8, 60)
    for k in range(N):
        if k < len(forced):
            p = dict(forced[k])
        else:
            nu = numgen.logdy(rng, 0.1, 10)
            p = dict(nu=nu, gamma=lib.dyadic(rng, -60, 30, 2) / max(nu, 1.0) if rng.random() < 0.9 else 0.0,
                     h=rng.choice([0.5, 0.5, 0.0, 1.0, lib.dyadic(rng, 0, 1, 4)]),
                     beta=numgen.logdy(rng, 0.2, 5) if rng.random() < 0.4 else 1.0, theta0=numgen.logdy(rng, 0.1, 10))
        p.update(kind='stat', n=12, pts_l=[40, 80, 160], T=p['nu'] * numgen.logdy(rng, 0.3, 1.5), with_prefix=(p['nu'] != 1 and p['gamma'] != 0), id=len(cases))
        cases.append(p)
    return cases

def drift(before, after):
    """(largest change relative to the largest entry, largest change relative to the entry itself)"""
    s = max(before[1:-1])
    return (max(abs(a - bb) for a, bb in zip(after[1:-1], before[1:-1])) / s,
            max(abs(a - bb) / max(bb, 1e-12 * s) for a, bb in zip(after[1:-1], before[1:-1])))

def stationarity_part(ctx, fnd):
    cases = gen_stationarity(ctx)
    if ctx.replay:
        rp = json.load(open(ctx.replay))
        if rp.get('input') and rp['input'].get('case', {}).get('kind') == 'stat':
            c = rp['input']['case']; c['id'] = 0; cases = [c]
        elif rp.get('input') and 'case' in rp['input']:
            cases = []
    res = lib.run_impl('c01_impl.py', cases, timeout=1800)
    byid = {r['id']: r for r in res}
    seen_old = []
    for c in cases:
        r = byid[c['id']]
        desc = 'nu=%r gamma=%r h=%r beta=%r theta0=%r T=%r' % (c['nu'], c['gamma'], c['h'], c['beta'], c['theta0'], c['T'])
        ctx.count('stat nu%s1 %s' % ('=' if c['nu'] == 1 else '<>', 'neutral' if c['gamma'] == 0 else 'genic' if c['h'] == 0.5 else 'dominance'))
        if 'error' in r:
            ctx.obligation('stationarity case %d runs' % c['id'], False, 'predicate', r['error'])
            ctx.violation('phi_1D / one_pop raised %s (%s)' % (r['error'], desc), data={'case': c, 'impl': r})
            continue
        (a40, r40), (a80, r80), (a160, r160) = [drift(r[p]['cur']['before'], r[p]['cur']['after']) for p in ('40', '80', '160')]
        # grid error: x4 finer grid -> 1/16 (second order; observed) or 1/4 (first order: the beta <> 1 boundary term); demand 0.35 on the
        # scale of the largest entry and a decrease entry by entry (entries 1e-10 of the largest included)
        ok = (a160 <= 0.01 and a160 <= 0.35 * a40 + 1e-7 and r160 <= 0.7 * min(r40, 1.0) + 1e-6 and r['160']['cur']['finite'])
        if os.environ.get('C01_DEBUG'):
            print('STAT', desc, 'abs %.3g %.3g %.3g  rel %.3g %.3g %.3g' % (a40, a80, a160, r40, r80, r160), ok)
        ctx.case(signature=('stat', json.dumps(c, sort_keys=True)), sample={'case': c, 'drift_abs': [a40, a80, a160], 'drift_rel': [r40, r80, r160]} if c['id'] % 5 == 0 else None)
        ctx.obligation('equilibrium density stationary under one_pop up to a shrinking grid error: %s' % desc, ok, 'predicate',
                       'drift/max entry %.3g, %.3g, %.3g; per entry %.3g, %.3g, %.3g at 40, 80, 160 points' % (a40, a80, a160, r40, r80, r160))
        if not ok:
            # which input class?  the nu factor of the effective selection coefficient is the known way to break this
            key = None
            if c['nu'] != 1 and c['gamma'] != 0 and 'prefix' in r['160']:
                same_as_prefix = max(abs(a - bb) for a, bb in zip(r['160']['cur']['before'], r['160']['prefix']['before'])) <= 1e-9 * max(r['160']['cur']['before'][1:-1])
                if same_as_prefix:
                    key = KEY_NU
            ctx.obligations[-1]['known_key'] = key
            what = 'phi_1D(%s) is not stationary under one_pop with the same nu, gamma, h, beta: over T=%r the spectrum (n=12) moves by %.3g / %.3g / %.3g of its largest entry at 40 / 80 / 160 grid points (no second-order decay)%s' % (
                desc, c['T'], a40, a80, a160, '; the density equals the form with selection strength gamma instead of gamma*nu' if key else '')
            fnd.add(key or ('stat', c['id']), what, {'case': c, 'impl': r})
        if 'prefix' in r['160']:
            seen_old.append((c['nu'], c['gamma'], drift(r['160']['prefix']['before'], r['160']['prefix']['after'])[0], a160))
    if seen_old:
        big = max(seen_old, key=lambda t: t[2])
        ctx.notes.append('sensitivity: the density with selection strength gamma instead of gamma*nu (nu=%r, gamma=%r) moves by %.3g of its largest entry under one_pop, the current one by %.3g' % big)
        ctx.obligation('the stationarity predicate distinguishes gamma from gamma*nu (drift of the gamma-only form %.3g >> %.3g)' % (big[2], big[3]), big[2] > 10 * max(big[3], 1e-3), 'predicate')

# ------------------------------------------------------------------------------------------------
# the neutral equilibrium is an EXACT fixed point of the discrete integrator at interior grid points
# (Proofs/SnmStationary.v: C01_neutral_equilibrium_is_discrete_fixed_point, any grid from 0 to 1, any time step)

def snm_fixed_part(ctx):
    rng = ctx.rng
    cases = []
    N = ctx.pick(14, 90)
    for k in range(N):
        c = dict(kind='snmfix', id=k, nu=numgen.logdy(rng, 0.05, 20), theta0=numgen.logdy(rng, 0.1, 10),
                 beta=numgen.logdy(rng, 0.2, 5) if k % 3 == 0 else 1.0, T=numgen.logdy(rng, 0.01, 2.0),
                 tf=rng.choice([1e-3, 1e-2, 1e-1, 1.0]), as_func=bool(k % 2), via=rng.choice(['phi_1D', 'snm']),
                 gamma_arg=bool(k % 4 == 1), h=rng.choice([0.5, 0.0, 1.0, 0.25]))
        if k % 2 == 0:
            c['grid'] = numgen.grid(rng, rng.randint(4, 40), exact_ends=True)
        else:
            c['pts'] = rng.randint(5, 60)
        cases.append(c)
    if ctx.replay:
        rp = json.load(open(ctx.replay))
        if rp.get('input') and rp['input'].get('case', {}).get('kind') == 'snmfix':
            c = rp['input']['case']; c['id'] = 0; cases = [c]
        elif rp.get('input') and 'case' in rp['input']:
            cases = []
    if not cases:
        return
    res = lib.run_impl('c01_impl.py', cases, timeout=900)
    byid = {r['id']: r for r in res}
    worst = 0.0
    for c in cases:
        r = byid[c['id']]
        desc = 'nu=%r theta0=%r beta=%r T=%r timescale_factor=%r %s grid of %s points, parameters as %s' % (
            c['nu'], c['theta0'], c['beta'], c['T'], c['tf'], 'random' if 'grid' in c else 'default', len(c['grid']) if 'grid' in c else c['pts'], 'functions' if c['as_func'] else 'constants')
        ctx.count('snmfix %s %s beta%s1' % ('random grid' if 'grid' in c else 'default grid', 'functions' if c['as_func'] else 'constants', '=' if c['beta'] == 1 else '<>'))
        if 'error' in r:
            ctx.obligation('neutral fixed-point case %d runs' % c['id'], False, 'predicate', r['error'])
            ctx.violation('phi_1D / one_pop raised %s (%s)' % (r['error'], desc), data={'case': c, 'impl': r})
            continue
        b, a = r['before'], r['after']
        dev = max(abs(x - y) / abs(x) for x, y in zip(b[1:-1], a[1:-1]))
        worst = max(worst, dev)
        ok = dev <= 1e-10 and all(math.isfinite(v) for v in a)
        ctx.case(signature=('snmfix', json.dumps(c, sort_keys=True)), sample={'case': {k: v for k, v in c.items() if k != 'grid'}, 'max_rel_dev_interior': dev} if c['id'] % 6 == 0 else None)
        ctx.obligation('neutral equilibrium density reproduced exactly at every interior grid point by one_pop (%s)' % desc, ok, 'predicate',
                       'largest relative change of an interior entry %.3g (theorem: 0 in exact arithmetic; tolerance 1e-10)' % dev)
        if not ok:
            i = max(range(1, len(b) - 1), key=lambda j: abs(b[j] - a[j]) / abs(b[j]))
            ctx.violation('the neutral equilibrium density phi_1D(gamma=0) is not left unchanged by Integration.one_pop with the same nu, theta0, beta: interior entry %d (x=%r) moves from %r to %r (relative %.3g; exact discrete fixed point by C01_neutral_equilibrium_is_discrete_fixed_point) - %s' % (
                i, r['xx'][i], b[i], a[i], dev, desc), data={'case': c, 'impl': {'before': b, 'after': a}})
    ctx.err('neutral equilibrium under one_pop, interior entries', math.floor(math.log2(worst)) if worst > 0 else -10000, '1e-10 relative (exact in the model)')

# ------------------------------------------------------------------------------------------------
# one_pop against the scheme model (the integrator model of C02, imported): a missing 1/nu, a wrong boundary term,
# a misplaced mutation influx are O(1) here while they can hide below the 1.5 % of the accuracy check

def driver_part(ctx):
    from harness.numgen import coq_pop, HEADER as SCHEME_HEADER
    rng = ctx.rng
    cases = []
    for rep in range(ctx.pick(8, 60)):
        n = rng.randint(5, 14)
        g = numgen.grid(rng, n, kind=rng.choice(['uniform', 'exp', 'quad', 'random']))
        p = numgen.pop(rng, 1, beta=True)
        p['nu'] = numgen.logdy(rng, 0.05, 20)
        p['gamma'] = lib.dyadic(rng, -8, 8, 3) if rng.random() < 0.7 else 0.0
        p['ms'] = []
        tf = rng.choice([1 / 64, 1 / 128, 1 / 256, 1 / 1024])
        mv = max(0.25 / p['nu'], abs(p['gamma']) * 0.25)
        dt = tf / mv
        nsteps = rng.choice([1, 2, 3])
        T = numgen.logdy(rng, dt * (nsteps - 0.6), dt * (nsteps - 0.1))
        mode = rng.choice([None, 'const', 'lin'])
        c = {'kind': 'drv', 'shape': [n], 'grid': g, 'pops': [p], 'theta0': lib.dyadic(rng, 0.25, 4, 4), 'tf': tf, 'T': T,
             'phi': numgen.density(rng, n), 'as_func': mode, 'theta_slope': 0.0, 'id': len(cases)}
        if mode == 'lin':
            p['nu_slope'] = lib.dyadic(rng, 0, 2, 3); c['theta_slope'] = lib.dyadic(rng, 0, 1, 3)
        cases.append(c)
    res = lib.run_impl('c01_impl.py', cases, timeout=900)
    byid = {r['id']: r for r in res}
    exprs = []
    for c in cases:
        r = byid[c['id']]
        ctx.count('driver %s' % ('constants' if c['as_func'] is None else 'functions'))
        if 'error' in r or not all(math.isfinite(v) for v in r.get('res', [float('nan')])):
            ctx.obligation('driver case %d runs' % c['id'], False, 'correspondence', r.get('error', 'non-finite'))
            ctx.violation('Integration.one_pop failed or returned non-finite values: %s' % r.get('error', 'non-finite'), data={'case': c, 'impl': r})
            continue
        lin = c['as_func'] == 'lin'
        exprs.append((c['id'], ('{| dc_shape := %s; dc_grid := %s; dc_pops := [%s]; dc_nuslopes := %s; dc_theta0 := %s; dc_thslope := %s; dc_tf := %s; '
                                'dc_delj := false; dc_T := %s; dc_tdep := %s; dc_phi := %s; dc_impl := %s |}') % (
            lib.natl(c['shape']), ql(c['grid']), coq_pop(c['pops'][0]), ql([c['pops'][0].get('nu_slope', 0.0) if lin else 0.0]), q(c['theta0']),
            q(c['theta_slope'] if lin else 0.0), q(c['tf']), q(c['T']), b(c['as_func'] is not None), zzl(c['phi']), zzl(r['res']))))
    results = ctx.coq_cases('drv', SCHEME_HEADER, exprs, '(dcheck %s)' % q(Fraction(1, 10 ** 9)), 'rel 1e-9 of max|phi|', shard=ctx.pick(2, 6), timeout=1800)
    nbad = 0
    for c in cases:
        if c['id'] not in [e[0] for e in exprs]:
            continue
        rr = results.get(c['id'])
        ok = rr is not None and rr[0]
        ctx.case(signature=('drv', json.dumps(c, sort_keys=True)))
        p = c['pops'][0]
        ctx.obligation('one_pop = documented implicit scheme (model), case %d: nu=%r gamma=%r h=%r beta=%r as_func=%r' % (c['id'], p['nu'], p['gamma'], p['h'], p['beta'], c['as_func']),
                       ok, 'correspondence', '' if ok else 'coq %r' % (rr,))
        if not ok:
            nbad += 1
            if nbad <= 2:
                ctx.violation('Integration.one_pop does not solve the documented scheme (V = x(1-x)/nu (beta+1)^2/(4 beta), M = gamma 2(h+(1-2h)x)x(1-x), influx theta0/2 at the first interior point, '
                              'absorbing boundary terms 0.5/nu): nu=%r gamma=%r h=%r beta=%r theta0=%r as_func=%r differs from the model beyond 1e-9' % (p['nu'], p['gamma'], p['h'], p['beta'], c['theta0'], c['as_func']),
                              data={'case': c, 'impl': byid[c['id']], 'coq': rr})

def run(ctx):
    ctx.level = 'proof'
    ctx.notes.append('PARTIAL: the analytic half is proved (Props/C01.v); the numerical half (convergence under grid / time-step refinement) is checked against Coq-evaluated oracles, not proved')
    ctx.rule = ('density cases = (gamma on a forced grid through 0, +-1e-8, +-299.9/300/300.1, the exp-overflow guard, -1e6, 1e3 and log-uniform '
                'random; h in {0, .2, .5-1e-9, .5, .5+1e-9, 1} and random; nu, theta0, beta; default and random dyadic grids, with and without '
                'exact end points for the genic path); histories = 1-4 epochs, nu in [0.05,20], lengths in [0.005,3], n in 2..30, grid lists '
                '[p,p+10,p+20] with p >= max(n,40) (a few coarser ones reported separately), linear/log extrapolation, constants / functions of '
                'time / exponential epochs, Demographics1D.{snm,two_epoch,three_epoch,growth,bottlegrowth}, DFE.DemogSelModels.{equil,two_epoch_sel}; '
                'stationarity = (nu, gamma, h, beta, theta0, T); distinct = distinct parameter tuples; non-trivial = gamma <> 0 or at least one epoch')
    ctx.assumptions += ['PARTIAL: convergence of the finite-difference scheme to the diffusion and of the diffusion to the coalescent is numerical analysis that '
                        'is not mechanised (no PDE / finite-difference convergence theory installed); it is checked on generated histories against Coq-evaluated oracles',
                        'density correspondence tolerance 1e-7 relative per entry (scipy.integrate.quad has epsrel 1.5e-8; the genic closed form loses 1e-16/|gamma| to cancellation)',
                        'the 1.5% bound is asserted for grid lists whose coarsest grid has >= max(n,40) points; coarser lists are grid-error dominated (reported under a stable key)',
                        'two_epoch_sel with gamma <> 0 has a closed form only for nu = 1 or T/nu >= 25 (relaxed to the new equilibrium): those are the generated cases',
                        'effective selection coefficients within 1e-6 relative of a regime switch are generated only with nu = beta = 1 (exactly representable); denormal gamma is not generated']
    ctx.trusted += ['scipy.integrate.quad returns the integral (oracle slot of the general-h density; checked at 1e-7 against a Gauss-Legendre rule evaluated in Coq)',
                    'the coalescent formulas of Model/Coalescent.v (Tavare lineage-count probabilities, Fu branch-size probabilities): independent oracle, validated by '
                    'coal_const_is_theta_over_i (all n <= 30) and by the agreement with the implementation itself under refinement']
    only = os.environ.get('C01_ONLY', '')
    guard = read_guard(ctx)
    fnd = Findings(ctx)
    if not only or 'dens' in only:
        density_part(ctx, guard, fnd)
        if not ctx.replay:
            continuity_part(ctx, guard, fnd)
        fnd.flush()
    if (not only or 'drv' in only) and not ctx.replay:
        driver_part(ctx)
    if not only or 'stat' in only:
        stationarity_part(ctx, fnd)
        fnd.flush()
    if not only or 'snmfix' in only:
        snm_fixed_part(ctx)
    if not only or 'hist' in only:
        history_part(ctx)
