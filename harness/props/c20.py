"""C20 — results are independent of call history; inputs are never modified in place.

Static theorems: coq/theories/Props/C20.v (memo machine, heap protocols).
Per run:
  (T) translator tie (Python ast / .pyx line parser, fail-closed, harness/translate/entry_protocol.py):
        entry protocol of every integrator (one generated Coq obligation each:  extracted protocol = copy_protocol),
        the .pyx wrappers (raw data pointer, return the argument), reorder_pops (transposed view), the demes hand-off,
        Spectrum.S (save / mutate / restore), syntactic mutations of parameters against the documented in-place list,
        the key expression of every module-level cache against the key_complete table.
  (i) memo model against the real caches: instrumented histories log every entry into a memoised function; after every
        public call the real dictionaries (key sets AND stored values) are compared with the memo machine, and the whole
        log is replayed through the Gallina `step` inside Coq (Model/MemoCheck.memo_check).
  (ii) history differential: random interleavings of public calls, each compared bitwise with the same call evaluated in
        a fresh interpreter, under several PYTHONHASHSEED values; plus fresh-vs-fresh across hash seeds.
  (ii') NEAR-COLLISION stream (harness/props/c20_nearcol.py): for every memoised family (projection, multinomln, BetaBinomln, partition,
        dbeta caches, the low-pass precalc cache, Godambe.cache, the demes front end, Inference bookkeeping, extrapolated model spectra) and
        EVERY argument of every public entry point feeding it (signatures read from the source, fail-closed), calls B that differ from a base
        call A in exactly that argument: A then the B's, and the B's then A, in one process, every call against its pristine-interpreter
        value; a failing call is shrunk to a two-call history (the replay).  Props/C20.v: C20_near_collision_pair_decides,
        C20_key_incomplete_iff_some_pair_fails say this is a complete test of key completeness.  All dictionaries that outlive a call are
        enumerated from the source (harness/props/c20_scan.py) against EXPECTED_STATE; when that or any cache-key obligation breaks, the
        families concerned run isolated (A, B) / (B, A) histories in thorough-size numbers before the check may conclude
        no-failing-input-found.
  (ii'') SETTING-COLLISION pairs (c20_nearcol.setting_entries): dadi's module-level settings (Integration.timescale_factor, use_delj_trick, use_old_timestep /
        old_timescale_factor, Godambe.two_pt_deriv_test, Inference._out_of_bounds_val; enumerated from the source fail-closed by c20_scan.settings_state against
        EXPECTED_SETTINGS, each with a reviewed role in nc.SETTING_TABLE; a NEW numeric / boolean setting gets automatic alternative values) and the seeds of the
        random sources are ARGUMENTS of the near-collision stream: for every integrator d=1..5 and one_pop_X (constant and time-dependent paths), from_phi d=1..5,
        extrapolated models, from_demes, Godambe, the objective function, Spectrum.sample / fixed_size_sample, Misc.perturb_params and the simulated low-pass entries,
        A under value 1, then `dadi.<Module>.<setting> = value 2` by PLAIN attribute assignment (and through the setter where one exists), B, value 1 restored, A
        again, and the reverse order - every call bitwise against a pristine interpreter that executed the same assignments from the start.  A failing pair (with the
        assignment between the calls) is the replay.  Fail-closed source obligation: no memoised function (memoising decorator / storing into a module-level
        dictionary) reads a setting, directly or through functions of its file (EXPECTED_MEMO_READS).  A new memo anywhere (EXPECTED_STATE) or a change of either
        table puts the family 'settings' on the broken list: the pairs then run in thorough-size numbers with isolated A,B,A / B,A,B histories before the check may
        conclude no-failing-input-found.  The diagnosis also empties functools.lru_cache-style wrappers (impl discovered_memo_wrappers).  Model/Memo.v section
        SettingMemo: a setting read by the memoised function is part of the call; Props/C20.v C20_setting_in_key_transparent, C20_setting_outside_key_refuted,
        C20_plain_assignment_replays, C20_setter_then_plain_restore_replays, C20_setter_only_program_transparent.
  (iii) argument-layout differential: F-ordered, transposed, sliced, negatively strided, offset views against the
        C-contiguous copy; includes the exporters (Spectrum.to_file / tofile, Numerics.array_to_file: the TEXT written for a
        reorder_pops view / transposed / negatively strided / strided / Fortran-ordered spectrum = text for its contiguous copy).
  (iv) input freezing / aliasing on every evaluated call; observed protocol of every integrator call is checked against
        the extracted one inside Coq (Model/MemoCheck.proto_check).
  (v) ALIAS obligation and the mutate-the-result / mutate-the-argument stream (harness/props/c20_alias.py): a Spectrum is a PAIR of buffers
        (data, mask) plus label lists.  On every evaluated call no buffer of the result may share memory with any buffer of any argument or of
        any module-level object except the reviewed table of documented views (al.ALLOWED); for every array-returning call of a systematic
        directed list (all Spectrum operators x side x operand kind, numpy-level operations, Spectrum methods, array helpers, PhiManip,
        integrators and from_phi d=1..5, from_demes, low-pass wrappers, optimiser helpers) the result is edited in place (mask entry flipped,
        data scaled, list appended) and the arguments must stay bit-for-bit what they were (data AND mask bytes) and ll / ll_multinom / S / sum /
        from_phi / the same call on them must return their pristine-interpreter values - and the mirror.  Translator: the constructor call of the
        exec-generated operator templates copies (one generated Coq obligation per operator: protocol = arith_copy_protocol, Props/C20.v
        C20_arith_copy_result_edit_frames_operand / C20_arith_nocopy_refuted / C20_arith_frames_iff_copies); every `copy=` keyword of dadi/**/*.py
        is enumerated fail-closed; observed aliasing of every operator call = Heap.arith of the extracted protocol inside Coq (MemoCheck.arith_check).
  (vi) CROSS stream (harness/props/c20_cross.py), every run: the container / dtype of every array-like argument (list, tuple, float64 ndarray, non-contiguous and
        negatively strided views, list of numpy scalars, int64 ndarray) crossed with the mode keywords that change the internal path (multinom, log, just_hess, nested
        index positions incl. the last one and a zero-valued nested parameter, fixed_params, bounds) for every public function of dadi.Godambe (enumerated from the
        source fail-closed) and the optimiser helpers / objective function / Misc / Numerics / low-pass / Spectrum-method / from_phi / model / from_demes calls of the
        catalogue: every argument bit-for-bit unchanged (values, types, dtypes, strides, raw bytes), the immediate repeat of the call on the same objects returns the
        same value, sequences of statistics on the same objects return their pristine single-call values.  A failed translator obligation naming Godambe.py runs the
        Godambe block in thorough size before no-failing-input-found may be reported.

"Fresh interpreter": importing dadi costs 2-3 s, so every reference call / history / layout chunk runs in its own FORK of an
interpreter that has imported the rebuilt dadi and done nothing else (harness/impl/c20_impl.py mode 'batch', one interpreter
group per PYTHONHASHSEED); a sample of calls is also run in newly exec'ed interpreters and must agree bitwise.  The driver refuses
to run if `import dadi` did not come from the overlay (dadi is also installed in /venv, pointing at /repo) and the harness checks
that every interpreter saw the overlay stamp the check started with.
"""
import copy, json, os, hashlib, time
from concurrent.futures import ThreadPoolExecutor
from harness import lib
from harness.lib import b
from harness.translate import entry_protocol as ep
from harness.props import c20_scan as scan
from harness.props import c20_nearcol as nc
from harness.props import c20_alias as al
from harness.props import c20_cross as cr

R = os.path.join(lib.REPO, 'dadi')
ENV = {'OPENBLAS_NUM_THREADS': '1', 'MKL_NUM_THREADS': '1', 'DADI_REPO': lib.REPO}
JOBS = 6

K_INPLACE = 'Integration.%s:argument-modified-and-returned'
K_PHI_LAYOUT = 'Integration.%s:noncontiguous-phi-wrong-result'
K_XX_LAYOUT = 'Integration.*_pops:noncontiguous-xx-to-kernels'
K_PERTURB = 'Misc.perturb_params:None-bounds-rewritten-in-caller-lists'
K_GODAMBE = 'Godambe.cache:func_ex-hash-stale-after-id-reuse'

PUBLIC_INTEGRATORS = ['one_pop', 'two_pops', 'three_pops', 'four_pops', 'five_pops', 'one_pop_X']
INTERNAL_INPLACE = ['_inject_mutations_1D', '_inject_mutations_2D', '_inject_mutations_3D', '_inject_mutations_4D',
                    '_inject_mutations_5D', '_inject_mutations_1D_X', '_one_pop_const_params', '_two_pops_const_params',
                    '_three_pops_const_params', '_one_pop_const_params_X']
INTEG_NAME = {1: 'one_pop', 2: 'two_pops', 3: 'three_pops', 4: 'four_pops', 5: 'five_pops'}

# documented in-place (docstring "Alters phi in place") or internal helpers; anything else mutating a parameter is a finding
DOCUMENTED_INPLACE = {
    'Integration.py': set(['_inject_mutations_1D', '_inject_mutations_2D', '_inject_mutations_3D', '_inject_mutations_4D',
                           '_inject_mutations_5D', '_inject_mutations_1D_X']),
    'PhiManip.py': set(['phi_2D_admix_1_into_2', 'phi_2D_admix_2_into_1', 'phi_3D_admix_1_and_2_into_3',
                        'phi_3D_admix_1_and_3_into_2', 'phi_3D_admix_2_and_3_into_1', 'phi_4D_admix_into_1',
                        'phi_4D_admix_into_2', 'phi_4D_admix_into_3', 'phi_4D_admix_into_4', 'phi_5D_admix_into_1',
                        'phi_5D_admix_into_2', 'phi_5D_admix_into_3', 'phi_5D_admix_into_4', 'phi_5D_admix_into_5']),
    # file utility outside the families the property names (integrators, spectrum methods, likelihoods, optimiser helpers):
    # make_fux_table overwrites the diagonal of the rate matrix Q it is given (recorded in the evidence, not a finding)
    'Misc.py': set(['make_fux_table']),
    'Inference.py': set(), 'Numerics.py': set(), 'Godambe.py': set(), 'Spectrum_mod.py': set(),
}

# the key_complete table: cache -> (memoised function, key expression, Coq lemma)
KEY_TABLE = {
    ('Numerics.py', '_multinomln_cache'): ('multinomln', 'tuple(N)', 'key_complete_multinomln_cache'),
    ('Numerics.py', '_BetaBinomln_cache'): ('BetaBinomln', '(i, n, a, b)', 'key_complete_BetaBinomln_cache'),
    ('Numerics.py', '_part_cache'): ('cached_part', '(x, n, minval, maxval)', 'key_complete_part_cache'),
    ('Numerics.py', '_part_precalc_cache'): ('cached_part_precalc', '(x, n, minval, maxval)', 'key_complete_part_precalc_cache'),
    ('Numerics.py', '_projection_cache'): ('_cached_projection', '(proj_to, proj_from, hits)', 'key_complete_projection_cache'),
    ('Spectrum_mod.py', '_dbeta_cache'): ('cached_dbeta', '(nx, tuple(xx))', 'key_complete_dbeta_cache'),
}
GODAMBE_KEYS = {
    '(func_ex.__hash__(), tuple(params), tuple(ns), tuple(grid_pts))': 'identity-hash',
    '(hash(func_ex), tuple(params), tuple(ns), tuple(grid_pts))': 'identity-hash',
    '(id(func_ex), tuple(params), tuple(ns), tuple(grid_pts))': 'identity-hash',
    '(func_ex, tuple(params), tuple(ns), tuple(grid_pts))': 'strong-reference',
}

# every piece of memo-like state in the source tree (c20_scan.memo_state: module-level dictionaries, dictionaries captured by a
# generated closure, memoising decorators, mutable defaults that are stored into, state hung on function objects, `global`
# re-bindings), per file relative to dadi/.  Any difference is a broken obligation and sends the check to the near-collision
# search of the families of that file (nc.FAMILIES_OF_FILE).
EXPECTED_STATE = {
    'Godambe.py': ['module:cache'],
    'Inference.py': ['default:_object_func.func_kwargs', 'default:_object_func_resid.func_kwargs', 'global:_object_func._counter',
                     'global:_object_func._theta_store', 'global:_object_func_resid._counter', 'global:_object_func_resid._theta_store',
                     'global:optimize_grid._theta_store', 'module:_theta_store'],
    'Integration.py': ['global:set_timescale_factor.timescale_factor'],
    'Misc.py': ['global:delayed_flush.__times_last_flushed', 'module:__times_last_flushed'],
    'Numerics.py': ['module:_BetaBinomln_cache', 'module:_multinomln_cache', 'module:_part_cache', 'module:_part_precalc_cache', 'module:_projection_cache'],
    'Plotting.py': ['module:_extend_mapping'],
    'Spectrum_mod.py': ['global:Spectrum.from_demes.Demes', 'global:Spectrum.from_demes._imported_demes', 'global:Spectrum.from_demes.demes', 'module:_dbeta_cache'],
    '__init__.py': ['module:__pdoc__'],
    'Demes/Inference.py': ['global:_object_func._counter'],
    'Demes/__init__.py': ['global:output.cache', 'modlist:cache'],
    'LowPass/LowPass.py': ['closure:make_low_pass_func_GATK_multisample.precalc_cache'],
    # outside the families the property names (tri-allelic / two-locus spectra, CUDA bindings): listed so that a change is seen, not exercised
    'Triallele/numerics.py': ['module:projection_cache', 'module:sample_cache', 'module:transition1D_cache'],
    'TwoLocus/demographics.py': ['global:set_cache_path.cache_path'],
    'TwoLocus/inference.py': ['default:_object_func.func_kwargs', 'default:_object_func_interp.func_kwargs', 'global:_object_func._counter',
                              'global:_object_func._theta_store', 'global:_object_func_interp._counter', 'global:_object_func_interp._theta_store'],
    'TwoLocus/numerics.py': ['module:genotype_projection_cache', 'module:prob_cache', 'module:sample_cache'],
    'cuda/cusparse.py': ['module:cusparseExceptions'],
}

# every module-level SETTING of the source tree (c20_scan.settings_state): names bound at module level to a scalar literal that a function reads as a
# free name / re-binds with `global` / that is read as <Module>.<name> anywhere, and module-level random generators.  A setting is an ARGUMENT of every
# call that reads it (handed over by plain attribute assignment): nc.SETTING_TABLE gives each one its role and the values of the setting-collision pairs.
EXPECTED_SETTINGS = {
    'Demes/Demes.py': ['setting:_imported_demes'],
    'Demes/Inference.py': ['setting:_counter', 'setting:_out_of_bounds_val'],
    'Godambe.py': ['setting:two_pt_deriv_test'],
    'Inference.py': ['setting:_counter', 'setting:_out_of_bounds_val'],
    'Integration.py': ['setting:cuda_enabled', 'setting:old_timescale_factor', 'setting:timescale_factor', 'setting:use_delj_trick', 'setting:use_old_timestep'],
    'LowPass/LowPass.py': ['rng:rng'],
    'Misc.py': ['setting:code'],
    'Spectrum_mod.py': ['setting:_imported_demes'],
    'TwoLocus/demographics.py': ['setting:cache_path'],
    'TwoLocus/inference.py': ['setting:_counter', 'setting:_out_of_bounds_val'],
    'TwoLocus/numerics.py': ['setting:tol'],
    'cuda/__init__.py': ['setting:BLOCKSIZE'],
    'cuda/cusparse.py': ['setting:_libcusparse'],
}
# memoised functions (memoising decorator, or storing into a module-level dictionary) that read a setting, directly or through functions of their file.
# Inference._object_func / _object_func_resid store into _theta_store, which is a LOG (read by optimize_grid only, after resetting it - obligation below),
# not a memo: what they return is never taken from it.  Anything else here is a memo whose key lacks an argument (C20_setting_outside_key_refuted).
EXPECTED_MEMO_READS = {
    'Inference.py': ['_object_func:_counter', '_object_func:_out_of_bounds_val', '_object_func_resid:_counter', '_object_func_resid:_out_of_bounds_val'],
}

# every call that passes a `copy=` keyword (entry_protocol.copy_keywords; exec templates included): literal True, or the three constructors
# handing their own `copy` parameter (default True) to numpy.ma.masked_array.  copy=False would make numpy keep the caller's buffers - data AND mask.
EXPECTED_COPY_KW = [
    'Godambe.py:LRT_adjust.diff_func:numpy.array(copy=True)', 'Godambe.py:Wald_stat.diff_func:numpy.array(copy=True)', 'Godambe.py:get_grad:numpy.array(copy=True)',
    'Godambe.py:hessian_elem:numpy.array(copy=True)', 'Godambe.py:score_stat.diff_func:numpy.array(copy=True)',
    'Spectrum_mod.py:Spectrum.__new__:numpy.ma.masked_array(copy=copy)', 'Triallele/TriSpectrum_mod.py:TriSpectrum.__new__:numpy.ma.masked_array(copy=copy)',
    'TwoLocus/TLSpectrum_mod.py:TLSpectrum.__new__:np.ma.masked_array(copy=copy)',
]

# ------------------------------------------------------------------------------------------------------------------
# (T) translators

def translator_tie(ctx):
    info = {'protocols': {}, 'godambe_key': None, 'broken_families': set()}
    n_ob0 = len(ctx.obligations)
    def mark(fams, since):
        """obligations registered since index `since` that failed: their families get the thorough-size near-collision search"""
        if any(not o['ok'] for o in ctx.obligations[since:]):
            info['broken_families'].update(fams)
    # --- every piece of memo-like state of the source tree, fail-closed
    try:
        state = scan.memo_state(R)
    except ep.Refuse as e:
        ctx.obligation('enumerate the memo-like state of dadi/**/*.py', False, 'translator', str(e))
        info['broken_families'].update(nc.ALL_FAMILIES + ['settings'])
        state = None
    if state is not None:
        diff = {}
        for f in sorted(set(state) | set(EXPECTED_STATE)):
            if sorted(state.get(f, [])) != sorted(EXPECTED_STATE.get(f, [])):
                diff[f] = {'new': sorted(set(state.get(f, [])) - set(EXPECTED_STATE.get(f, []))), 'gone': sorted(set(EXPECTED_STATE.get(f, [])) - set(state.get(f, [])))}
                info['broken_families'].update(nc.FAMILIES_OF_FILE.get(f, []))
        ctx.obligation('dictionaries that outlive a call (module level, captured by a generated closure, memoising decorators, mutable defaults, function attributes, '
                       'global re-bindings) in dadi/**/*.py are exactly the %d listed ones' % sum(len(v) for v in EXPECTED_STATE.values()),
                       not diff, 'translator', json.dumps(diff)[:600])
        info['memo_state_diff'] = diff
        if any(v['new'] for v in diff.values()):
            # a NEW memo: the setting-collision pairs of the entry points that can reach it run in thorough-size numbers (that is the search)
            info['broken_families'].add('settings')
    # --- module-level settings: arguments handed over by attribute assignment
    info['setting_defaults'] = {}
    try:
        sitems, sdefaults, smemo = scan.settings_state(R)
    except (ep.Refuse, SyntaxError) as e:
        ctx.obligation('enumerate the module-level settings of dadi/**/*.py', False, 'translator', str(e))
        info['broken_families'].update(nc.ALL_FAMILIES + ['settings'])
    else:
        info['setting_defaults'] = sdefaults
        diff = {}
        for f in sorted(set(sitems) | set(EXPECTED_SETTINGS)):
            if sorted(sitems.get(f, [])) != sorted(EXPECTED_SETTINGS.get(f, [])):
                diff[f] = {'new': sorted(set(sitems.get(f, [])) - set(EXPECTED_SETTINGS.get(f, []))), 'gone': sorted(set(EXPECTED_SETTINGS.get(f, [])) - set(sitems.get(f, [])))}
                info['broken_families'].update(nc.FAMILIES_OF_FILE.get(f, []) + ['settings'])
        ctx.obligation('module-level settings (scalars that functions read as free names or as <Module>.<name>, module-level random generators) in dadi/**/*.py are exactly the '
                       '%d listed ones' % sum(len(v) for v in EXPECTED_SETTINGS.values()), not diff, 'translator', json.dumps(diff)[:600])
        norole = sorted('%s:%s' % k for k in sdefaults if nc.setting_role(*k) is None)
        norole += sorted('%s:%s' % (f, it[4:]) for f, its in sitems.items() for it in its if it.startswith('rng:') and nc.setting_role(f, it[4:]) is None)
        ctx.obligation('every module-level setting has a reviewed role (value: exercised by setting-collision pairs / bookkeeping / constant / unavailable / unexercised / outside)',
                       not norole, 'translator', repr(norole))
        exercised = sorted('%s.%s' % (nc.setting_modname(k[0]), k[1]) for k in sdefaults if (nc.setting_role(*k) or {}).get('role') == 'value')
        info['settings_exercised'] = exercised
        mdiff = {}
        for f in sorted(set(smemo) | set(EXPECTED_MEMO_READS)):
            if sorted(smemo.get(f, [])) != sorted(EXPECTED_MEMO_READS.get(f, [])):
                mdiff[f] = {'new': sorted(set(smemo.get(f, [])) - set(EXPECTED_MEMO_READS.get(f, []))), 'gone': sorted(set(EXPECTED_MEMO_READS.get(f, [])) - set(smemo.get(f, [])))}
                info['broken_families'].update(nc.FAMILIES_OF_FILE.get(f, []) + ['settings'])
        ctx.obligation('no memoised function (memoising decorator, or storing into a module-level dictionary) reads a module-level setting - directly or through functions of its file - '
                       'beyond the %d reviewed log writers: a setting read by a memoised function is part of the call and must be part of the key (C20_setting_outside_key_refuted)'
                       % sum(len(v) for v in EXPECTED_MEMO_READS.values()), not mdiff, 'translator', json.dumps(mdiff)[:600])
        info['memo_setting_reads_diff'] = mdiff
    # --- integrators
    try:
        protos = ep.integrator_protocols(os.path.join(R, 'Integration.py'))
    except ep.Refuse as e:
        ctx.obligation('translate Integration.py entry protocols', False, 'translator', str(e))
        protos = {}
    else:
        ctx.obligation('translate Integration.py entry protocols', True, 'translator')
    unknown = sorted(set(protos) - set(PUBLIC_INTEGRATORS) - set(INTERNAL_INPLACE))
    ctx.obligation('every function of Integration.py taking phi is a known integrator or internal helper', not unknown, 'translator', repr(unknown))
    missing = sorted((set(PUBLIC_INTEGRATORS) | set(INTERNAL_INPLACE)) - set(protos))
    ctx.obligation('no known integrator / helper disappeared from Integration.py', not missing, 'translator', repr(missing))
    files = []
    for name in PUBLIC_INTEGRATORS:
        d = protos.get(name)
        if d is None:
            continue
        try:
            kind = ep.classify_integrator(name, d)
        except ep.Refuse as e:
            ctx.obligation('entry protocol of Integration.%s recognised' % name, False, 'translator', str(e))
            continue
        info['protocols'][name] = {'kind': kind, 'copies': bool(d['copies_at_entry']), 'early': bool(d['early_return_before_copy'])}
        v = '\n'.join([
            'From Coq Require Import List Bool.',
            'From Dadi Require Import Model.Heap.',
            '(* extracted from dadi/Integration.py, def %s (line %d): first statement copies phi: %s; return of the argument before any copy: %s (lines %r); kernels on %r *)'
            % (name, d['line'], d['copies_at_entry'], d['early_return_before_copy'], d['returns_argument_lines'], d['kernels_on']),
            'Definition proto_%s := {| copies_at_entry := %s; early_return_before_copy := %s |}.' % (name, b(d['copies_at_entry']), b(d['early_return_before_copy'])),
            'Lemma ob_%s : proto_%s = copy_protocol.' % (name, name),
            'Proof. reflexivity. Qed.', ''])
        files.append(('C20_ob_proto_' + name, v, name))
    res = lib.run_case_files([(n, t) for n, t, _ in files], timeout=300)
    for n, t, name in files:
        rc, so, se, secs = res[n]
        ok = ctx.obligation('generated obligation %s: entry protocol of Integration.%s = copy_protocol (phi = phi.copy() first, no earlier return phi)' % (n, name),
                            rc == 0, 'translator', se[-300:] if rc else '')
        if not ok:
            ctx.obligations[-1]['known_key'] = K_INPLACE % name
    ctx.checker_cmds.append('coqc build/cases/C20_ob_proto_*.v (regenerated from dadi/Integration.py)')
    for name in INTERNAL_INPLACE:
        d = protos.get(name)
        if d is None:
            continue
        try:
            kind = ep.classify_integrator(name, d)
            ok = kind == 'inplace'
            det = '' if ok else 'classified %s' % kind
        except ep.Refuse as e:
            ok, det = False, str(e)
        ctx.obligation('internal helper Integration.%s works on the array it is handed (called by the public integrator on its copy)' % name, ok, 'translator', det)
    # the const-parameter helpers are reached only from their public integrator, after the copy
    for pub, priv in (('one_pop', '_one_pop_const_params'), ('two_pops', '_two_pops_const_params'), ('three_pops', '_three_pops_const_params'),
                      ('one_pop_X', '_one_pop_const_params_X')):
        d = protos.get(pub)
        if d is None:
            continue
        ok = (priv, 'phi') in [tuple(x) for x in d['delegates']] and d['copies_at_entry']
        ctx.obligation('Integration.%s delegates to %s(phi, ...) after copying' % (pub, priv), ok, 'translator', repr(d['delegates']))
    # --- .pyx wrappers
    try:
        w = ep.pyx_wrappers(os.path.join(R, 'integration_c.pyx'))
        bad = {k: v for k, v in w.items() if v['first_arg'] != '<double*>phi.data' or v['returns'] != ['phi']}
        ctx.obligation('integration_c.pyx: all %d wrappers pass the raw data pointer of phi to the C kernel and return phi itself' % len(w),
                       not bad and len(w) >= 20, 'translator', repr(bad)[:300])
        info['pyx'] = len(w)
    except ep.Refuse as e:
        ctx.obligation('translate integration_c.pyx wrappers', False, 'translator', str(e))
    # --- reorder_pops, demes hand-off, Spectrum.S
    try:
        info['reorder'] = ep.reorder_descriptor(os.path.join(R, 'PhiManip.py'))
        ctx.obligation('PhiManip.reorder_pops recognised (%s)' % info['reorder'], True, 'translator')
    except ep.Refuse as e:
        ctx.obligation('PhiManip.reorder_pops recognised', False, 'translator', str(e))
    try:
        h = ep.demes_handoff(os.path.join(R, 'Demes', 'Demes.py'))
        ctx.obligation('Demes._integrate_phi hands phi straight to Integration.*', all(v == 'phi' for v in h.values()), 'translator', repr(h))
    except ep.Refuse as e:
        ctx.obligation('Demes._integrate_phi recognised', False, 'translator', str(e))
    try:
        kind = ep.spectrum_S(os.path.join(R, 'Spectrum_mod.py'))
        ctx.obligation('Spectrum.S is %s (Heap.save_mutate_restore_frames applies)' % kind, kind in ('save-mutate-restore', 'pure'), 'translator')
    except ep.Refuse as e:
        ctx.obligation('Spectrum.S recognised', False, 'translator', str(e))
    # --- Spectrum arithmetic operators (exec-generated): the constructor call that builds the result copies data AND mask
    info['arith'] = {}
    try:
        ops = ep.spectrum_operators(os.path.join(R, 'Spectrum_mod.py'))
    except ep.Refuse as e:
        ctx.obligation('translate the exec-generated arithmetic operators of Spectrum_mod.py (constructor protocol of the result)', False, 'translator', str(e))
        ops = {}
    else:
        ctx.obligation('translate the exec-generated arithmetic operators of Spectrum_mod.py (constructor protocol of the result)', True, 'translator')
        miss = sorted((set(ep.ARITH_BINARY) | set(ep.ARITH_INPLACE)) - set(ops))
        ctx.obligation('every arithmetic operator of Spectrum (%d binary / reflected, %d in-place) is generated by the recognised templates' % (
            len(ep.ARITH_BINARY), len(ep.ARITH_INPLACE)), not miss, 'translator', repr(miss))
    afiles = []
    for m in ep.ARITH_BINARY:
        d = ops.get(m)
        if d is None or d['kind'] != 'binary':
            continue
        info['arith'][m] = {'copies': d['copies'], 'copy_kw': d['copy_kw'], 'ctor_default_copy': d['ctor_default_copy']}
        v = '\n'.join([
            'From Coq Require Import List Bool.',
            'From Dadi Require Import Model.Heap.',
            '(* extracted from dadi/Spectrum_mod.py, operator template at line %d instantiated for %s: newdata = %s; newmask = %s;' % (d['line'], m, ' | '.join(d['newdata']), ' | '.join(d['newmask'])),
            '   result = %s ;  copy keyword of that call: %r, default of Spectrum.__new__(copy=): %r *)' % (d['ctor'].replace('*)', '* )'), d['copy_kw'], d['ctor_default_copy']),
            'Definition proto_%s := {| ctor_copies := %s |}.' % (m.strip('_'), b(d['copies'])),
            'Lemma ob_%s : proto_%s = arith_copy_protocol.' % (m.strip('_'), m.strip('_')),
            'Proof. reflexivity. Qed.', ''])
        afiles.append(('C20_ob_arith_' + m.strip('_'), v, m))
    ares = lib.run_case_files([(n, t) for n, t, _ in afiles], timeout=300) if afiles else {}
    for n, t, m in afiles:
        rc, so, se, secs = ares[n]
        ctx.obligation('generated obligation %s: Spectrum.%s builds its result with a constructor call that COPIES data and mask (= arith_copy_protocol; '
                       'C20_arith_copy_result_edit_frames_operand applies, otherwise C20_arith_nocopy_refuted)' % (n, m), rc == 0, 'translator', se[-300:] if rc else '')
    if afiles:
        ctx.checker_cmds.append('coqc build/cases/C20_ob_arith_*.v (regenerated from the operator templates of dadi/Spectrum_mod.py)')
    try:
        ck = ep.copy_keywords(R)
        diff = {'new': sorted(set(ck) - set(EXPECTED_COPY_KW)), 'gone': sorted(set(EXPECTED_COPY_KW) - set(ck))}
        ctx.obligation('`copy=` keywords in dadi/**/*.py (string templates included) are the %d listed ones: literal True, or a constructor passing on its own copy=True default'
                       % len(EXPECTED_COPY_KW), not diff['new'] and not diff['gone'], 'translator', json.dumps(diff)[:500])
        info['copy_kw_diff'] = diff
    except ep.Refuse as e:
        ctx.obligation('enumerate the `copy=` keywords of dadi/**/*.py', False, 'translator', str(e))
    # --- parameter mutations
    info['param_mutations'] = {}
    for fname, allowed in sorted(DOCUMENTED_INPLACE.items()):
        try:
            pm = ep.param_mutations(os.path.join(R, fname))
        except ep.Refuse as e:
            ctx.obligation('scan %s for parameter mutations' % fname, False, 'translator', str(e))
            continue
        extra = {k: v for k, v in pm.items() if k not in allowed}
        info['param_mutations'][fname] = {k: [list(t) for t in v] for k, v in pm.items()}
        ok = ctx.obligation('%s: no function outside the documented in-place list stores into / mutates a parameter' % fname, not extra, 'translator', repr(extra)[:300])
        if not ok and fname == 'Misc.py' and set(extra) == {'perturb_params'}:
            ctx.obligations[-1]['known_key'] = K_PERTURB
    # --- caches
    for fname in ('Numerics.py', 'Spectrum_mod.py'):
        since = len(ctx.obligations)
        try:
            names = ep.module_caches(os.path.join(R, fname))
        except ep.Refuse as e:
            ctx.obligation('enumerate module-level dictionaries of %s' % fname, False, 'translator', str(e))
            continue
        expect = sorted(c for f, c in KEY_TABLE if f == fname)
        ctx.obligation('module-level dictionaries of %s = %r' % (fname, expect), sorted(names) == expect, 'translator', repr(sorted(names)))
        for c in names:
            if (fname, c) not in KEY_TABLE:
                continue
            func, keyexpr, lemma = KEY_TABLE[(fname, c)]
            try:
                ck = ep.cache_keys(os.path.join(R, fname), c)
            except ep.Refuse as e:
                ctx.obligation('key expression of %s' % c, False, 'translator', str(e))
                continue
            users = sorted(ck)
            ok = users == [func] and ck[func]['keys'] == [keyexpr] and ck[func]['parent'] is None
            uncovered = ep.key_covers(ck[func], []) if func in ck else ['?']
            ctx.obligation('%s.%s: used by %s only, one key expression %s, every parameter occurs in it (%s)' % (fname[:-3], c, func, keyexpr, lemma),
                           ok and not uncovered, 'translator', '%r uncovered=%r' % ({u: ck[u]['keys'] for u in users}, uncovered))
            if c == '_dbeta_cache' and func in ck:
                # the key is formed before xx is re-bound to the clipped grid
                rb = ck[func]['param_rebinds'].get('xx', [])
                ctx.obligation('_dbeta_cache: key built from the grid as passed (line %s), value from the clipped grid (re-bound at %r)' % (ck[func]['key_line'], rb),
                               (not rb) or ck[func]['key_line'] < min(rb), 'translator')
        mark(nc.FAMILIES_OF_FILE[fname], since)
    # Godambe
    since = len(ctx.obligations)
    try:
        names = ep.module_caches(os.path.join(R, 'Godambe.py'))
        if names == []:
            info['godambe_key'] = 'no-module-level-cache'
            ctx.obligation('Godambe.py has no module-level cache (nothing survives a call)', True, 'translator')
        else:
            ck = ep.cache_keys(os.path.join(R, 'Godambe.py'), 'cache')
            ok = names == ['cache'] and sorted(ck) == ['func'] and len(ck['func']['keys']) == 1 and ck['func']['keys'][0] in GODAMBE_KEYS
            ctx.obligation('Godambe.cache: one user (get_godambe.func), one recognised key expression', ok, 'translator', repr({k: v['keys'] for k, v in ck.items()}))
            if ok:
                info['godambe_key'] = GODAMBE_KEYS[ck['func']['keys'][0]]
                unc = ep.key_covers(ck['func'], ep.module_caches(os.path.join(R, 'Godambe.py')) + ['Inference', 'numpy', 'cache'])
                ctx.obligation('Godambe.cache: every name the stored spectrum is computed from occurs in the key', not unc, 'translator', repr(unc))
                good = info['godambe_key'] == 'strong-reference'
                o = ctx.obligation('Godambe.cache key determines the stored value for the lifetime of the entry (key %s: %s)' % (
                    ck['func']['keys'][0], 'godambe_strong_ref_transparent applies' if good else 'an address, reused after the closure is collected - godambe_cache_key_refuted applies'),
                    good, 'translator')
                if not o:
                    ctx.obligations[-1]['known_key'] = K_GODAMBE
    except ep.Refuse as e:
        ctx.obligation('Godambe.cache key recognised', False, 'translator', str(e))
    mark(['godambe'], since)
    # LowPass closure cache
    since = len(ctx.obligations)
    try:
        ck = ep.cache_keys(os.path.join(R, 'LowPass', 'LowPass.py'), 'precalc_cache')
        d = ck.get('lowpass_func')
        consts = ['nsub', 'nseq', 'cov_dist', 'sim_threshold', 'Fx', 'nsim']
        ok = d is not None and d['keys'] == ['tuple(nsub)'] and d['parent'] == 'make_low_pass_func_GATK_multisample' \
            and set(d['rhs_names']) <= set(consts) | {'low_cov_precalc_GATK_multisample_GATK_multisample'} and not d['params']
        ctx.obligation('LowPass precalc_cache: closure-level, key tuple(nsub), value computed from closure constants only (key_complete_lowpass_precalc_cache)',
                       ok, 'translator', repr(d))
    except ep.Refuse as e:
        ctx.obligation('LowPass precalc_cache recognised', False, 'translator', str(e))
    mark(['lowpass', 'lowpass-helpers'], since)
    since = len(ctx.obligations)
    # Inference._theta_store: a log written by _object_func(store_thetas=True), reset and read inside optimize_grid only
    try:
        ck = ep.cache_keys(os.path.join(R, 'Inference.py'), '_theta_store')
        readers = sorted(k for k, v in ck.items() if v['reads'])
        ctx.obligation('Inference._theta_store is read by optimize_grid only (which resets it first)', readers == ['optimize_grid'], 'translator', repr(readers))
    except ep.Refuse as e:
        ctx.obligation('Inference._theta_store recognised', False, 'translator', str(e))
    mark(['inference'], since)
    return info

# ------------------------------------------------------------------------------------------------------------------
# call catalogue

def dy(rng, lo, hi, bits=2):
    return lib.dyadic(rng, lo, hi, bits)

def gen_fs(rng, shape, pop_ids=True, extra_mask=False):
    n = 1
    for s in shape:
        n *= s
    vals = [dy(rng, 0, 32) for _ in range(n)]
    r = {'shape': list(shape), 'vals': vals}
    if pop_ids:
        r['pop_ids'] = ['pop%d' % i for i in range(len(shape))]
    if extra_mask and n > 4:
        r['mask'] = [rng.randrange(1, n - 1)]
    return r

def gen_phi(rng, d, pts):
    def vec(pos):
        return [dy(rng, 0.25 if pos else 0, 4) for _ in range(pts)]
    return {'vecs': [vec(True) for _ in range(d)], 'vecs2': [vec(False) for _ in range(d)], 'c': dy(rng, 0, 1)}

class Catalogue:
    def __init__(self, ctx):
        rng = ctx.rng
        self.rng = rng
        self.fs1 = [gen_fs(rng, [n + 1], extra_mask=(k == 1)) for k, n in enumerate([4, 6, 6, 8])]
        self.fs2 = [gen_fs(rng, s, extra_mask=(k == 2)) for k, s in enumerate([(5, 4), (4, 4), (5, 5)])]
        self.fs3 = [gen_fs(rng, (3, 4, 3))]
        self.phis = {}
        for d, ptsl in ((1, [8, 10]), (2, [8, 10]), (3, [6, 8]), (4, [5, 6]), (5, [4, 5])):
            for pts in ptsl:
                self.phis[(d, pts)] = [gen_phi(rng, d, pts) for _ in range(2)]
        self.covs = [[0.125, 0.25, 0.375, 0.25], [0.0625, 0.1875, 0.25, 0.25, 0.25], [0.5, 0.25, 0.25]]
        self.data1 = gen_fs(rng, [5], pop_ids=False)
        self.data1['vals'] = [0.0, 40.0, 22.0, 13.0, 0.0]
        self.boots = []
        for k in range(2):
            bt = copy.deepcopy(self.data1)
            bt['vals'] = [0.0] + [v + dy(rng, -6, 6, 0) for v in self.data1['vals'][1:-1]] + [0.0]
            self.boots.append(bt)
        self.data2 = gen_fs(rng, [4, 4], pop_ids=False)

    # every generator returns one call specification
    def g_sp(self):
        rng = self.rng
        pool = rng.choice([self.fs1, self.fs1, self.fs2, self.fs2, self.fs3])
        fs = copy.deepcopy(rng.choice(pool))
        nd = len(fs['shape']); ns = [s - 1 for s in fs['shape']]
        ms = ['fold', 'project', 'log', 'S', 'sum', 'unfold']
        if nd == 1:
            ms += ['Watterson_theta', 'pi', 'Tajima_D', 'theta_L', 'Zengs_E', 'project', 'project']
        else:
            ms += ['marginalize', 'marginalize', 'Fst', 'reorder_pops', 'combine_pops', 'filter_pops', 'scramble_pop_ids', 'project', 'add', 'mul']
        m = rng.choice(ms)
        s = {'op': 'sp', 'm': m, 'fs': fs, 'a': []}
        if m == 'project':
            s['a'] = [[rng.randint(2, n) for n in ns]]
            if rng.random() < 0.3:
                fs['fold'] = True
        elif m == 'unfold':
            fs['fold'] = True
        elif m == 'marginalize':
            s['a'] = [sorted(rng.sample(range(nd), rng.randint(1, nd - 1)))]
        elif m == 'reorder_pops':
            o = list(range(1, nd + 1)); rng.shuffle(o); s['a'] = [o]
        elif m == 'combine_pops':
            s['a'] = [sorted(rng.sample(range(1, nd + 1), 2))]
        elif m == 'filter_pops':
            s['a'] = [sorted(rng.sample(range(1, nd + 1), rng.randint(1, nd - 1)))]
        elif m in ('add', 'mul'):
            s['fs2'] = copy.deepcopy(fs); s['fs2']['vals'] = list(reversed(fs['vals']))
        elif m in ('fold', 'S', 'sum', 'log') and rng.random() < 0.3:
            fs['fold'] = (m != 'fold') and rng.random() < 0.5
        if m in ('S', 'sum', 'log', 'project', 'marginalize') and not fs.get('fold') and rng.random() < 0.6:
            fs['mask_corners'] = False
        return s

    def g_model(self):
        rng = self.rng
        kind = rng.choice(['snm_1d', 'two_epoch', 'two_epoch', 'growth', 'bottlegrowth_1d', 'three_epoch', 'snm_2d', 'split_mig', 'split_mig', 'IM',
                           'bottlegrowth_2d', 'm3', 'm4', 'm5'])
        npar = {'snm_1d': 0, 'two_epoch': 2, 'growth': 2, 'bottlegrowth_1d': 3, 'three_epoch': 4, 'snm_2d': 0, 'split_mig': 4, 'IM': 6,
                'bottlegrowth_2d': 3, 'm3': 6, 'm4': 6, 'm5': 7}[kind]
        dim = {'snm_2d': 2, 'split_mig': 2, 'IM': 2, 'bottlegrowth_2d': 2, 'm3': 3, 'm4': 4, 'm5': 5}.get(kind, 1)
        pal = [0.5, 1.0, 2.0, 0.25, 1.5]
        p = [rng.choice(pal) for _ in range(npar)]
        if kind == 'IM':
            p[0] = rng.choice([0.25, 0.5, 0.75])
        if kind in ('m3', 'm4', 'm5'):
            p[-2] = rng.choice([0.0625, 0.125])       # T
        ns = [rng.choice([3, 4]) if dim <= 2 else 2 for _ in range(dim)]
        if dim == 1:
            ns = [rng.choice([4, 6])]
        pts = {1: rng.choice([8, 10, [8, 10, 12]]), 2: rng.choice([8, [8, 10]]), 3: 6, 4: 5, 5: 4}[dim]
        return {'op': 'model', 'kind': kind, 'p': p, 'ns': ns, 'pts': pts}

    def g_from_phi(self):
        rng = self.rng
        d = rng.choice([1, 1, 2, 2, 3, 4, 5])
        pts = rng.choice([p for (dd, p) in self.phis if dd == d])
        s = {'op': 'from_phi', 'd': d, 'pts': pts, 'phi': copy.deepcopy(rng.choice(self.phis[(d, pts)])),
             'ns': [rng.choice([2, 3, 4]) if d <= 3 else 2 for _ in range(d)]}
        if rng.random() < 0.3:
            s['grid'] = 'lin'
        r = rng.random()
        if r < 0.2 and d <= 4:
            s['force'] = True
        elif r < 0.4 and d <= 3:
            s['inb'] = True; s['Fs'] = [rng.choice([0.125, 0.5]) for _ in range(d)]; s['ploidys'] = [2] * d
            s['ns'] = [rng.choice([2, 4]) for _ in range(d)]
        return s

    def g_integ(self, d=None, nonconst=None, T0=None):
        rng = self.rng
        d = d or rng.choice([1, 2, 2, 3, 4, 4, 5])
        pts = rng.choice([p for (dd, p) in self.phis if dd == d])
        s = {'op': 'integ', 'd': d, 'pts': pts, 'phi': copy.deepcopy(rng.choice(self.phis[(d, pts)])),
             'T': rng.choice([0.0625, 0.125]), 'nu': [rng.choice([0.5, 1.0, 2.0]) for _ in range(d)],
             'gamma': [rng.choice([0, 0, 1.0, -1.0]) for _ in range(d)], 'h': [0.5] * d, 'theta0': 1.0}
        if d > 1 and rng.random() < 0.6:
            s['m'] = [[0 if i == j else rng.choice([0, 0.5, 1.0]) for j in range(d)] for i in range(d)]
        s['nonconst'] = (rng.random() < 0.4) if nonconst is None else nonconst
        if rng.random() < 0.25:
            s['grid'] = 'lin'
        if (rng.random() < 0.15) if T0 is None else T0:
            s['T'] = 0
        elif d > 1 and rng.random() < 0.15 and not s.get('m'):
            fr = [rng.random() < 0.4 for _ in range(d)]
            fr[rng.randrange(d)] = False
            s['frozen'] = fr
        return s

    def g_pm(self):
        rng = self.rng
        k = rng.choice(['to2D', 'split31', 'split32', '2to3admix', '3to4', '4to5', 'remove', 'reorder', 'phi_1D'])
        d = {'to2D': 1, 'split31': 2, 'split32': 2, '2to3admix': 2, '3to4': 3, '4to5': 4, 'phi_1D': 1}.get(k) or rng.choice([2, 3, 4])
        pts = rng.choice([p for (dd, p) in self.phis if dd == d])
        s = {'op': 'pm', 'k': k, 'd': d, 'pts': pts, 'phi': copy.deepcopy(rng.choice(self.phis[(d, pts)]))}
        if k == '2to3admix':
            s['f'] = rng.choice([0.25, 0.5])
        if k == '3to4':
            s['f'] = rng.choice([[0.25, 0.5], [1, 0], [0, 0]])
        if k == '4to5':
            s['f'] = rng.choice([[0.25, 0.5, 0.125], [0, 0, 1]])
        if k == 'remove':
            s['pop'] = rng.randint(1, d)
        if k == 'reorder':
            o = list(range(1, d + 1)); rng.shuffle(o); s['order'] = o
        if k == 'phi_1D':
            s['nu'] = rng.choice([1.0, 2.0]); s['gamma'] = rng.choice([0, 1.0])
        return s

    def g_lp(self):
        rng = self.rng
        f = rng.choice(['partprob', 'projmat', 'projmat', 'nocall', 'cem', 'enough', 'func'])
        F = rng.choice([0, 0, 0.25, 0.5])
        if f == 'partprob':
            n = rng.choice([4, 6]); t = rng.choice(['genotype', 'allele_frequency'])
            s = {'op': 'lp', 'f': f, 'n': n, 'type': t, 'Fx': F}
            if t == 'allele_frequency':
                s['af'] = rng.randint(0, n)
            return s
        if f == 'projmat':
            nseq = rng.choice([4, 6]); return {'op': 'lp', 'f': f, 'nseq': nseq, 'nsub': rng.choice([2, 4]), 'F': F}
        cov = rng.choice(self.covs)
        if f == 'nocall':
            return {'op': 'lp', 'f': f, 'cov': cov, 'n': rng.choice([4, 6]), 'Fx': F}
        if f == 'cem':
            return {'op': 'lp', 'f': f, 'cov': cov, 'nsub': rng.choice([2, 4]), 'Fx': F}
        if f == 'enough':
            return {'op': 'lp', 'f': f, 'cov': cov, 'nseq': 6, 'nsub': rng.choice([2, 4])}
        return {'op': 'lp', 'f': 'func', 'kind': 'two_epoch', 'p': [rng.choice([0.5, 2.0]), 0.5], 'pts': 8,
                'pops': [{'cov': cov, 'nseq': 6, 'nsub': 4, 'F': F}]}

    def g_num(self):
        rng = self.rng
        f = rng.choice(['multinomln', 'bbconv_all', 'cached_part', 'cached_part_precalc', '_cached_projection', 'BetaBinomln'])
        if f == 'multinomln':
            a = [[rng.randint(0, 4) for _ in range(3)]]
        elif f == 'bbconv_all':
            a = [rng.choice([2, 3]), 2, rng.choice([0.5, 1.5]), rng.choice([0.5, 2.5])]
        elif f in ('cached_part', 'cached_part_precalc'):
            n = rng.choice([2, 3]); a = [rng.randint(0, 2 * n), n]
        elif f == '_cached_projection':
            nf = rng.choice([4, 6]); a = [rng.choice([2, 4]), nf, rng.randint(0, nf)]
        else:
            a = [rng.randint(0, 2), 2, rng.choice([0.5, 1.5]), rng.choice([0.5, 2.5])]
        return {'op': 'num', 'f': f, 'a': a}

    def g_ll(self):
        rng = self.rng
        pool = rng.choice([self.fs1, self.fs2])
        model = copy.deepcopy(rng.choice(pool)); data = copy.deepcopy(model)
        model['vals'] = [v + 1.0 for v in model['vals']]
        data['vals'] = [float(int(v)) for v in reversed(data['vals'])]
        return {'op': 'll', 'f': rng.choice(['ll', 'll_multinom', 'optimal_sfs_scaling', 'll_per_bin', 'linear_Poisson_residual',
                                              'Anscombe_Poisson_residual', 'optimally_scaled_sfs', 'll_multinom_per_bin']), 'model': model, 'data': data}

    def g_opt(self):
        rng = self.rng
        f = rng.choice(['perturb', 'perturb', 'proj_down', 'proj_up', 'object_func', 'object_func'])
        if f == 'perturb':
            n = rng.choice([2, 3])
            withnone = rng.random() < 0.5
            lo = [rng.choice([0.01, 0.125] + ([None] if withnone else [])) for _ in range(n)]
            hi = [rng.choice([10.0, 100.0] + ([None] if withnone else [])) for _ in range(n)]
            return {'op': 'opt', 'f': f, 'params': [rng.choice([0.5, 1.0, 2.0]) for _ in range(n)], 'lower': rng.choice([lo, lo, None]),
                    'upper': rng.choice([hi, hi, None]), 'seed': rng.randint(0, 5), 'fold': rng.choice([1, 2])}
        if f == 'proj_down':
            return {'op': 'opt', 'f': f, 'pin': [1.0, 2.0, 3.0], 'fixed': rng.choice([[None, 2.0, None], [1.0, None, None], None])}
        if f == 'proj_up':
            fx = rng.choice([[None, 2.0, None], [1.0, None, None], None])
            return {'op': 'opt', 'f': f, 'pin': [1.5, 2.5] if fx else [1.5, 2.5, 3.5], 'fixed': fx}
        fx = rng.choice([None, [None, 0.5], [2.0, None]])
        params = [rng.choice([0.5, 2.0, 3.0]), rng.choice([0.25, 0.5])]
        if fx:
            params = [p for p, x in zip(params, fx) if x is None]
        return {'op': 'opt', 'f': 'object_func', 'kind': 'two_epoch', 'params': params, 'data': copy.deepcopy(self.data1), 'pts': [8, 10],
                'lower': rng.choice([None, [0.01, None], [0.01, 0.01]]), 'upper': rng.choice([None, [100, 10], [2.5, None]]), 'fixed': fx,
                'multinom': rng.random() < 0.7}

    def g_gim(self, f=None, nu=None):
        rng = self.rng
        f = f or rng.choice(['FIM', 'GIM', 'LRT', 'LRT'])
        nu = nu or rng.choice([2.0, 3.0, 4.0, 0.5])
        s = {'op': 'gim', 'f': f, 'kind': 'two_epoch', 'p0': [nu, 0.5], 'data': copy.deepcopy(self.data1), 'pts': [10], 'multinom': True}
        if f in ('GIM', 'LRT'):
            s['boots'] = copy.deepcopy(self.boots)
        if f == 'LRT':
            s['nested'] = [1]
        return s

    def g_demes(self):
        rng = self.rng
        y = rng.choice([('bottleneck.yaml', ['our_population']), ('two_epoch.yaml', ['deme0']), ('zigzag.yaml', ['generic']),
                        ('gutenkunst_ooa.yaml', ['YRI', 'CEU']), ('gutenkunst_ooa.yaml', ['CEU', 'CHB']), ('browning_america.yaml', ['AFR', 'ADMIX']),
                        ('offshoots.yaml', ['ancestral', 'offshoot1']), ('linear_size_function_example.yaml', ['pop_1', 'pop_2'])])
        return {'op': 'demes', 'yaml': y[0], 'sampled': y[1], 'sizes': [rng.choice([3, 4])] * len(y[1]), 'pts': [rng.choice([8, 10])]}

    def g_dd(self):
        rng = self.rng
        snps = []
        for k in range(12):
            a, c = rng.sample('ACGT', 2)
            snps.append(['chr%d_%d' % (rng.randint(1, 3), 100 + 7 * k), [a, c],
                         {'YRI': [rng.randint(0, 5), rng.randint(0, 5)], 'CEU': [rng.randint(1, 4), rng.randint(0, 4)]}, rng.choice([a, c, a, '-'])])
        return {'op': 'dd', 'snps': snps, 'pop_ids': rng.choice([['YRI', 'CEU'], ['CEU', 'YRI'], ['YRI']]), 'proj': None, 'polarized': rng.random() < 0.7}

    def build(self, n):
        rng = self.rng
        gens = [(self.g_sp, 30), (self.g_model, 14), (self.g_from_phi, 8), (self.g_integ, 12), (self.g_pm, 5), (self.g_lp, 8), (self.g_num, 5),
                (self.g_ll, 7), (self.g_opt, 5), (self.g_gim, 4), (self.g_demes, 4), (self.g_dd, 2)]
        tot = sum(w for _, w in gens)
        out, seen = [], set()
        # at least one of each kind
        order = [g for g, _ in gens]
        guard = 0
        while len(out) < n and guard < 50 * n:
            guard += 1
            if len(out) < len(order):
                g = order[len(out)]
            else:
                x = rng.uniform(0, tot)
                for g, w in gens:
                    x -= w
                    if x <= 0:
                        break
            s = g()
            if s['op'] == 'dd':
                s['proj'] = [3] * len(s['pop_ids'])
            k = sig(s)
            if k in seen:
                continue
            seen.add(k); out.append(s)
        return out

def sig(spec):
    return hashlib.md5(json.dumps(spec, sort_keys=True).encode()).hexdigest()

def short(spec):
    s = {k: v for k, v in spec.items() if k not in ('fs', 'fs2', 'phi', 'data', 'model', 'boots', 'snps')}
    return json.dumps(s, sort_keys=True)[:160]

# ------------------------------------------------------------------------------------------------------------------

_STAMP = []

def overlay_stamp():
    """hash of the source tree the overlay was built from, read once when the check starts"""
    if not _STAMP:
        from harness import overlay
        try:
            _STAMP.append(open(os.path.join(overlay.OVERLAY, '.stamp')).read().strip())
        except OSError:
            _STAMP.append(None)
    return _STAMP[0]


def run_many(payloads, seeds=None, exec_each=False):
    """payloads: list of dicts; returns the results (or {'crash': text}) in order.
    Default: one interpreter per hash seed imports dadi and does nothing else; every payload runs in its own fork of it
    (so it starts from the state of a freshly started interpreter).  exec_each=True: a newly exec'ed interpreter per payload."""
    if not payloads:
        return []
    seeds = list(seeds) if seeds else [0] * len(payloads)
    def env_for(sd):
        env = dict(ENV); env['PYTHONHASHSEED'] = str(sd)
        return env
    if exec_each:
        def one(i):
            try:
                return lib.run_impl('c20_impl.py', payloads[i], timeout=900, env_extra=env_for(seeds[i]))
            except Exception as e:
                return {'crash': str(e)[-1500:]}
        with ThreadPoolExecutor(max_workers=JOBS) as ex:
            return list(ex.map(one, range(len(payloads))))
    groups = {}
    for i, sd in enumerate(seeds):
        groups.setdefault(sd, []).append(i)
    # JOBS interpreters in all, shared out in proportion to the number of payloads per hash seed
    units = []
    tot = len(payloads)
    for sd, idx in groups.items():
        nsplit = max(1, min(len(idx), int(round(JOBS * len(idx) / float(tot)))))
        for k in range(nsplit):
            part = idx[k::nsplit]
            if part:
                units.append((sd, part, 1))
    if len(units) < JOBS:
        units = [(sd, part, max(1, JOBS // len(units))) for sd, part, _ in units]
    out = [None] * len(payloads)
    def unit(u):
        sd, part, par = u
        t_unit = time.time()
        try:
            r = lib.run_impl('c20_impl.py', {'mode': 'batch', 'jobs': [payloads[i] for i in part], 'par': par}, timeout=3000, env_extra=env_for(sd))
            if 'results' not in r:
                return [{'crash': r.get('crash', 'no results')}] * len(part)
            if r.get('stamp') != overlay_stamp():
                return [{'crash': 'the interpreter ran overlay stamp %r, the check was started on %r (overlay rebuilt during the run?)' % (r.get('stamp'), overlay_stamp())}] * len(part)
            if os.environ.get('C20_TIMING'):
                import sys as _s
                _s.stderr.write('unit seed=%s jobs=%d par=%d %.1fs slowest=%r\n' % (sd, len(part), par, time.time() - t_unit,
                                sorted(((x.get('secs', 0), i) for i, x in zip(part, r['results']) if isinstance(x, dict)), reverse=True)[:3]))
            return r['results']
        except Exception as e:
            return [{'crash': str(e)[-1500:]}] * len(part)
    with ThreadPoolExecutor(max_workers=JOBS) as ex:
        for u, res in zip(units, ex.map(unit, units)):
            for i, r in zip(u[1], res):
                out[i] = r
    return out


def op_family(spec):
    if spec['op'] in ('ar', 'nx') or (spec['op'] == 'sp' and spec['m'] in ('add', 'sub', 'mul', 'div')):
        return al.family(spec, None)
    if spec['op'] == 'll':
        return 'Inference.' + spec['f']
    if spec['op'] == 'dd':
        return 'Spectrum.from_data_dict'
    if spec['op'] == 'from_phi':
        return 'Spectrum.from_phi_inbreeding' if spec.get('inb') else 'Spectrum.from_phi'
    if spec['op'] == 'opt' and spec['f'] in ('proj_down', 'proj_up') and spec.get('fixed') is None:
        return 'Inference._project_params_%s(fixed_params=None)' % spec['f'][5:]
    if spec['op'] == 'pm' and spec['k'] in ('reorder', 'admix_inplace'):
        return {'reorder': 'PhiManip.reorder_pops', 'admix_inplace': 'PhiManip.' + spec.get('fn', 'phi_%dD_admix (documented in-place)' % spec['d'])}[spec['k']]
    if spec['op'] == 'integ':
        return 'Integration.' + INTEG_NAME[spec['d']]
    if spec['op'] == 'opt':
        return {'perturb': 'Misc.perturb_params', 'object_func': 'Inference._object_func', 'proj_down': 'Inference._project_params_down',
                'proj_up': 'Inference._project_params_up'}.get(spec['f'], spec['f'])
    if spec['op'] == 'gim':
        if spec.get('fseq'):
            return 'Godambe.' + ' + '.join(cr.GIM_NAME[g] for g in spec['fseq'])
        return 'Godambe.' + cr.GIM_NAME[spec['f']]
    if spec['op'] == 'sp':
        return 'Spectrum.' + spec['m']
    if spec['op'] == 'lp':
        return 'LowPass.' + {'func': 'make_low_pass_func_GATK_multisample', 'projmat': 'projection_matrix', 'partprob': 'partitions_and_probabilities',
                             'nocall': 'probability_of_no_call_1D_GATK_multisample', 'cem': 'calling_error_matrix', 'enough': 'probability_enough_individuals_covered'}.get(spec['f'], spec['f'])
    if spec['op'] == 'num':
        return ('Spectrum_mod.' if spec['f'] == 'cached_dbeta' else 'Numerics.') + {'bbconv': 'BetaBinomConvolution', 'bbconv_all': 'BetaBinomConvolution'}.get(spec['f'], spec['f'])
    if spec['op'] == 'export':
        return {'to_file': 'Spectrum.to_file', 'tofile': 'Spectrum.tofile', 'array_to_file': 'Numerics.array_to_file', 'array_to_file_path': 'Numerics.array_to_file'}[spec['how']]
    if spec['op'] == 'demes':
        return 'Spectrum.from_demes(%s)' % (spec.get('yaml') or 'graph built with demes.Builder: ' + spec.get('builder', ''))
    return spec['op'] + ':' + str(spec.get('kind') or spec.get('f') or spec.get('k') or spec.get('yaml') or '')


class Reporter:
    """de-duplicates violations by key (one replay per key, first concrete input wins; counts kept in the evidence)"""
    def __init__(self, ctx):
        self.ctx = ctx
        self.seen = {}
        self.integ = {}
        self.alias = {'array_returning_calls': 0, 'calls_with_allowed_views': 0, 'new_alias': 0, 'families': set()}

    def report(self, key, what, data, unkeyed_id=None):
        k = key if key is not None else ('?' + str(unkeyed_id))
        self.ctx.count('violation:' + str(key))
        if k in self.seen:
            self.seen[k] += 1
            return
        self.seen[k] = 1
        self.ctx.violation(what, data=data, key=key)


def alias_findings(rep, spec, rec, where):
    """the ALIAS obligation on one evaluated call: every (result buffer, argument / module-level buffer) pair that shares memory is in al.ALLOWED"""
    if not rec.get('array_like'):
        return
    fam = op_family(spec)
    st = rep.alias
    st['array_returning_calls'] += 1
    st['families'].add(fam)
    pairs = rec.get('alias_pairs') or []
    al.discover(fam, pairs)
    if spec['op'] == 'integ':
        pairs = [p for p in pairs if p != ['R.data', 'phi.data']]       # the integrator protocol stream reports this one (with its known-finding key)
    new = al.new_pairs(fam, pairs)
    if pairs and not new:
        st['calls_with_allowed_views'] += 1
    if new:
        st['new_alias'] += 1
        mask = [p for p in new if p[0].endswith('.mask')]
        p0 = (mask or new)[0]
        rep.report(None, '%s returns a result whose buffer %s shares memory with %s%s: a later in-place edit of one object (fs.mask[...] = True, mask_corners(), +=) silently changes '
                   'the other, so later results on it depend on the history [%s]' % (
                       fam, p0[0], p0[1], (' (and %d more pairs)' % (len(new) - 1)) if len(new) > 1 else '', where),
                   {'kind': 'alias', 'call': spec, 'observed': {'new_alias_pairs': new, 'all_pairs': pairs}}, unkeyed_id='alias:' + fam)


def freeze_findings(rep, spec, rec, where):
    """argument modified / result aliases argument, from one evaluated call record"""
    fam = op_family(spec)
    alias_findings(rep, spec, rec, where)
    if spec['op'] == 'integ' and (rec.get('mutated') in (['phi'], []) ) and (rec.get('mutated') or rec.get('aliased') or rec.get('result_is_arg')):
        # collected per integrator, reported once with every symptom (flush_integrators)
        d = rep.integ.setdefault(INTEG_NAME[spec['d']], {})
        tz = spec['T'] - spec.get('initial_t', 0) == 0
        if rec.get('mutated') and 'mut' not in d:
            d['mut'] = spec
        if (rec.get('aliased') or rec.get('result_is_arg')) and not tz and 'alias' not in d:
            d['alias'] = spec
        if rec.get('result_is_arg') and tz and 't0' not in d:
            d['t0'] = spec
        rep.ctx.count('violation:' + K_INPLACE % INTEG_NAME[spec['d']])
        return
    if rec.get('mutated'):
        if spec['op'] == 'opt' and spec['f'] == 'perturb' and set(rec['mutated']) <= {'lower_bound', 'upper_bound'}:
            key = K_PERTURB
        else:
            key = None
        det = rec.get('mutated_detail', {})
        ex = ''
        for n in rec['mutated']:
            if n in det and n != 'phi':
                ex = ' (%s: %s -> %s)' % (n, json.dumps(det[n]['before'])[:80], json.dumps(det[n]['after'])[:80])
                break
        rep.report(key, '%s changes its argument(s) %s in place%s [%s]' % (fam, ', '.join(rec['mutated']), ex, where),
                   {'kind': 'freeze', 'call': spec, 'observed': {'mutated': rec['mutated'], 'detail': {k: v for k, v in det.items() if k != 'phi'}}},
                   unkeyed_id='mut:' + fam)
    if rec.get('aliased') or rec.get('result_is_arg'):
        rep.report(None, '%s returns %s [%s]' % (fam, 'its argument itself' if rec.get('result_is_arg') else 'an array sharing memory with its argument', where),
                   {'kind': 'freeze', 'call': spec, 'observed': {'aliased': rec.get('aliased'), 'result_is_arg': rec.get('result_is_arg')}},
                   unkeyed_id='alias:' + fam)


def flush_integrators(rep):
    for name, d in sorted(rep.integ.items()):
        sym = []
        if 'mut' in d:
            sym.append('integrates the caller\'s phi in place (the argument is changed bit-wise)')
        if 'alias' in d:
            sym.append('returns the argument itself, not a fresh array')
        if 't0' in d:
            sym.append('returns the argument itself un-copied when T - initial_t == 0')
        call = d.get('mut') or d.get('alias') or d.get('t0')
        rep.report(K_INPLACE % name, 'Integration.%s %s (one_pop, two_pops, three_pops start with phi = phi.copy())' % (name, '; '.join(sym)),
                   {'kind': 'freeze', 'call': call, 'also_T0': d.get('t0'), 'symptoms': sym})
    rep.integ = {}


def attribute_demes(c, seed, ref, protocols=None):
    """a from_demes call whose value depends on the hash seed: is it the transposed view (the demes library returns the children
    of a split in set order; the front end re-orders by transposition) reaching an integrator that does not copy?"""
    pc = dict(c, contig_patch=True)
    r = run_many([{'mode': 'eval', 'calls': [pc]}, {'mode': 'eval', 'calls': [pc]}], seeds=[0, seed])
    try:
        a, bb = r[0]['calls'][0], r[1]['calls'][0]
        names = sorted(n for n in set(a.get('patched', []) + bb.get('patched', [])) if (protocols or {}).get(n, {}).get('kind') != 'copy')
        if a['digest'] == bb['digest'] and names:
            return (K_PHI_LAYOUT % names[0],
                    ': demes returns the children of a split in set order, the front end re-orders the axes by transposition (PhiManip.reorder_pops) and hands the '
                    'transposed VIEW to Integration.%s, whose kernels read it as C-contiguous; with the array made contiguous first the value is the same under both seeds' % names[0])
    except Exception:
        pass
    return None, ''


def near_collision_phase(ctx, rep, info, ents, nc_jobs, allres, ref, broken):
    """every call of every near-collision history against its pristine-interpreter value; failing calls are shrunk to a
    two-call history (some earlier call, the failing call) which becomes the replay"""
    bad, ncrash = [], 0                      # bad: (job index, call index)
    eff_entry, eff_family, args_seen = {}, {}, set()
    eff_setting, n_setting_hist, n_setting_calls = {}, 0, 0
    npairs = neff = ncalls = 0
    for j, job in enumerate(nc_jobs):
        e = ents[job['e']]
        r = allres[('nc', j)]
        if 'crash' in r:
            ncrash += 1
            ctx.obligation('near-collision history of %s / %s ran' % (e['entry'], sorted(set(l for l in job['labels'] if l))), False, 'harness', r['crash'][-400:])
            continue
        eff_entry.setdefault(e['entry'], 0)
        if job['kind'] == 'seq':
            rec = r['calls'][0]
            want = ref.get(sig(job['single']))
            if want is None:
                continue
            el = rec.get('elements') or [None, None]
            wel = want.get('elements') or [None]
            ok = len(el) == 2 and el[1] == wel[0] and not rec.get('error')
            effective = [len(el) == 2 and el[0] != el[1]]
            freeze_findings(rep, job['seq'], rec, 'near-collision pair')
            ncalls += 1
            args_seen.add((e['entry'], job['labels'][0]))
            if not ok:
                bad.append((j, 0))
        else:
            h = job['calls']
            base_sig = sig(e['base'])
            effective = []
            for k, (c, rec) in enumerate(zip(h, r['calls'])):
                want = ref.get(sig(c))
                if want is None:
                    continue
                ncalls += 1
                freeze_findings(rep, c, rec, 'near-collision history')
                if rec['digest'] != want['digest']:
                    bad.append((j, k))
                lab = job['labels'][k]
                if e.get('setting'):
                    n_setting_calls += 1
                if lab is not None:
                    args_seen.add((e['entry'], lab))
                    effective.append(want['digest'] != ref[base_sig]['digest'] if base_sig in ref else False)
                    if e.get('setting'):
                        # a pair is effective when the two pristine values differ: from A, and (chains under a context) from the call before
                        prev = ref.get(sig(h[k - 1])) if k > 0 else None
                        ef = effective[-1] and (prev is None or job['labels'][k - 1] != lab or prev['digest'] != want['digest'])
                        sn = lab.split(' (')[0]
                        eff_setting[sn] = eff_setting.get(sn, 0) + (1 if ef else 0)
            if e.get('setting'):
                n_setting_hist += 1
        for ef in effective:
            npairs += 1
            if ef:
                neff += 1
                eff_entry[e['entry']] += 1
                for f in e['families']:
                    eff_family[f] = eff_family.get(f, 0) + 1
        ctx.case(signature=('nearcol', e['entry'], job['kind'], sig({'h': job.get('seq') or job['calls']})) if any(effective) else None,
                 sample={'near_collision': e['entry'], 'history': job['kind'], 'arguments_varied': sorted(set(l for l in job['labels'] if l))} if j < 2 else None)
        ctx.count('near-collision histories family=' + e['families'][0])
    ctx.stats['near_collision'] = {'histories': len(nc_jobs), 'calls_compared_with_pristine': ncalls, 'ordered_pairs_base_variant': npairs,
                                   'pairs_whose_two_values_differ': neff, 'arguments': len(args_seen), 'entry_points': len(set(e['entry'] for e in ents)),
                                   'effective_pairs_per_family': eff_family, 'thorough_size_families': sorted(broken)}
    ctx.obligation('near-collision stream: calls that differ from a base call A in ONE argument, run after A (and A after them) in one process - every call returns bitwise its '
                   'pristine-interpreter value (%d histories, %d calls; %d (A, variant) pairs over %d arguments of %d entry points of %d memoised families; in %d pairs the two values differ)' % (
                       len(nc_jobs), ncalls, npairs, len(args_seen), len(eff_entry), len(eff_family), neff), not bad and not ncrash, 'predicate', '%d calls differ' % len(bad))
    vac_ok = set(e['entry'] for e in ents if e.get('vacuous_ok'))
    vac = sorted(k for k, v in eff_entry.items() if v == 0 and k not in vac_ok)
    ctx.obligation('near-collision stream is not vacuous: every entry point has pairs whose two pristine values differ', not vac, 'harness', repr(vac))
    s_ents = [e for e in ents if e.get('setting')]
    if s_ents:
        bad_s = [(j, k) for j, k in bad if ents[nc_jobs[j]['e']].get('setting')]
        ctx.stats['setting_collision'] = {'entry_points': len(s_ents), 'histories': n_setting_hist, 'calls_compared_with_pristine': n_setting_calls,
                                          'effective_pairs_per_setting': eff_setting, 'settings_exercised': info.get('settings_exercised')}
        ctx.obligation('setting-collision pairs: module-level settings (%s) and random seeds as ARGUMENTS - for every integrator d=1..5 and one_pop_X (constant and time-dependent '
                       'parameters), from_phi d=1..5, extrapolated models, from_demes, Godambe, the objective function and the random helpers: A under value 1, the plain '
                       'assignment `dadi.<Module>.<setting> = value 2` (and the setter where one exists), B, value 1 restored, A again - every call returns bitwise what a pristine '
                       'interpreter that had the value from the start returns (%d entry points, %d histories, %d calls)' % (
                           ', '.join(info.get('settings_exercised') or []), len(s_ents), n_setting_hist, n_setting_calls), not bad_s, 'predicate', '%d calls differ' % len(bad_s))
        want_s = set('setting ' + x for x in (info.get('settings_exercised') or [])) | set(['random seed'])
        vac_s = sorted(x for x in want_s if not eff_setting.get(x))
        # Godambe.two_pt_deriv_test only changes one-sided derivatives (a parameter at a bound): read, without effect on the catalogue's interior points
        vac_s = [x for x in vac_s if x != 'setting Godambe.two_pt_deriv_test']
        ctx.obligation('setting-collision pairs are not vacuous: for every exercised setting some pair (A, B) has two different pristine values', not vac_s, 'harness', repr(vac_s))
    if not bad:
        return
    # one violation per (entry point, argument): shrink to a two-call history, then ask which dictionary, emptied, restores the value
    chosen, seen, affected = [], set(), {}
    # setting entries: a call of the reverse history (all variants, then A) is attributed to its predecessor, whatever that was - reported only for an entry
    # none of whose chain / pair histories (clean attribution: A, the assignment, B) failed
    clean_fail = set(nc_jobs[j]['e'] for j, k in bad if ents[nc_jobs[j]['e']].get('setting') and nc_jobs[j]['kind'] != 'reverse')
    for j, k in bad:
        job = nc_jobs[j]; e = ents[job['e']]
        if e.get('setting'):
            affected.setdefault('*', [])
            if e['entry'] not in affected['*']:
                affected['*'].append(e['entry'])
            if job['kind'] == 'reverse' and job['e'] in clean_fail:
                continue
        lab = job['labels'][k] if job['kind'] == 'seq' or job['labels'][k] is not None else next((l for l in reversed(job['labels'][:k]) if l), '?')
        key = (e['entry'].split(' (')[0], lab.split('[')[0])
        if e.get('setting'):
            # one violation per setting (and way of assigning it); the other entry points it shows at are named in the text
            key = ('setting', lab)
            affected.setdefault(lab, [])
            if e['entry'] not in affected[lab]:
                affected[lab].append(e['entry'])
        if key in seen:
            continue
        seen.add(key); chosen.append((j, k, lab))
    chosen = chosen[:16]
    cands = {}
    for j, k, lab in chosen:
        job = nc_jobs[j]
        if job['kind'] == 'seq':
            continue
        h = job['calls']
        pre, got = [], set()
        base_sig = sig(ents[job['e']]['base'])
        order = sorted(range(k), key=lambda i: (sig(h[i]) != base_sig, k - i))        # the base call first, then the nearest predecessors
        for i in order:
            if sig(h[i]) not in got and sig(h[i]) != sig(h[k]):
                got.add(sig(h[i])); pre.append(h[i])
        cands[(j, k)] = [[x, h[k]] for x in pre[:8]]
    flat = [(jk, pair) for jk, ps in cands.items() for pair in ps]
    sres = run_many([{'mode': 'eval', 'calls': pair} for _, pair in flat])
    minimal = {}
    for (jk, pair), r in zip(flat, sres):
        if jk in minimal or 'crash' in r:
            continue
        if r['calls'][1]['digest'] != ref[sig(pair[1])]['digest']:
            minimal[jk] = (pair, r['calls'][1]['digest'])
    dj = sorted(minimal)
    dres = dict(zip(dj, run_many([{'mode': 'diagnose', 'calls': minimal[jk][0], 'index': 1} for jk in dj])))
    for j, k, lab in chosen:
        job = nc_jobs[j]; e = ents[job['e']]
        uid = 'nearcol:%s:%s' % (e['entry'].split(' (')[0], lab.split('[')[0])
        meta = {'entry': e['entry'], 'argument': lab, 'families': e['families'], 'history_kind': job['kind']}
        if job['kind'] == 'seq':
            rep.report(None, '%s: evaluated for two argument lists that differ only in %s, the second evaluation differs from what a freshly generated function returns for it '
                       '(the dictionary inside the closure answers for arguments it is not keyed on)' % (e['entry'], lab),
                       {'kind': 'evalseq', 'call': job['seq'], 'single': job['single'], 'near_collision': meta}, unkeyed_id=uid)
            continue
        h = job['calls']
        want = ref[sig(h[k])]['digest']
        if (j, k) not in minimal:
            rep.report(None, '%s: call %d of a near-collision history (calls differing from the first in the argument(s) %s) differs from its pristine-interpreter value; '
                       'no two-call sub-history reproduces it' % (e['entry'], k, sorted(set(l for l in job['labels'][:k + 1] if l))),
                       {'kind': 'history', 'calls': h[:k + 1], 'seed': 0, 'index': k, 'fresh_digest': want, 'near_collision': meta}, unkeyed_id=uid)
            continue
        (X, Y), got = minimal[(j, k)]
        d = dres.get((j, k)) or {}
        stale = got == ref[sig(X)]['digest']
        culprit = None
        if 'crash' not in d and d.get('all_cleared') == want:
            culprit = sorted(n for n, dg in d.get('one_cleared', {}).items() if dg == want)
        key = K_GODAMBE if (culprit and 'Godambe.cache' in culprit and info.get('godambe_key') == 'identity-hash') else None
        if e.get('setting'):
            def stext(t):
                return ('dadi.%s = %r' % (t['name'], t['value'])) if t['how'] == 'assign' else ('dadi.%s(%s)' % (t['name'], ', '.join(repr(a) for a in t.get('args', []))))
            sx, sy = X.get('settings') or [], Y.get('settings') or []
            x_only, y_only = [t for t in sx if t not in sy], [t for t in sy if t not in sx]
            touched = set(t['name'] for t in x_only + y_only if t['how'] == 'assign')
            if any(t['how'] == 'call' for t in x_only + y_only):
                touched.add(lab.split(' (')[0].replace('setting ', ''))       # what the setter assigns
            # every statement of B about a setting that A left at another value, in B's order
            between = [t for t in sy if t in y_only or (t['how'] == 'assign' and t['name'] in touched)]
            if sx or sy:
                stmt = '; '.join(stext(t) for t in between)
                a_had = '; '.join(stext(t) for t in sx if t in x_only or (t['how'] == 'assign' and t['name'] in touched))
                sigdiff = ','.join(sorted(touched)) + ':' + '+'.join(sorted(set(t['how'] + (':' + t['name'] if t['how'] == 'call' else '') for t in x_only + y_only)))
            else:
                stmt = 'numpy.random.seed(%r) (and LowPass.rng re-seeded)' % Y.get('seed'); a_had = 'seed %r' % X.get('seed'); sigdiff = 'seed'
            others = sorted(set(x for v in affected.values() for x in v) - set([e['entry']]))
            what = ('%s: calls A and B are the SAME call under different module-level settings (A ran under `%s`).  A is evaluated, then `%s` is executed - %s -, then B: '
                    'B returns %s instead of what it returns in a pristine interpreter that executed the same statement(s) from the start%s - a memo on the way is keyed on the '
                    'arguments only, but the setting is read when the stored value is computed: it is part of the call (C20_setting_outside_key_refuted)%s' % (
                        e['entry'], a_had, stmt,
                        'plain attribute assignment, the documented way' if all(t['how'] == 'assign' for t in between) else 'the setter, then plain attribute assignment' if not sy or between[-1]['how'] == 'assign' else 'the setter',
                        'the value of A' if stale else 'a different value',
                        ('; emptying %s before B restores it' % ', '.join(culprit)) if culprit else
                        ('; no module-level dictionary or memoising wrapper, emptied, restores it (%s)' % json.dumps({kk: d.get(kk) for kk in ('as_is', 'all_cleared')})[:120] if d else ''),
                        ('; calls fail in the same way for %d more entry points: %s' % (len(others), ', '.join(others[:10]))) if others else ''))
            rep.report(key, what, {'kind': 'history', 'calls': [X, Y], 'seed': 0, 'index': 1, 'fresh_digest': want,
                                   'near_collision': dict(meta, second_call_returns_value_of_first=stale, statements_between_the_calls=stmt, also_affected=others), 'diagnosis': d},
                       unkeyed_id='setting:' + sigdiff)
            continue
        what = ('%s: call B differs from call A only in the argument `%s`; evaluated after A in the same process, B returns %s instead of its pristine-interpreter value%s '
                '- the memoised %s data is keyed on too little (C20_near_collision_pair_decides: a key that told A and B apart would have answered both correctly)' % (
                    e['entry'], lab, 'the value of A' if stale else 'a different value',
                    ('; emptying %s before B restores it' % ', '.join(culprit)) if culprit else
                    ('; no module-level dictionary, emptied, restores it (%s)' % json.dumps({kk: d.get(kk) for kk in ('as_is', 'all_cleared')})[:120] if d else ''),
                    '/'.join(e['families'])))
        rep.report(key, what, {'kind': 'history', 'calls': [X, Y], 'seed': 0, 'index': 1, 'fresh_digest': want,
                               'near_collision': dict(meta, second_call_returns_value_of_first=stale), 'diagnosis': d}, unkeyed_id=uid)


def export_phase(ctx, rep, export_calls, allres):
    """Spectrum.to_file / tofile / Numerics.array_to_file: text written for a non-contiguous spectrum = text for its C-contiguous copy"""
    nbad = nnc = 0
    for j, c in enumerate(export_calls):
        r = allres[('export', j)]
        fam = op_family(c)
        if 'crash' in r or 'build_error' in r['calls'][0]:
            ctx.obligation('exporter case %s ran' % short(c), False, 'harness', json.dumps(r)[:300])
            continue
        rec = r['calls'][0]
        ex = rec.get('export')
        ctx.case(signature=('export', sig(c)))
        ctx.count('exporter cases ' + fam)
        if rec.get('error') or ex is None:
            nbad += 1
            rep.report(None, '%s fails for a non-contiguous spectrum (%s): %s' % (fam, c['pre'][0], rec.get('error')), {'kind': 'export', 'call': c}, unkeyed_id='export-err:' + fam)
            continue
        if not ex['c_contiguous']:
            nnc += 1
        freeze_findings(rep, c, rec, 'exporter')
        if not ex['same_text']:
            nbad += 1
            how = {'reorder_pops': 'the transposed view returned by reorder_pops', 'transpose': 'a transposed view', 'swapaxes': 'a swapaxes view', 'flip': 'a negatively strided view',
                   'step': 'a strided slice', 'fortran': 'a Fortran-ordered array'}[c['pre'][0]]
            rep.report(None, '%s writes different text for %s than for its C-contiguous copy (strides %s): %r vs %r' % (
                fam, how, ex['strides'], ex['text'].splitlines()[-2 if c['how'] in ('to_file', 'tofile') and c.get('foldmaskinfo', True) else -1][:60],
                ex['text_contiguous_copy'].splitlines()[-2 if c['how'] in ('to_file', 'tofile') and c.get('foldmaskinfo', True) else -1][:60]),
                {'kind': 'export', 'call': c, 'observed': ex}, unkeyed_id='export:' + fam)
    ctx.obligation('exporters (Spectrum.to_file / tofile, Numerics.array_to_file): the text written for a non-contiguous spectrum (reorder_pops view, transposed, swapped axes, '
                   'negatively strided, strided, Fortran-ordered) equals the text for its C-contiguous copy (%d cases, %d with non-C-contiguous data)' % (len(export_calls), nnc),
                   nbad == 0 and nnc >= len(export_calls) - 2, 'predicate', '%d differ' % nbad)


def mutate_phase(ctx, rep, info, specs, recs, replay=False, ndirected=None):
    """judgement of the mutate stream (al.judge) + the observed aliasing of every operator call against Heap.arith of the extracted protocol, inside Coq"""
    nbad = nharn = 0
    tot = {'edits': 0, 'excused': 0, 'followups': 0}
    fams = set()
    acases, ameta = [], {}
    for i, spec in enumerate(specs):
        r = recs.get(i)
        if r is None:
            continue
        fam = op_family(spec)
        fams.add(fam)
        finds, st = al.judge(fam, spec, r)
        for k in tot:
            tot[k] += st[k]
        PR = r.get('P_R') or {}
        if PR.get('array_like'):
            # the ALIAS obligation on the pristine evaluation of the directed call
            alias_findings(rep, spec, PR, 'mutate stream, pristine evaluation')
        ctx.case(signature=('mutate', sig(spec)) if PR.get('array_like') else None,
                 sample={'mutate_stream': fam, 'call': short(spec), 'alias_pairs': PR.get('alias_pairs'), 'findings': [f['what'][:120] for f in finds]} if i < 2 or finds else None)
        ctx.count('mutate-stream family kind=' + fam.split('.')[0].split('(')[0].split(':')[0])
        for f in finds:
            if f.get('harness') and f['uid'] == 'error-pristine' and ndirected is not None and i >= ndirected:
                # a randomly drawn catalogue call that raises in a pristine interpreter too returns no array: nothing to edit (the directed list must run)
                ctx.count('mutate-stream catalogue call raises (skipped)')
                continue
            if f.get('harness'):
                nharn += 1
                ctx.obligation('mutate stream ran for %s (%s)' % (fam, short(spec)), False, 'harness', f['what'][-400:])
                continue
            nbad += 1
            rep.report(None, f['what'], {'kind': 'mutate', 'call': spec, 'edit': f['edit'], 'observed': f['observed']}, unkeyed_id='%s:%s' % (f['uid'], fam))
        # operator calls: observed aliasing against the model of the protocol the translator extracted
        if spec['op'] == 'ar' and spec['side'] in 'lr' and PR.get('array_like') and 'M' in r and 'crash' not in r['M']:
            m = '__%s%s__' % ('r' if spec['side'] == 'r' else '', spec['o'])
            pr = (info.get('arith') or {}).get(m)
            # the model describes the branch `newmask = self.mask` of the template: the other operand has no mask of its own, and the template runs at all
            # (a numpy scalar on the LEFT is dispatched to the ufunc machinery, not to the reflected method)
            other_has_mask = spec['other']['k'] in ('ma_mask', 'spectrum', 'spectrum_nomc') or (spec['side'] == 'r' and spec['other']['k'] == 'npfloat') \
                or (spec['other']['k'] == 'ma_nomask' and spec['fs'].get('mask_corners', True) is False and not spec['fs'].get('mask') and not spec['fs'].get('fold'))
            # (last case: numpy.ma.mask_or(all-False mask, nomask) shrinks to nomask and the constructor allocates a new mask)
            if pr is not None and (pr['copies'] or not other_has_mask):
                pairs = PR.get('alias_pairs') or []
                mr = (r['M'].get('mask') or {}).get('R') or {}
                changed = any(l.endswith('.mask') for l in mr.get('changed', []))
                n = len(acases)
                acases.append((n, '{| ac_copies := %s; ac_obs_mask_alias := %s; ac_obs_data_alias := %s; ac_obs_operand_changed := %s |}' % (
                    b(pr['copies']), b(any(p[0] == 'R.mask' and p[1].endswith('.mask') for p in pairs)),
                    b(any(p[0] == 'R.data' and p[1].endswith('.data') for p in pairs)), b(changed))))
                ameta[n] = (m, spec)
    ctx.stats['mutate_stream'] = {'calls': len(specs), 'families': len(fams), 'edit_phases_run': tot['edits'], 'excused_documented_view_changes': tot['excused'],
                                  'followup_values_compared_with_pristine': tot['followups']}
    ctx.obligation('mutate stream: for %d array-returning calls of %d operation families, editing the RESULT in place (mask entry flipped / data scaled / list appended; %d edit phases) '
                   'leaves every argument bit-for-bit unchanged (data AND mask bytes, lists) and ll / ll_multinom / S / sum / from_phi / the same call on them return their '
                   'pristine-interpreter values (%d values), and editing the ARGUMENTS leaves the result unchanged - except through the documented views of c20_alias.ALLOWED' % (
                       len(specs), len(fams), tot['edits'], tot['followups']), nbad == 0 and nharn == 0 and tot['edits'] > 0 and tot['followups'] > 0, 'predicate',
                   '%d findings' % nbad)
    if not replay:
        want = set('Spectrum.__%s%s__' % (p, o) for o in al.OPS for p in ('', 'r', 'i'))
        ctx.obligation('mutate stream covers every Spectrum operator (binary, reflected, in-place twin) with every kind of other operand', want <= fams, 'harness', repr(sorted(want - fams)))
    if acases:
        header = 'From Coq Require Import ZArith List Bool.\nFrom Dadi Require Import Model.Heap Model.MemoCheck.\nImport ListNotations.'
        ares = ctx.coq_cases('arith', header, acases, 'arith_check', 'exact (booleans)', shard=400, kind='protocol')
        nb = 0
        for n, (m, spec) in ameta.items():
            rr = ares.get(n)
            if not (rr is not None and rr[0]):
                nb += 1
                if nb <= 3:
                    ctx.obligation('observed aliasing of Spectrum.%s (%s) = Heap.arith of its extracted constructor protocol' % (m, short(spec)), False, 'correspondence', repr(rr))
        ctx.obligation('observed mask / data aliasing and operand change of %d Spectrum operator calls = Heap.arith of the constructor protocol extracted from the source' % len(ameta),
                       nb == 0, 'correspondence')


def memo_case_text(res):
    """Coq record for one instrumented history"""
    kid, vid = {}, {}
    def K(c, k):
        return kid.setdefault((c, k), len(kid))
    def V(d):
        return vid.setdefault(d, len(vid))
    init = [(K(c, k), V(d)) for c, k, d in res['memo_init']]
    calls = [(K(c, k), V(fr)) for c, k, fr, got in res['memo_log']]
    obs = [V(got) for c, k, fr, got in res['memo_log']]
    keys = [K(c, k) for c, ks in sorted(res['final_keys'].items()) for k in ks]
    pl = lambda ps: '[' + '; '.join('(%d, %d)' % p for p in ps) + ']%N'
    nl = lambda xs: '[' + '; '.join('%d' % x for x in xs) + ']%N'
    return '{| mc_init := %s; mc_calls := %s; mc_obs := %s; mc_keys := %s |}' % (pl(init), pl(calls), nl(obs), nl(keys))


def run(ctx):
    rng = ctx.rng
    ctx.rule = ('catalogue of distinct call specifications drawn from one PRNG (Spectrum methods, demographic models 1-5 populations incl. extrapolation, '
                'from_phi / from_phi_inbreeding d=1..5, integrators d=1..5 (constant and time-dependent parameters, T=0, frozen), PhiManip, low-pass and '
                'inbreeding helpers, memoised Numerics functions, likelihoods, optimiser helpers, Godambe, from_demes on tests/demes/*.yaml, from_data_dict); '
                'a history = 2..N calls sampled with replacement from the catalogue; near-collision histories: a base call per public entry point of every memoised '
                'family and, per argument of its signature, 2 (quick) / 4 (thorough; 5 for a family whose source obligation broke) calls differing in that argument only; '
                'setting-collision histories: per entry point reading a module-level setting (integrators d=1..5 constant / time-dependent, one_pop_X, from_phi, models, '
                'from_demes, Godambe, objective function) and per setting, the same call under the default and under 1-2 (quick) / 4 (thorough) other values assigned by plain '
                'attribute assignment or the setter, chained A, B.., A and reversed; random helpers under 2+ seeds; '
                'distinct = distinct history / distinct call specification; '
                'non-trivial = history in which at least one call finds a cache populated by an earlier call, or layout case with a non-contiguous argument')
    ctx.assumptions += ['bitwise comparison (float.hex of every unmasked entry, masks, labels) only between runs of the same code on the same machine',
                        'layout differential: |result(view) - result(contiguous copy)| <= 1e-10 * max|result| (numpy may legitimately change the summation order for strided input)',
                        'exact-arithmetic model of memoisation; aliasing, strides, id() reuse and hash randomisation are runtime facts observed by the runs, not proved']
    ctx.trusted += ['oracles (Section variables) in Model/Memo.v: gammaln, betaln, lncomb, betainc, clip01 and arithmetic on an abstract number type',
                    'the kernels are an arbitrary function on the raw buffer they are handed (Heap.v: kern)',
                    'harness/translate/entry_protocol.py, harness/props/c20_scan.py (fail-closed ast / .pyx line translators)',
                    'the random sources of the simulated low-pass entries (numpy global generator, LowPass.rng) are seeded by the driver before each call',
                    'module-level settings with role bookkeeping / constant / unavailable (cuda_enabled needs a GPU) / unexercised / outside in c20_nearcol.SETTING_TABLE are listed, not varied',
                    'CPython releases a closure when the call that made it returns and may hand its address to the next one (Godambe allocator model)']
    if ctx.replay:
        return run_replay(ctx)
    t0 = time.time()
    def lap(name):
        ctx.notes.append('phase %s done at %.1fs' % (name, time.time() - t0))
    info = translator_tie(ctx)
    lap('translators')
    rep = Reporter(ctx)

    ncat = ctx.pick(80, 420)
    nhist = ctx.pick(30, 400)
    maxlen = ctx.pick(12, 40)
    seeds = ctx.pick([0, 1, 4242], [0, 1, 2, 3, 7, 42, 1234, 4242, 65535, 4294967295])
    cat = Catalogue(ctx)
    calls = cat.build(ncat)
    # directed calls (always present)
    directed_lrt = [cat.g_gim('LRT', nu) for nu in (2.0, 3.0, 4.0, 5.0, 6.0, 0.5)]
    directed = [cat.g_integ(d=4, nonconst=False, T0=True), cat.g_integ(d=5, nonconst=False, T0=True), cat.g_integ(d=2, nonconst=False, T0=True),
                cat.g_integ(d=4, nonconst=False, T0=False), cat.g_integ(d=5, nonconst=False, T0=False), cat.g_integ(d=3, nonconst=True, T0=False),
                {'op': 'opt', 'f': 'perturb', 'params': [1.0, 2.0], 'lower': [None, 0.0625], 'upper': [16.0, None], 'seed': 1, 'fold': 1},
                {'op': 'demes', 'builder': 'reorder4', 'sampled': ['c0', 'X'], 'sizes': [3, 3], 'pts': [8]}]
    labels = ['YRI', 'CEU', 'CHB', 'JPT']
    fs3 = gen_fs(rng, (3, 4, 3)); fs3['pop_ids'] = labels[:3]
    fs4 = gen_fs(rng, (3, 3, 2, 3)); fs4['pop_ids'] = labels
    label_calls = []
    for fs, nd in ((fs3, 3), (fs4, 4)):
        for ax in range(nd):
            label_calls.append({'op': 'sp', 'm': 'marginalize', 'fs': copy.deepcopy(fs), 'a': [[ax]]})
        label_calls.append({'op': 'sp', 'm': 'filter_pops', 'fs': copy.deepcopy(fs), 'a': [[1, nd]]})
        label_calls.append({'op': 'sp', 'm': 'filter_pops', 'fs': copy.deepcopy(fs), 'a': [list(range(2, nd + 1))]})
        label_calls.append({'op': 'sp', 'm': 'combine_pops', 'fs': copy.deepcopy(fs), 'a': [[1, 2]]})
        label_calls.append({'op': 'sp', 'm': 'reorder_pops', 'fs': copy.deepcopy(fs), 'a': [list(range(nd, 0, -1))]})
        label_calls.append({'op': 'sp', 'm': 'project', 'fs': copy.deepcopy(fs), 'a': [[1] * nd]})
        label_calls.append({'op': 'sp', 'm': 'fold', 'fs': copy.deepcopy(fs), 'a': []})
        label_calls.append({'op': 'sp', 'm': 'scramble_pop_ids', 'fs': copy.deepcopy(fs), 'a': []})
    nonconst_each = [cat.g_integ(d=d, nonconst=True, T0=False) for d in (1, 2, 3, 4, 5)]
    fsS = gen_fs(rng, (4, 3)); fsS['mask_corners'] = False
    fsS1 = gen_fs(rng, (6,)); fsS1['mask_corners'] = False
    label_calls += [{'op': 'sp', 'm': 'S', 'fs': fsS, 'a': []}, {'op': 'sp', 'm': 'S', 'fs': fsS1, 'a': []}, {'op': 'sp', 'm': 'Watterson_theta', 'fs': copy.deepcopy(fsS1), 'a': []}]
    phi2 = copy.deepcopy(cat.phis[(2, 8)][0])
    grid_calls = [{'op': 'from_phi', 'd': 2, 'pts': 8, 'phi': phi2, 'ns': [3, 3]}, {'op': 'from_phi', 'd': 2, 'pts': 8, 'phi': copy.deepcopy(phi2), 'ns': [3, 3], 'grid': 'lin'}]
    label_calls += grid_calls
    # exporters: the TEXT written for a spectrum must not depend on the memory layout of its data (layout differential below)
    fsx3 = gen_fs(rng, (3, 4, 3)); fsx3['pop_ids'] = labels[:3]
    fsx2 = gen_fs(rng, (4, 3), extra_mask=True)
    label_calls += [{'op': 'sp', 'm': 'to_file', 'fs': copy.deepcopy(fsx3), 'a': []}, {'op': 'sp', 'm': 'to_file', 'fs': copy.deepcopy(fsx2), 'a': [], 'foldmaskinfo': False},
                    {'op': 'sp', 'm': 'array_to_file', 'fs': copy.deepcopy(fsx3), 'a': []}, {'op': 'sp', 'm': 'array_to_file', 'fs': copy.deepcopy(fsx2), 'a': [], 'plain': 'ndarray'}]
    export_calls = []
    for fsx, pres in ((fsx3, [['reorder_pops', [3, 1, 2]], ['reorder_pops', [2, 1, 3]], ['transpose'], ['swapaxes', 0, 2], ['flip'], ['step'], ['fortran']]),
                      (fsx2, [['reorder_pops', [2, 1]], ['transpose'], ['flip'], ['step'], ['fortran']])):
        for pre in pres:
            for how in ('to_file', 'array_to_file'):
                export_calls.append({'op': 'export', 'how': how, 'fs': copy.deepcopy(fsx), 'pre': pre, 'comments': ['written by the C20 check']})
            if pre[0] in ('reorder_pops', 'flip'):
                export_calls.append({'op': 'export', 'how': 'tofile', 'fs': copy.deepcopy(fsx), 'pre': pre, 'precision': 8})
                export_calls.append({'op': 'export', 'how': 'array_to_file_path', 'plain': 'ndarray', 'fs': copy.deepcopy(fsx), 'pre': pre})
                export_calls.append({'op': 'export', 'how': 'array_to_file', 'plain': 'masked', 'fs': copy.deepcopy(fsx), 'pre': pre})
                export_calls.append({'op': 'export', 'how': 'to_file', 'fs': copy.deepcopy(fsx), 'pre': pre, 'foldmaskinfo': False})
    fsxf = gen_fs(rng, (5, 5)); fsxf['fold'] = True
    export_calls.append({'op': 'export', 'how': 'to_file', 'fs': fsxf, 'pre': ['transpose']})
    for s in directed + directed_lrt + label_calls + nonconst_each:
        if sig(s) not in set(sig(c) for c in calls):
            calls.append(s)
    bysig = {sig(c): c for c in calls}
    for c in calls:
        ctx.count('catalogue op=' + c['op'])

    # histories
    hists = []
    for h in range(nhist):
        n = rng.randint(2, maxlen)
        hists.append([rng.choice(calls) for _ in range(n)])
    hists.append(list(directed_lrt))                       # the Godambe id-reuse history
    gimseq = dict(directed_lrt[0], seq=True, p0_list=[c['p0'] for c in directed_lrt])
    hists.append(directed + directed[:3])
    hists.append(label_calls)
    hists.append(nonconst_each + label_calls[:4])

    # ---- layout cases (chosen before anything runs)
    lay_calls = []
    seen_l = set()
    def want_layout(c):
        return c['op'] in ('integ', 'from_phi', 'pm', 'll') or (c['op'] == 'sp' and not c['fs'].get('fold')) or (c['op'] == 'lp' and 'cov' in c)
    for c in nonconst_each + calls:
        if want_layout(c):
            fam = (op_family(c), c.get('d'), c.get('nonconst'), c.get('force'), c.get('inb'), bool(c.get('m')), c.get('T') == 0)
            if ctx.quick and fam in seen_l:
                continue
            seen_l.add(fam)
            lay_calls.append(c)
    lay_calls = lay_calls[:ctx.pick(60, 260)]
    # the user-model path: reorder_pops (a transposed view) handed to an integrator, d = 2..5
    for d in (2, 3, 4, 5):
        pts = min(p for (dd, p) in cat.phis if dd == d)
        o = list(range(2, d + 1)) + [1]
        lay_calls.append({'op': 'pm', 'k': 'reorder_then_integrate', 'd': d, 'pts': pts, 'phi': copy.deepcopy(cat.phis[(d, pts)][0]), 'order': o,
                          'nu': [0.5, 2.0, 1.0, 3.0, 1.5][:d], 'm12': 1.0, 'T': 0.0625})
    chunks = [lay_calls[i::JOBS] for i in range(JOBS)]
    chunks = [ch for ch in chunks if ch]
    # ---- hash-seed sample, history plan
    nx = ctx.pick(24, 150)
    xs = list(calls)
    rng.shuffle(xs)
    xs = xs[:nx]
    xseeds = [seeds[1 + (i % (len(seeds) - 1))] for i in range(len(xs))]
    plan = []
    for hi, h in enumerate(hists):
        ss = list(seeds)
        for k, s in enumerate(ss):
            plan.append((hi, s, k == 0))
    # ---- near-collision stream: for every memoised family and EVERY argument of every public entry point feeding it, pairs
    # (A, B) that differ in exactly that argument; A then B and B then A in one process, the second call against its pristine value.
    # A family whose source obligation broke gets thorough-size numbers (that IS the search for a failing input).
    broken = set(info.get('broken_families', ()))
    def nval_of(fams):
        return 5 if (set(fams) & broken) else ctx.pick(2, 4)
    def nbase_of(fams):
        return 3 if (set(fams) & broken) else ctx.pick(1, 3)
    nc.BROKEN[0] = set(broken)
    ents = nc.entries(cat, rng, nval_of, nbase_of, gen_fs, gen_phi)
    nc.check_signatures(ctx, ents, R, scan)
    # setting-collision pairs: the module-level settings (and random seeds) as arguments, every run
    s_ents = nc.setting_entries(cat, rng, nval_of, nbase_of, info.get('setting_defaults') or {}, gen_fs, ctx.quick)
    ents = ents + s_ents
    for e in s_ents:
        ctx.count('setting-collision entry points')
    nc_refs, nc_jobs = {}, []
    for ei, e in enumerate(ents):
        A = e['base']
        explicit = (not ctx.quick) or bool(set(e['families']) & broken)
        if e.get('seq'):
            for arg, variants in sorted(e['vars'].items()):
                for B in variants:
                    a, bb = A['evals'][0], B['evals'][0]
                    for order, (x, y) in (('AB', (a, bb)), ('BA', (bb, a))):
                        spec = dict(copy.deepcopy(A), evals=[x, y]); single = dict(copy.deepcopy(A), evals=[y])
                        nc_refs[sig(single)] = single
                        nc_jobs.append({'e': ei, 'kind': 'seq', 'labels': [arg], 'seq': spec, 'single': single})
            continue
        nc_refs[sig(A)] = A
        rev, rev_lab = [], []
        for arg, variants in sorted(e['vars'].items()):
            vs = [B for B in variants if sig(B) != sig(A)]
            if not vs:
                continue
            for B in vs:
                nc_refs[sig(B)] = B
            # A, then the calls that differ from A in this ONE argument (the first of them runs right after A)
            if e.get('aba'):
                # a setting: A under value 1, the assignment of value 2, B, ..., value 1 restored, A again
                nc_jobs.append({'e': ei, 'kind': 'chain', 'calls': [A] + vs + [A], 'labels': [None] + [arg] * len(vs) + [None]})
            else:
                nc_jobs.append({'e': ei, 'kind': 'chain', 'calls': [A] + vs, 'labels': [None] + [arg] * len(vs)})
            rev += list(reversed(vs)); rev_lab += [arg] * len(vs)
            if explicit:
                # isolated two-call histories, both orders (always in the thorough tier and for a family whose source obligation broke)
                # (setting entries in the quick tier: the chain A, B1.., A and the reverse history run anyway; isolated histories for the first value of each setting)
                for B in (vs[:1] if (e.get('aba') and ctx.quick) else vs):
                    nc_jobs.append({'e': ei, 'kind': 'pair', 'calls': [A, B] + ([A] if e.get('aba') else []), 'labels': [None, arg] + ([None] if e.get('aba') else [])})
                    nc_jobs.append({'e': ei, 'kind': 'pair', 'calls': [B, A] + ([B] if e.get('aba') else []), 'labels': [arg, None] + ([arg] if e.get('aba') else [])})
        # the other order: every variant first, A last (A must not be answered from an entry one of the variants left behind)
        nc_jobs.append({'e': ei, 'kind': 'reverse', 'calls': rev + [A], 'labels': rev_lab + [None]})
    nc_calls = [c for k, c in nc_refs.items() if k not in bysig]
    for e in ents:
        for f in e['families']:
            ctx.count('near-collision entry points family=' + f)
    if broken:
        ctx.notes.append('source obligation(s) of the families %s broke: their near-collision pairs run in thorough-size numbers' % sorted(broken))
    # ---- the mutate-the-result / mutate-the-argument stream (systematic directed list; thorough: the array-returning catalogue calls too)
    mut_specs = al.directed(cat, rng, gen_fs, gen_phi, ctx.quick, dy)
    n_directed = len(mut_specs)
    if not ctx.quick:
        seen_m = set(sig(c) for c in mut_specs)
        for c in calls:
            if c['op'] in ('sp', 'model', 'from_phi', 'integ', 'pm', 'lp', 'll', 'opt', 'dd') and sig(c) not in seen_m and not (c['op'] == 'sp' and c['m'] in ('to_file', 'tofile', 'array_to_file')):
                seen_m.add(sig(c)); mut_specs.append(c)
    nmut = max(1, min(len(mut_specs), 2 * JOBS))
    mut_chunks = [list(range(len(mut_specs)))[i::nmut] for i in range(nmut)]
    for c in mut_specs:
        ctx.count('mutate-stream op=' + c['op'])
    # ---- the cross stream (drawn here, evaluated in a background thread next to the round below, judged after the mutate stream)
    cr.source_obligation(ctx, R)
    broken_cross = sorted(set(o['name'][:80] for o in ctx.obligations if not o['ok'] and o.get('kind') == 'translator'
                              and 'Godambe' in (o['name'] + ' ' + str(o.get('detail') or ''))))
    if broken_cross:
        ctx.notes.append('source obligation(s) naming Godambe.py broke: the Godambe block of the cross stream runs in thorough size (targeted search)')
    cross_state = cr.start(ctx, cat, rng, gen_fs, dy, run_many, sig, broken_cross)
    # ---- ONE round: every job in its own fork of an interpreter that has only imported dadi
    jobs, tags, jseeds = [], [], []
    def add(tag, payload, seed=0):
        jobs.append(payload); tags.append(tag); jseeds.append(seed)
    for c in calls + nc_calls:
        add(('ref', sig(c)), {'mode': 'eval', 'calls': [c]})
    for j, job in enumerate(nc_jobs):
        add(('nc', j), {'mode': 'eval', 'calls': [job['seq']] if job['kind'] == 'seq' else job['calls']})
    for j, c in enumerate(export_calls):
        add(('export', j), {'mode': 'eval', 'calls': [c]})
    add(('gimseq',), {'mode': 'eval', 'calls': [gimseq]})
    for k, ch in enumerate(chunks):
        add(('layout', k), {'mode': 'layout', 'calls': ch})
    for c, s in zip(xs, xseeds):
        add(('xseed', sig(c), s), {'mode': 'eval', 'calls': [c]}, s)
    for hi, s, ins in plan:
        add(('hist', hi, s), {'mode': 'eval', 'calls': hists[hi], 'instrument': ins}, s)
    for k, ch in enumerate(mut_chunks):
        add(('mut', k), {'mode': 'mutate', 'calls': [mut_specs[i] for i in ch]})
    allres = dict(zip(tags, run_many(jobs, jseeds)))
    lap('evaluation round (%d jobs)' % len(jobs))
    ctx.checker_cmds.append('harness/impl/c20_impl.py mode=batch: every reference call / history / layout chunk in its own fork of a /venv/bin/python that has only imported the rebuilt dadi (PYTHONPATH=overlay), one interpreter group per PYTHONHASHSEED')

    # ---- references: every distinct call once, from the pristine state (hash seed 0)
    ref = {}
    for c in calls + nc_calls:
        r = allres[('ref', sig(c))]
        if 'crash' in r or 'build_error' in r['calls'][0]:
            ctx.obligation('reference evaluation of %s' % short(c), False, 'harness', json.dumps(r)[:400])
            continue
        rec = r['calls'][0]
        ref[sig(c)] = rec
        ctx.case(signature=None)
        ctx.count('reference ' + ('error:' + rec['error'].split(':')[0] + ' in ' + op_family(c) if rec.get('error') else 'ok'))
        freeze_findings(rep, c, rec, 'fresh interpreter')
        if any(r['init_keys'].values()):
            ctx.obligation('module-level caches are empty after import', False, 'predicate', repr(r['init_keys']))
    ctx.obligation('all %d distinct calls evaluated from the pristine state, each in its own process' % (len(calls) + len(nc_calls)), len(ref) == len(calls) + len(nc_calls), 'harness')
    # a fork of a just-imported interpreter stands for a newly started interpreter: checked on a sample with real exec's
    vs = [c for c in calls if sig(c) in ref][::max(1, len(calls) // ctx.pick(6, 24))][:ctx.pick(6, 24)]
    vres = run_many([{'mode': 'eval', 'calls': [c]} for c in vs], exec_each=True)
    vbad = [short(c) for c, r in zip(vs, vres) if 'crash' in r or r['calls'][0]['digest'] != ref[sig(c)]['digest']]
    ctx.obligation('a newly exec\'ed interpreter returns bitwise what the fork of a just-imported interpreter returns (%d calls)' % len(vs), not vbad, 'harness', repr(vbad)[:300])
    lap('exec validation')

    # ---- Godambe: the same analysis for six parameter vectors in one plain loop, against the six fresh-interpreter values
    gs = allres[('gimseq',)]
    if 'crash' in gs or 'elements' not in gs['calls'][0]:
        ctx.obligation('Godambe sequence ran', False, 'harness', json.dumps(gs)[:400])
    else:
        el = gs['calls'][0]['elements']
        wrong = [i for i, (e, c) in enumerate(zip(el, directed_lrt)) if sig(c) in ref and e != ref[sig(c)]['digest']]
        ctx.case(signature=('gimseq',), sample={'godambe_sequence': [c['p0'] for c in directed_lrt], 'calls_differing_from_fresh': wrong})
        o = ctx.obligation('six successive LRT_adjust calls in one process return the six fresh-interpreter values', not wrong, 'predicate', repr(wrong))
        if wrong:
            ctx.obligations[-1]['known_key'] = K_GODAMBE
            rep.report(K_GODAMBE, 'Godambe.LRT_adjust called for p0 = %s one after the other: call(s) %s return the value of an EARLIER call (same nested parameter, different p0) '
                       'instead of their fresh-interpreter value - Godambe.cache is keyed by func_ex.__hash__(), the address of a per-call closure that is reused once the closure is collected'
                       % ([c['p0'] for c in directed_lrt], wrong), {'kind': 'gimseq', 'call': gimseq, 'singles': directed_lrt, 'wrong': wrong})
    # ---- fresh vs fresh across hash seeds
    xres = [allres[('xseed', sig(c), sd)] for c, sd in zip(xs, xseeds)]
    nbad = 0
    for c, s, r in zip(xs, xseeds, xres):
        if sig(c) not in ref:
            continue
        if 'crash' in r:
            ctx.obligation('hash-seed evaluation of %s ran' % short(c), False, 'harness', r['crash'][-400:])
            continue
        ok = r['calls'][0]['digest'] == ref[sig(c)]['digest']
        ctx.case(signature=None)
        if not ok:
            nbad += 1
            key, why = attribute_demes(c, s, ref, info['protocols']) if c['op'] == 'demes' else (None, '')
            rep.report(key, '%s evaluated in a fresh interpreter gives different values under PYTHONHASHSEED=%d and 0%s' % (op_family(c), s, why),
                       {'kind': 'hashseed', 'call': c, 'seed': s}, unkeyed_id='hashseed:' + op_family(c))
    ctx.obligation('fresh-interpreter results identical under different hash seeds (%d calls)' % len(xs), nbad == 0, 'predicate')

    # ---- histories: each under its seeds; first run instrumented
    pres = [allres[('hist', hi, sd)] for hi, sd, _ in plan]
    memo_cases, memo_meta = [], {}
    mism = []
    for (hi, s, ins), r in zip(plan, pres):
        h = hists[hi]
        if 'crash' in r:
            ctx.obligation('history %d under hash seed %d ran' % (hi, s), False, 'harness', r['crash'][-400:])
            continue
        populated = False
        bad_here = []
        for k, (c, rec) in enumerate(zip(h, r['calls'])):
            want = ref.get(sig(c))
            if want is None:
                continue
            if rec['digest'] != want['digest']:
                bad_here.append(k)
            freeze_findings(rep, c, rec, 'history %d call %d' % (hi, k))
            if ins and rec.get('memo_model_mismatch'):
                rep.report(None, 'after %s the real cache dictionaries differ from the memo machine: %s' % (op_family(c), rec['memo_model_mismatch'][0]),
                           {'kind': 'history', 'calls': h[:k + 1], 'seed': s, 'index': k, 'instrument': True}, unkeyed_id='memo:' + str(rec['memo_model_mismatch'][0][0]))
            if k > 0 and any(c2['op'] == c['op'] for c2 in h[:k]):
                populated = True
        ctx.case(signature=('hist', [sig(c) for c in h], s) if populated else None,
                 sample={'history': [short(c) for c in h][:6], 'hash_seed': s, 'calls_differing_from_fresh': bad_here} if hi < 3 and s == seeds[0] else None)
        ctx.count('history length %s' % ('2-5' if len(h) <= 5 else '6-12' if len(h) <= 12 else '13-25' if len(h) <= 25 else '26-40'))
        ctx.count('history runs under hash seed %d' % s)
        for k in bad_here:
            mism.append((hi, s, k))
        if ins and 'memo_log' in r:
            n = len(memo_cases)
            memo_cases.append((n, memo_case_text(r)))
            memo_meta[n] = (hi, s, len(r['memo_log']))
            ctx.count('memo calls logged', len(r['memo_log']))
    ctx.obligation('every call of every history returns bitwise what it returns in a fresh interpreter (%d history runs, %d calls)' % (
        len(plan), sum(len(hists[hi]) for hi, _, _ in plan)), not mism, 'predicate', repr(mism[:10]))
    flush_integrators(rep)
    # diagnose the mismatches (first per (history, index)), shrink to (earlier call, this call) where possible
    done = set()
    diag_jobs = []
    for hi, s, k in mism:
        if (hi, k) in done or len(diag_jobs) >= 12:
            continue
        done.add((hi, k))
        diag_jobs.append((hi, s, k))
    dres = run_many([{'mode': 'diagnose', 'calls': hists[hi], 'index': k} for hi, s, k in diag_jobs], seeds=[s for _, s, _ in diag_jobs])
    for (hi, s, k), d in zip(diag_jobs, dres):
        c = hists[hi][k]
        want = ref[sig(c)]['digest']
        culprit = None
        if 'crash' not in d:
            if d['all_cleared'] == want:
                culprit = [n for n, dg in d['one_cleared'].items() if dg == want]
        fam = op_family(c)
        if culprit and 'Godambe.cache' in culprit:
            key = K_GODAMBE
            what = ('%s (call %d of a %d-call history, hash seed %d) returns a value computed from another function\'s cached spectra; emptying Godambe.cache '
                    'before the call restores the fresh-interpreter value: the key holds func_ex.__hash__(), an address reused after the closure of the earlier call was collected'
                    % (fam, k, len(hists[hi]), s))
        elif culprit:
            key = None
            what = '%s (call %d of history %d, hash seed %d) differs from the fresh-interpreter value; emptying %s restores it (stale or corrupted entry)' % (fam, k, hi, s, culprit)
        elif c['op'] == 'demes' and 'crash' not in d and d['all_cleared'] != want:
            key, why = attribute_demes(c, s, ref, info['protocols'])
            what = '%s (call %d of history %d, hash seed %d) differs from the fresh-interpreter value under hash seed 0%s' % (fam, k, hi, s, why)
        else:
            key = K_GODAMBE if (c['op'] == 'gim' and info.get('godambe_key') == 'identity-hash' and 'crash' not in d and d['as_is'] != want and d['all_cleared'] == want) else None
            what = '%s (call %d of history %d, hash seed %d) differs from the fresh-interpreter value (not explained by one cache: %s)' % (fam, k, hi, s, json.dumps(d)[:200])
        rep.report(key, what, {'kind': 'history', 'calls': hists[hi][:k + 1], 'seed': s, 'index': k, 'fresh_digest': want, 'diagnosis': d},
                   unkeyed_id='hist:' + fam)

    lap('diagnose')
    near_collision_phase(ctx, rep, info, ents, nc_jobs, allres, ref, broken)
    export_phase(ctx, rep, export_calls, allres)
    lap('near-collision pairs, exporters')
    mut_recs = {}
    for k, ch in enumerate(mut_chunks):
        r = allres[('mut', k)]
        if 'crash' in r:
            ctx.obligation('mutate-stream chunk %d ran' % k, False, 'harness', r['crash'][-400:])
            continue
        for i, rr in zip(ch, r['calls']):
            mut_recs[i] = rr
    mutate_phase(ctx, rep, info, mut_specs, mut_recs, ndirected=n_directed)
    st = rep.alias
    ctx.stats['alias'] = dict(st, families=sorted(st['families']), allowed_table_entries=len(al.ALLOWED))
    ctx.obligation('ALIAS obligation: in %d evaluated array-returning calls (%d operation families) no buffer of the result - data, mask, label lists - shares memory with a buffer of an '
                   'argument or of a module-level / cached object, except the %d reviewed documented views (c20_alias.ALLOWED; %d calls returned such a view)' % (
                       st['array_returning_calls'], len(st['families']), len(al.ALLOWED), st['calls_with_allowed_views']),
                   st['new_alias'] == 0 and st['array_returning_calls'] > 0, 'predicate', '%d calls with a new alias' % st['new_alias'])
    al.discover_flush()
    lap('mutate stream')
    # ---- the cross stream: container / dtype of every array-like argument x mode keywords; arguments bit-for-bit unchanged, immediate repeat, sequences
    cr.finish(ctx, rep, cross_state, op_family, sig)
    lap('cross stream')
    # ---- memo machine inside Coq
    header = 'From Coq Require Import ZArith NArith List.\nFrom Dadi Require Import Model.Memo Model.MemoCheck.\nImport ListNotations.'
    mres = ctx.coq_cases('memo', header, memo_cases, 'memo_check', 'exact (ids)', shard=ctx.pick(8, 20), kind='memo')
    for n, (hi, s, nlog) in memo_meta.items():
        rr = mres.get(n)
        ok = rr is not None and rr[0]
        ctx.obligation('memo machine (Gallina step) reproduces the %d logged memo calls and the final key sets of history %d' % (nlog, hi), ok, 'correspondence',
                       '' if ok else repr(rr))
        if not ok:
            rep.report(None, 'the real caches of history %d do not behave like the memo machine (a returned value differs from f(call), or the key set differs)' % hi,
                       {'kind': 'history', 'calls': hists[hi], 'seed': s, 'index': len(hists[hi]) - 1, 'instrument': True}, unkeyed_id='memo-coq')

    # ---- observed protocol of every integrator reference call, inside Coq
    pcases, pmeta = [], {}
    for c in calls:
        if c['op'] != 'integ' or sig(c) not in ref:
            continue
        name = INTEG_NAME[c['d']]
        pr = info['protocols'].get(name)
        if pr is None:
            continue
        rec = ref[sig(c)]
        if rec.get('error'):
            continue
        n = len(pcases)
        tz = (c['T'] - c.get('initial_t', 0)) == 0 or (c['d'] == 1 and bool((c.get('frozen') or [False])[0]))
        pcases.append((n, '{| pc_copies := %s; pc_early := %s; pc_tzero := %s; pc_obs_changed := %s; pc_obs_alias := %s |}' % (
            b(pr['copies']), b(pr['early']), b(tz), b('phi' in rec['mutated']), b(bool(rec['aliased'])))))
        pmeta[n] = (name, c)
    header2 = 'From Coq Require Import ZArith List Bool.\nFrom Dadi Require Import Model.Heap Model.MemoCheck.\nImport ListNotations.'
    pres2 = ctx.coq_cases('proto', header2, pcases, 'proto_check', 'exact (booleans)', shard=400, kind='protocol')
    nbadp = 0
    for n, (name, c) in pmeta.items():
        rr = pres2.get(n)
        if not (rr is not None and rr[0]):
            nbadp += 1
            ctx.obligation('observed behaviour of Integration.%s (%s) = Heap.integrate of its extracted protocol' % (name, short(c)), False, 'correspondence', repr(rr))
    ctx.obligation('observed input-change / aliasing of %d integrator calls = Heap.integrate of the protocol extracted from the source' % len(pmeta), nbadp == 0, 'correspondence')

    lap('coq')
    # ---- layout differential
    lres = [allres[('layout', k)] for k in range(len(chunks))]
    TOL = 1e-10
    nlay = nlay_bad = nbit = 0
    xx_bad = {}
    for ch, r in zip(chunks, lres):
        if 'crash' in r:
            ctx.obligation('layout differential ran', False, 'harness', r['crash'][-400:])
            if 'child process died' in r['crash']:
                rep.report(None, 'the interpreter died during the layout differential (a kernel handed a non-contiguous array?)', {'kind': 'layout', 'calls': ch}, unkeyed_id='layout-crash')
            continue
        for c, rec in zip(ch, r['calls']):
            fam = op_family(c)
            for v in rec['variants']:
                nlay += 1
                ctx.case(signature=('layout', sig(c), v['arg'], v['variant']))
                ctx.count('layout variant ' + v['variant'])
                if v.get('build_error'):
                    ctx.obligation('layout variant %s of %s built' % (v['variant'], fam), False, 'harness', v['build_error'])
                    continue
                bad = (not v['struct_ok']) or v['nan_mismatch'] > 0 or v['maxdiff'] > TOL * max(v['scale'], 1e-300) or bool(v.get('error'))
                if v['nfloat'] and v['nbitwise'] == v['nfloat']:
                    nbit += 1
                if v['scale'] > 0 and not bad:
                    import math
                    ctx.err('layout', int(math.log2(v['maxdiff'] / v['scale'])) if v['maxdiff'] > 0 else -1074, '1e-10 x max|result|')
                if not bad:
                    continue
                nlay_bad += 1
                is_integ = c['op'] == 'integ' or (c['op'] == 'pm' and c['k'] == 'reorder_then_integrate')
                if is_integ and v['arg'] == 'phi':
                    name = INTEG_NAME[c['d']]
                    rep.report(K_PHI_LAYOUT % name,
                               'Integration.%s gives a different result for a %s phi than for its C-contiguous copy (max |diff| %.3g, max |result| %.3g%s)%s' % (
                                   name, {'F': 'Fortran-ordered', 'T': 'transposed', 'sliced': 'sliced', 'neg': 'negatively strided', 'offset': 'offset-view'}[v['variant']],
                                   v['maxdiff'], v['scale'], ', NaN' if v['nan_mismatch'] else '',
                                   ' - here the non-contiguous array is the view returned by PhiManip.reorder_pops' if c['op'] == 'pm' else ''),
                               {'kind': 'layout', 'call': dict(c, _layout_args=['phi']), 'variant': v}, unkeyed_id=None)
                elif is_integ and v['arg'] == 'xx':
                    xx_bad.setdefault(INTEG_NAME[c['d']], (c, v))
                else:
                    rep.report(None, '%s gives a different result for a %s-layout argument %s than for its contiguous copy (%s)' % (
                        fam, v['variant'], v['arg'], 'the written text / labels / shape differ' if not v['struct_ok'] else 'max |diff| %.3g, scale %.3g' % (v['maxdiff'], v['scale'])),
                        {'kind': 'layout', 'call': dict(c, _layout_args=[v['arg']]), 'variant': v},
                        unkeyed_id='layout:' + fam + ':' + v['arg'])
                # in the layout runs too: arguments must stay frozen (the in-place integrators are reported by the freeze stream already)
            for v in rec['variants']:
                if v.get('mutated') and not (c['op'] == 'integ' and v['mutated'] == ['phi']) and not (c['op'] == 'pm' and c['k'] == 'reorder_then_integrate'):
                    rep.report(None, '%s modifies its %s-layout argument %s' % (fam, v['variant'], v['mutated']), {'kind': 'layout', 'call': c, 'variant': v},
                               unkeyed_id='layout-mut:' + fam)
    if xx_bad:
        names = sorted(xx_bad)
        c, v = xx_bad[names[0]]
        rep.report(K_XX_LAYOUT, 'Integration.%s (time-dependent parameters: the C kernels get xx.data) return %s for a %s grid xx with the same values as the contiguous grid' % (
            '/'.join(names), 'NaN' if v['nan_mismatch'] else 'different values', {'sliced': 'strided (xx_big[::2])', 'neg': 'negatively strided', 'offset': 'offset'}.get(v['variant'], v['variant'])),
            {'kind': 'layout', 'call': dict(c, _layout_args=['xx']), 'variant': v, 'functions': names})
    ctx.obligation('argument-layout differential: %d (call, argument, layout) cases agree with the contiguous copy to 1e-10 (%d bitwise)' % (nlay, nbit),
                   nlay_bad == 0, 'predicate', '%d differ' % nlay_bad)
    ctx.stats['layout_cases'] = nlay
    ctx.stats['distinct_calls'] = len(calls)
    ctx.stats['histories'] = len(hists)
    ctx.stats['translator_info'] = {'protocols': info['protocols'], 'godambe_key': info['godambe_key'], 'reorder': info.get('reorder'),
                                    'param_mutations': info.get('param_mutations')}
    ctx.notes.append('Misc.make_fux_table overwrites the diagonal of the matrix Q it is given (file utility, outside the families named by the property; listed, not reported)')
    ctx.notes.append('dadi.Demes.cache (the event trace behind Demes.output) is history by design and is reset by PhiManip.phi_1D; Demes.output is not part of the differential')


# ------------------------------------------------------------------------------------------------------------------

def run_replay(ctx):
    rp = json.load(open(ctx.replay))
    inp = rp.get('input') or {}
    kind = inp.get('kind')
    rep = Reporter(ctx)
    if kind == 'freeze':
        r = run_many([{'mode': 'eval', 'calls': [inp['call']]}])[0]
        rec = r['calls'][0]
        ctx.case(sample={'call': short(inp['call']), 'mutated': rec.get('mutated'), 'aliased': rec.get('aliased')})
        freeze_findings(rep, inp['call'], rec, 'replay')
        if inp.get('also_T0'):
            r0 = run_many([{'mode': 'eval', 'calls': [inp['also_T0']]}])[0]
            freeze_findings(rep, inp['also_T0'], r0['calls'][0], 'replay')
        flush_integrators(rep)
        ctx.obligation('replayed call leaves its arguments unchanged and returns a fresh array', not ctx.violations, 'predicate')
    elif kind == 'alias':
        r = run_many([{'mode': 'eval', 'calls': [inp['call']]}])[0]
        rec = r['calls'][0]
        ctx.case(sample={'call': short(inp['call']), 'alias_pairs': rec.get('alias_pairs')})
        alias_findings(rep, inp['call'], rec, 'replay')
        ctx.obligation('replayed call returns a result that shares no buffer with its arguments / module-level objects beyond the documented views', not ctx.violations, 'predicate',
                       json.dumps(rec.get('alias_pairs')))
    elif kind == 'cross':
        cr.replay(ctx, inp, run_many, op_family, sig)
    elif kind == 'mutate':
        r = run_many([{'mode': 'mutate', 'calls': [inp['call']]}])[0]
        if 'crash' in r:
            ctx.obligation('replayed mutate case ran', False, 'harness', r['crash'][-400:])
        else:
            info = {'arith': {}}
            try:
                info['arith'] = {m: {'copies': d['copies']} for m, d in ep.spectrum_operators(os.path.join(R, 'Spectrum_mod.py')).items() if d['kind'] == 'binary'}
            except ep.Refuse:
                pass
            mutate_phase(ctx, rep, info, [inp['call']], {0: r['calls'][0]}, replay=True)
    elif kind == 'history':
        calls = inp['calls']; k = inp['index']
        fresh = run_many([{'mode': 'eval', 'calls': [calls[k]]}])[0]
        hist = run_many([{'mode': 'eval', 'calls': calls, 'instrument': bool(inp.get('instrument'))}], seeds=[inp.get('seed', 0)])[0]
        ok = 'crash' not in fresh and 'crash' not in hist and fresh['calls'][0]['digest'] == hist['calls'][k]['digest'] \
            and not hist['calls'][k].get('memo_model_mismatch')
        ctx.case(sample={'history': [short(c) for c in calls], 'fresh': fresh.get('calls', [{}])[0].get('digest'), 'in_history': hist.get('calls', [{}] * (k + 1))[k].get('digest')})
        ctx.obligation('last call of the replayed history returns what it returns in a fresh interpreter', ok, 'predicate')
        if not ok:
            ctx.violation('%s returns a different value after the replayed history than in a fresh interpreter' % op_family(calls[k]), data=inp, key=rp.get('key'))
    elif kind == 'layout':
        r = run_many([{'mode': 'layout', 'calls': [inp['call']]}])[0]
        bad = [v for v in r['calls'][0]['variants'] if (not v.get('struct_ok', True)) or v.get('nan_mismatch') or v.get('maxdiff', 0) > 1e-10 * max(v.get('scale', 0), 1e-300)]
        ctx.case(sample={'call': short(inp['call']), 'variants': r['calls'][0]['variants'][:6]})
        ctx.obligation('replayed call gives the contiguous-copy result for every layout of the argument', not bad, 'predicate', json.dumps(bad)[:300])
        if bad:
            ctx.violation('%s: result depends on the memory layout of %s (%s)' % (op_family(inp['call']), bad[0]['arg'], bad[0]['variant']), data=inp, key=rp.get('key'))
    elif kind == 'evalseq':
        single = run_many([{'mode': 'eval', 'calls': [inp['single']]}])[0]
        seq = run_many([{'mode': 'eval', 'calls': [inp['call']]}])[0]
        el = seq['calls'][0].get('elements') or [None, None]
        wel = single['calls'][0].get('elements') or [None]
        ok = len(el) == 2 and el[1] == wel[0]
        ctx.case(sample={'elements': el, 'single': wel})
        ctx.obligation('second evaluation of the replayed generated function returns what a fresh one returns', ok, 'predicate')
        if not ok:
            ctx.violation('%s: the second of two evaluations of one generated function differs from its fresh value' % op_family(inp['call']), data=inp, key=rp.get('key'))
    elif kind == 'export':
        r = run_many([{'mode': 'eval', 'calls': [inp['call']]}])[0]
        rec = r.get('calls', [{}])[0]
        ex = rec.get('export')
        ok = bool(ex) and ex['same_text'] and not rec.get('error')
        ctx.case(sample={'call': short(inp['call']), 'export': ex})
        ctx.obligation('replayed exporter writes the text of the C-contiguous copy', ok, 'predicate', json.dumps(ex)[:300])
        if not ok:
            ctx.violation('%s: the written text depends on the memory layout of the spectrum' % op_family(inp['call']), data=inp, key=rp.get('key'))
    elif kind == 'gimseq':
        singles = run_many([{'mode': 'eval', 'calls': [c]} for c in inp['singles']])
        seq = run_many([{'mode': 'eval', 'calls': [inp['call']]}])[0]
        el = seq['calls'][0].get('elements', [])
        wrong = [i for i, (e, r) in enumerate(zip(el, singles)) if e != r['calls'][0]['digest']]
        ctx.case(sample={'wrong': wrong})
        ctx.obligation('replayed Godambe sequence returns the fresh-interpreter values', not wrong, 'predicate', repr(wrong))
        if wrong:
            ctx.violation('Godambe.LRT_adjust sequence: call(s) %s differ from their fresh-interpreter value (stale Godambe.cache hit)' % wrong, data=inp, key=rp.get('key'))
    elif kind == 'hashseed':
        a = run_many([{'mode': 'eval', 'calls': [inp['call']]}])[0]
        bb = run_many([{'mode': 'eval', 'calls': [inp['call']]}], seeds=[inp['seed']])[0]
        ok = a['calls'][0]['digest'] == bb['calls'][0]['digest']
        ctx.case()
        ctx.obligation('replayed call identical under both hash seeds', ok, 'predicate')
        if not ok:
            ctx.violation('%s depends on PYTHONHASHSEED' % op_family(inp['call']), data=inp, key=rp.get('key'))
    else:
        info = translator_tie(ctx)
        ctx.notes.append('replay file without a concrete input: translator obligations re-run')
