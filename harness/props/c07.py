"""C07 — grid extrapolation exact for polynomial grid dependence, k = 1..6.

Static theorems: coq/theories/Props/C07.v.
Per run:  (1) translator obligations: the five closed formulas of Numerics.py, re-read from the current
              source, are proved equal to the model's Lagrange form for all inputs (field);
          (2) dispatch table extracted from make_extrap_func == {2:linear,...,6:quintic};
          (3) correspondence: make_extrap_func / make_extrap_log_func on generated models vs the Coq model over Q;
          (4) the property predicate itself on the implementation (result == value at spacing 0).
"""
import ast, itertools, json, math, os
from fractions import Fraction
from harness import lib
from harness.lib import q, ql, b
from harness.translate import pyexpr

NUMERICS = os.path.join(lib.REPO, 'dadi', 'Numerics.py')
FUNCS = {2: 'linear_extrap', 3: 'quadratic_extrap', 4: 'cubic_extrap', 5: 'quartic_extrap', 6: 'quintic_extrap'}
TOL = Fraction(1, 10 ** 11)

def translator_obligations(ctx):
    files = []
    for k, name in FUNCS.items():
        try:
            text, params, groups = pyexpr.translate_function(NUMERICS, name, funcs={})
            ys, xs = groups.get('ys'), groups.get('xs')
            if not ys or not xs or len(ys) != k or len(xs) != k or params != ys + xs:
                raise pyexpr.Refuse('%s: unexpected unpacking %r' % (name, groups))
        except (pyexpr.Refuse, SyntaxError, OSError) as e:
            ctx.obligation('translate Numerics.%s' % name, False, 'translator', str(e))
            continue
        ctx.obligation('translate Numerics.%s' % name, True, 'translator')
        hyps = ' -> '.join('%s <> %s' % (xs[i], xs[j]) for i in range(k) for j in range(i + 1, k))
        pairs = '; '.join('(%s, %s)' % (x, y) for x, y in zip(xs, ys))
        v = '\n'.join([
            'From Coq Require Import ZArith Reals List Lra.',
            'From Dadi Require Import Base.Num Base.NumR Model.Extrap Proofs.ExtrapProofs.',
            'Import ListNotations. Local Open Scope R_scope.',
            text,
            'Lemma ob_%s : forall %s : R, %s -> gen_%s %s = lagrange0 [%s].' % (name, ' '.join(params), hyps, name, ' '.join(params), pairs),
            'Proof. intros. unfold gen_%s. lag_unfold.' % name,
            '  first [ solve [ timeout 100 (rewrite ?Rplus_assoc, ?Rplus_0_r; repeat (apply (f_equal2 Rplus)); field; neq0) ]',
            '        | (field; neq0) ]. Qed.', ''])
        files.append(('C07_ob_' + name, v))
    res = lib.run_case_files(files, timeout=600)
    for n, (rc, so, se, secs) in res.items():
        ctx.obligation('generated obligation %s (source formula = Lagrange form, field)' % n, rc == 0, 'translator', se[-500:] if rc else '')
    ctx.checker_cmds.append('coqc build/cases/C07_ob_*.v (regenerated from dadi/Numerics.py)')

def dispatch_obligation(ctx):
    """the if/elif chain on len(pts_l) inside make_extrap_func"""
    try:
        tree = ast.parse(open(NUMERICS).read())
        fn = [n for n in tree.body if isinstance(n, ast.FunctionDef) and n.name == 'make_extrap_func'][0]
        table = {}
        for node in ast.walk(fn):
            if isinstance(node, ast.If):
                t = node.test
                if (isinstance(t, ast.Compare) and len(t.ops) == 1 and isinstance(t.ops[0], ast.Eq)
                        and isinstance(t.left, ast.Call) and getattr(t.left.func, 'id', None) == 'len'
                        and isinstance(t.comparators[0], ast.Constant)):
                    k = t.comparators[0].value
                    st = node.body[0]
                    if isinstance(st, ast.Assign) and isinstance(st.value, ast.Call) and isinstance(st.value.func, ast.Name):
                        args = [getattr(a, 'id', None) for a in st.value.args]
                        table[k] = (st.value.func.id, args)
                    elif isinstance(st, ast.Assign) and isinstance(st.value, ast.Subscript):
                        table[k] = ('identity', None)
        expect = {1: ('identity', None)}
        expect.update({k: (v, ['result_l', 'x_l']) for k, v in FUNCS.items()})
        ok = table == expect
        ctx.obligation('dispatch table of make_extrap_func = {1:id, 2:linear, ..., 6:quintic}(result_l, x_l)', ok, 'translator', repr(table) if not ok else '')
    except Exception as e:
        ctx.obligation('dispatch table of make_extrap_func', False, 'translator', repr(e))

def gen_cases(ctx):
    rng = ctx.rng
    cases = []
    cid = 0
    nper = ctx.pick(5, 40)
    ptsets = [10, 12, 16, 20, 24, 30, 32, 40, 45, 50, 64, 70, 80, 100]
    for k in range(1, 7):
        perms_all = list(itertools.permutations(range(k)))
        if ctx.quick:
            perms = [perms_all[0], perms_all[-1]] + [rng.choice(perms_all) for _ in range(nper)]
        else:
            perms = perms_all if k >= 4 else perms_all * 6
            if k == 6:
                perms = perms_all
        base_cache = None
        for pi, perm in enumerate(perms):
            if base_cache is None or pi % 7 == 0 or ctx.quick:
                pts0 = sorted(rng.sample(ptsets, k))
                nent = rng.choice([1, 2, 3, 4])
                coefs0 = [[lib.dyadic(rng, -4, 4, 6) for _ in range(k)] for _ in range(nent)]
                for cs in coefs0:
                    # the value at zero spacing must not be exactly 0: there the fallback test log10(ex/best) sits on a
                    # discontinuity (0 -> -inf -> fallback; -1e-14 -> nan -> no fallback) that float round-off decides
                    if cs[0] == 0:
                        cs[0] = 0.5
                base_cache = (pts0, coefs0)
            pts0, coefs0 = base_cache
            pts = [pts0[i] for i in perm]
            style = rng.choice(['inv', 'dyadic', 'grid'])
            if style == 'inv':
                xmap = {p: 1.0 / p for p in pts0}
            elif style == 'dyadic':
                xmap = {p: p / 128.0 for p in pts0}
            else:
                xmap = {p: 0.37 / (p - 1) for p in pts0}
            xs = [xmap[p] for p in pts]
            logm = rng.random() < 0.4
            mode = rng.choice(['array', 'array', 'spectrum'])
            coefs = [list(c) for c in coefs0]
            if logm:
                coefs = [[c / 2 for c in cs] for cs in coefs]
            c = {'id': cid, 'k': k, 'pts': pts, 'xs': xs, 'coefs': coefs, 'log': logm,
                 'fail_mag': 10, 'mode': mode, 'x_from': 'explicit', 'pts_passing': rng.choice(['pos', 'kw']),
                 'via_log_func': logm and rng.random() < 0.5, 'perm': list(perm), 'scalar_pts': k == 1 and rng.random() < 0.5}
            if mode == 'scalar':
                c['coefs'] = coefs[:1]
            if mode == 'spectrum':
                n = len(coefs)
                if rng.random() < 0.5 or n < 4:
                    c['coefs'] = (coefs * 4)[:4] if n < 4 else coefs
                    c['coefs'] = [list(x) for x in c['coefs']]
                    for e, cs in enumerate(c['coefs']):
                        cs[0] = cs[0] + e      # distinct entries
                    c['shape'] = [4]; c['pop_ids'] = [rng.choice(['A', 'pop one', 'YRI'])]
                else:
                    c['shape'] = [2, 2]; c['pop_ids'] = ['A', 'B b']
                c['x_from'] = rng.choice(['attr', 'explicit'])
                c['mask_corners'] = rng.random() < 0.7
                # with an explicit extrap_x_l the results may carry their own, different extrap_x (every Spectrum.from_phi
                # result does) or None: the explicit list is documented to take precedence
                c['attr_x'] = rng.choice(['same', 'other', 'other', 'none']) if c['x_from'] == 'explicit' else 'same'
            for cs in c['coefs']:
                if cs[0] == 0:          # see above: keep the zero-spacing value off the discontinuity of the fallback test
                    cs[0] = 0.5
            if not c['via_log_func'] and rng.random() < 0.35 and k > 1:
                c['fail_mag'] = rng.choice([1, 0.5, 0.1, 0.01, 0.001])
            cases.append(c); cid += 1
    # explicit extrap_x_l against results that carry another extrap_x (or None): every k, linear and log mode
    for k in range(2, 7):
        for logm in (False, True):
            for ax in ('other', 'none'):
                pts0 = sorted(rng.sample(range(8, 60), k))
                xs = [1.0 / p_ for p_ in pts0]
                coefs = [[lib.dyadic(rng, -2, 2, 4) / (2 if logm else 1) for _ in range(k)] for _ in range(4)]
                for e, cs in enumerate(coefs):
                    cs[0] = 0.5 + e
                cases.append({'id': cid, 'k': k, 'pts': pts0, 'xs': xs, 'coefs': coefs, 'log': logm, 'fail_mag': 10, 'mode': 'spectrum',
                              'x_from': 'explicit', 'attr_x': ax, 'pts_passing': rng.choice(['pos', 'kw']), 'via_log_func': logm and ax == 'other',
                              'perm': list(range(k)), 'scalar_pts': False, 'shape': [4], 'pop_ids': ['A'], 'mask_corners': False})
                cid += 1
    # forced fallback / special ratio cases (ex tiny, zero, negative relative to best)
    for k in range(2, 7):
        for kind in ['tiny', 'zero', 'negative', 'huge']:
            pts = sorted(rng.sample([8, 16, 32, 64, 128, 256, 512], k))
            xs = [8.0 / p for p in pts]
            # weights
            ws = []
            for i in range(k):
                w = Fraction(1)
                for j in range(k):
                    if j != i:
                        w *= Fraction(xs[j]) / (Fraction(xs[j]) - Fraction(xs[i]))
                ws.append(w)
            ys = [float(rng.randint(1, 8)) for _ in range(k)]
            # adjust ys[0] so that sum w y = target
            rest = sum(ws[i] * Fraction(ys[i]) for i in range(1, k))
            target = {'tiny': Fraction(1, 2 ** 30), 'zero': Fraction(0), 'negative': Fraction(-3), 'huge': Fraction(2 ** 30)}[kind]
            y0 = (target - rest) / ws[0]
            ys[0] = float(y0)
            if kind == 'zero':
                # exactly representable instance only (k = 2): x = [1, 1/2], w = [-1, 2], y = [2, 1]
                if k != 2:
                    continue
                pts, xs, ys = [8, 16], [1.0, 0.5], [2.0, 1.0]
            cases.append({'id': cid, 'k': k, 'pts': pts, 'xs': xs, 'coefs': [[0.0] * k], 'ys_override': [ys], 'log': False,
                          'fail_mag': 5, 'mode': 'array', 'x_from': 'explicit', 'pts_passing': 'pos', 'via_log_func': False,
                          'perm': list(range(k)), 'special': kind})
            cid += 1
    return cases

def run(ctx):
    ctx.rule = ('cases = (k, ordering of k distinct grid sizes, polynomial coefficient sets per entry, linear/log mode, '
                'array/Spectrum/scalar result, explicit or attribute-derived x, positional/keyword pts, fail_mag) drawn from one PRNG; '
                'plus forced-fallback cases; distinct = distinct (k, ordering, xs, coefs, flags); non-trivial = k >= 2')
    ctx.assumptions += ['float64 evaluation of the formulas is compared with exact rational evaluation at tolerance 1e-11 x conditioning scale (sum |w_i y_i|)',
                        'Qexp/Qln are rational approximations with relative error < 1e-25 (log mode only)']
    translator_obligations(ctx)
    dispatch_obligation(ctx)
    cases = gen_cases(ctx)
    if ctx.replay:
        rp = json.load(open(ctx.replay))
        if rp.get('input') and 'case' in rp['input']:
            c = rp['input']['case']; c['id'] = 0
            cases = [c]
    res = lib.run_impl('c07_impl.py', cases, timeout=900)
    byid = {r['id']: r for r in res}
    exprs = []
    meta = {}
    for c in cases:
        r = byid[c['id']]
        ctx.count('k=%d' % c['k']); ctx.count('mode=' + c['mode']); ctx.count('log' if c['log'] else 'linear')
        if 'error' in r:
            ctx.count('impl_error')
            ctx.violation('make_extrap_func raised %s for k=%d grid sizes' % (r['error'], c['k']),
                          data={'case': c, 'impl': r}, key='extrap-raises-k%d' % c['k'] if 'NameError' in r['error'] else None)
            continue
        ys = r['ys']; out = r['res']
        ctx.case(signature=(c['k'], c['perm'], c['xs'], c['coefs'], c['log'], c['mode'], c['fail_mag'], c.get('special')) if c['k'] >= 2 else None,
                 sample={'k': c['k'], 'pts': c['pts'], 'xs': c['xs'], 'ys': ys, 'log': c['log'], 'mode': c['mode'], 'impl': out})
        mask = r.get('mask') or [False] * len(out)
        # --- glue: labels, type, name
        if c['mode'] == 'spectrum':
            if r.get('pop_ids') != c.get('pop_ids') or not r.get('is_spectrum') or r.get('shape') != c['shape']:
                ctx.violation('Spectrum-valued extrapolation lost labels/type/shape: got %r %r' % (r.get('pop_ids'), r.get('shape')),
                              data={'case': c, 'impl': r})
        if r.get('name') != 'model':
            ctx.violation('extrapolated function lost __name__', data={'case': c, 'impl': r})
        # --- property predicate on the implementation (polynomial cases): result = value at 0
        if not c.get('ys_override'):
            for e, cs in enumerate(c['coefs']):
                if mask[e]:
                    continue
                want = math.exp(cs[0]) if c['log'] else cs[0]
                # conditioning: sum |w_i y_i|
                fx = [Fraction(x) for x in c['xs']]
                sc = Fraction(0)
                for i in range(c['k']):
                    w = Fraction(1)
                    for j in range(c['k']):
                        if j != i:
                            w *= fx[j] / (fx[j] - fx[i])
                    yy = Fraction(ys[e][i]) if not c['log'] else Fraction(math.log(ys[e][i]))
                    sc += abs(w * yy)
                scale = float(sc) + abs(want)
                if c['log']:
                    scale = (1 + float(sc)) * abs(want)
                # skip entries where the fallback legitimately applies
                best = ys[e][min(range(c['k']), key=lambda i: c['xs'][i])]
                fb = False
                if c['k'] > 1 and want != 0 and best != 0 and want / best > 0:
                    fb = abs(math.log10(want / best)) > c['fail_mag'] * (1 - 1e-6)
                if fb:
                    ctx.count('fallback_applies'); continue
                if abs(out[e] - want) > 1e-9 * scale:
                    ctx.violation('extrapolation of a degree<k polynomial is not the value at zero spacing: k=%d got %r want %r' % (c['k'], out[e], want),
                                  data={'case': c, 'entry': e, 'impl': out[e], 'want': want})
        # --- correspondence cases (per unmasked entry)
        for e in range(len(out)):
            if mask[e]:
                continue
            # avoid boundary of the fallback decision (approximate logs on the Q side)
            ex_e = out[e]
            skip = False
            if c['k'] > 1:
                best = ys[e][min(range(c['k']), key=lambda i: (c['xs'][i], i))]
                # we cannot know ex before fallback; the model decides. Boundary guard done on model side by exactness of Qln (1e-25).
            n = len(exprs)
            exprs.append((n, '{| xc_log := %s; xc_fm := %s; xc_xs := %s; xc_ys := %s; xc_impl := %s |}' % (
                b(c['log']), q(Fraction(repr(c['fail_mag'])) if isinstance(c['fail_mag'], float) else c['fail_mag']), ql(c['xs']), ql(ys[e]), q(out[e]))))
            meta[n] = (c, e)
    header = 'From Coq Require Import ZArith QArith List.\nFrom Dadi Require Import Base.Num Base.NumQ Model.Extrap Model.ExtrapCheck.\nImport ListNotations.\nOpen Scope Q_scope.'
    results = ctx.coq_cases('corr', header, exprs, '(xcheck %s)' % q(TOL), 'tol 1e-11 x conditioning scale', shard=ctx.pick(60, 150))
    nbad = 0
    for n, (c, e) in meta.items():
        rr = results.get(n)
        ok = rr is not None and rr[0]
        ctx.obligation('corr case %d entry %d' % (c['id'], e), ok, 'correspondence', '' if ok else 'model != impl (log2 rel err %r)' % (rr,))
        if not ok:
            nbad += 1
            if nbad <= 3:
                ctx.violation('make_extrap_func disagrees with the Lagrange model (k=%d, log=%s, fail_mag=%s)' % (c['k'], c['log'], c['fail_mag']),
                              data={'case': c, 'entry': e, 'impl': byid[c['id']], 'coq': rr}, no_input=bool(c.get('ys_override')) is None)
