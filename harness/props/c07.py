"""C07 — grid extrapolation exact for polynomial grid dependence, k = 1..6.

Static theorems: coq/theories/Props/C07.v.
Per run:  (1) translator obligations: the five closed formulas of Numerics.py, re-read from the current
              source, are proved equal to the model's Lagrange form for all inputs (field);
          (2) dispatch table extracted from make_extrap_func == {2:linear,...,6:quintic};
          (3) correspondence: make_extrap_func / make_extrap_log_func on generated models vs the Coq model over Q;
          (4) the property predicate itself on the implementation (result == value at spacing 0);
          (5) ONE wrap, SEVERAL calls: every case wraps its model once and calls the wrapped function positionally, by keyword,
              positionally again, with the grid list in another order, with another pts list of the same length and once more,
              with extrap_x_l given as list / tuple / numpy array / one list shared between two wrapped functions; every call is
              compared with the (pure) Coq model, identical calls must agree bit for bit, every object handed over must be
              bit-identical afterwards, results must not share memory with the model's arrays (C07_calls_are_independent);
          (6) the frame condition of extrap_func read off the source (harness/props/c07_frame.py);
          (7) ARGUMENT TYPES (harness/props/c07_types.py, every run): the same numbers handed over as python ints / numpy integer and
              float32 scalars / integer arrays / mixtures / 0-d arrays (extrap_x_l, .extrap_x, pts, results, fail_mag, extrap_log, and the
              closed formulas called directly), integer spacings certified sensitive to integer-cut weights; every accepted variant against
              the canonical float call, the value at zero spacing and the Coq model on the typed node list (C07_typing_of_spacings_irrelevant,
              C07_integer_spacings_exact, C07_integer_weights_refuted).  When a source obligation is broken the stream runs at thorough size
              (targeted search) before anything is reported without a failing input.
          (8) EDGE VALUES OF THE FALLBACK THRESHOLD (harness/props/c07_edges.py, every run): k = 2..6, linear/log, array/Spectrum, fail_mag = 0 in every
              accepted spelling (int, float, -0.0, False, numpy scalars, 0-d arrays, Fraction), tiny, just below / just above the decade distance of
              an entry, exactly the decade distance (exact integer data: ties), 1/True, large, infinite; zero / equal / negative / sign-changing
              entries; against the Coq model (fail_mag enters `far` as a number of the field) and BOTH halves of the property predicate (value at zero
              spacing when robustly within fail_mag decades, finest-grid value when robustly beyond); full size when a source obligation is broken
              (C07_fallback_decision_is_strict_decade_distance, C07_zero_threshold_falls_back_whenever_different).
"""
import ast, itertools, json, math, os
from fractions import Fraction
from harness import lib
from harness.lib import q, ql, b
from harness.translate import pyexpr
from harness.props import c07_frame, c07_types, c07_edges

NUMERICS = os.path.join(lib.REPO, 'dadi', 'Numerics.py')
FUNCS = {2: 'linear_extrap', 3: 'quadratic_extrap', 4: 'cubic_extrap', 5: 'quartic_extrap', 6: 'quintic_extrap'}
TOL = Fraction(1, 10 ** 11)

def translator_obligations(ctx):
    files = []
    for k, name in FUNCS.items():
        try:
            text, params, groups = pyexpr.translate_function(NUMERICS, name, funcs={})
            ys, xs = groups.get('ys'), groups.get('xs')
            if not ys or not xs or len(ys) != k or len(xs) != k or params != ys + xs:
                raise pyexpr.Refuse('%s: unexpected unpacking %r' % (name, groups))
        except (pyexpr.Refuse, SyntaxError, OSError) as e:
            ctx.obligation('translate Numerics.%s' % name, False, 'translator', str(e))
            continue
        ctx.obligation('translate Numerics.%s' % name, True, 'translator')
        hyps = ' -> '.join('%s <> %s' % (xs[i], xs[j]) for i in range(k) for j in range(i + 1, k))
        pairs = '; '.join('(%s, %s)' % (x, y) for x, y in zip(xs, ys))
        v = '\n'.join([
            'From Coq Require Import ZArith Reals List Lra.',
            'From Dadi Require Import Base.Num Base.NumR Model.Extrap Proofs.ExtrapProofs.',
            'Import ListNotations. Local Open Scope R_scope.',
            text,
            'Lemma ob_%s : forall %s : R, %s -> gen_%s %s = lagrange0 [%s].' % (name, ' '.join(params), hyps, name, ' '.join(params), pairs),
            'Proof. intros. unfold gen_%s. lag_unfold.' % name,
            '  first [ solve [ timeout 100 (rewrite ?Rplus_assoc, ?Rplus_0_r; repeat (apply (f_equal2 Rplus)); field; neq0) ]',
            '        | (field; neq0) ]. Qed.', ''])
        files.append(('C07_ob_' + name, v))
    res = lib.run_case_files(files, timeout=600)
    for n, (rc, so, se, secs) in res.items():
        ctx.obligation('generated obligation %s (source formula = Lagrange form, field)' % n, rc == 0, 'translator', se[-500:] if rc else '')
    ctx.checker_cmds.append('coqc build/cases/C07_ob_*.v (regenerated from dadi/Numerics.py)')

def dispatch_obligation(ctx):
    """the if/elif chain on len(pts_l) inside make_extrap_func"""
    try:
        tree = ast.parse(open(NUMERICS).read())
        fn = [n for n in tree.body if isinstance(n, ast.FunctionDef) and n.name == 'make_extrap_func'][0]
        table = {}
        for node in ast.walk(fn):
            if isinstance(node, ast.If):
                t = node.test
                if (isinstance(t, ast.Compare) and len(t.ops) == 1 and isinstance(t.ops[0], ast.Eq)
                        and isinstance(t.left, ast.Call) and getattr(t.left.func, 'id', None) == 'len'
                        and isinstance(t.comparators[0], ast.Constant)):
                    k = t.comparators[0].value
                    st = node.body[0]
                    if isinstance(st, ast.Assign) and isinstance(st.value, ast.Call) and isinstance(st.value.func, ast.Name):
                        args = [getattr(a, 'id', None) for a in st.value.args]
                        table[k] = (st.value.func.id, args)
                    elif isinstance(st, ast.Assign) and isinstance(st.value, ast.Subscript):
                        table[k] = ('identity', None)
        expect = {1: ('identity', None)}
        expect.update({k: (v, ['result_l', 'x_l']) for k, v in FUNCS.items()})
        ok = table == expect
        ctx.obligation('dispatch table of make_extrap_func = {1:id, 2:linear, ..., 6:quintic}(result_l, x_l)', ok, 'translator', repr(table) if not ok else '')
    except Exception as e:
        ctx.obligation('dispatch table of make_extrap_func', False, 'translator', repr(e))

def gen_cases(ctx, edges_full=False):
    rng = ctx.rng
    cases = []
    cid = 0
    nper = ctx.pick(5, 40)
    ptsets = [10, 12, 16, 20, 24, 30, 32, 40, 45, 50, 64, 70, 80, 100]
    for k in range(1, 7):
        perms_all = list(itertools.permutations(range(k)))
        if ctx.quick:
            perms = [perms_all[0], perms_all[-1]] + [rng.choice(perms_all) for _ in range(nper)]
        else:
            perms = perms_all if k >= 4 else perms_all * 6
            if k == 6:
                perms = perms_all
        base_cache = None
        for pi, perm in enumerate(perms):
            if base_cache is None or pi % 7 == 0 or ctx.quick:
                pts0 = sorted(rng.sample(ptsets, k))
                nent = rng.choice([1, 2, 3, 4])
                coefs0 = [[lib.dyadic(rng, -4, 4, 6) for _ in range(k)] for _ in range(nent)]
                for cs in coefs0:
                    # the value at zero spacing must not be exactly 0: there the fallback test log10(ex/best) sits on a
                    # discontinuity (0 -> -inf -> fallback; -1e-14 -> nan -> no fallback) that float round-off decides
                    if cs[0] == 0:
                        cs[0] = 0.5
                base_cache = (pts0, coefs0)
            pts0, coefs0 = base_cache
            pts = [pts0[i] for i in perm]
            style = rng.choice(['inv', 'dyadic', 'grid'])
            if style == 'inv':
                xmap = {p: 1.0 / p for p in pts0}
            elif style == 'dyadic':
                xmap = {p: p / 128.0 for p in pts0}
            else:
                xmap = {p: 0.37 / (p - 1) for p in pts0}
            xs = [xmap[p] for p in pts]
            logm = rng.random() < 0.4
            mode = rng.choice(['array', 'array', 'spectrum'])
            coefs = [list(c) for c in coefs0]
            if logm:
                coefs = [[c / 2 for c in cs] for cs in coefs]
            c = {'id': cid, 'k': k, 'pts': pts, 'xs': xs, 'coefs': coefs, 'log': logm,
                 'fail_mag': 10, 'mode': mode, 'x_from': 'explicit', 'pts_passing': rng.choice(['pos', 'kw']),
                 'via_log_func': logm and rng.random() < 0.5, 'perm': list(perm), 'scalar_pts': k == 1 and rng.random() < 0.5}
            if mode == 'scalar':
                c['coefs'] = coefs[:1]
            if mode == 'spectrum':
                n = len(coefs)
                if rng.random() < 0.5 or n < 4:
                    c['coefs'] = (coefs * 4)[:4] if n < 4 else coefs
                    c['coefs'] = [list(x) for x in c['coefs']]
                    for e, cs in enumerate(c['coefs']):
                        cs[0] = cs[0] + e      # distinct entries
                    c['shape'] = [4]; c['pop_ids'] = [rng.choice(['A', 'pop one', 'YRI'])]
                else:
                    c['shape'] = [2, 2]; c['pop_ids'] = ['A', 'B b']
                c['x_from'] = rng.choice(['attr', 'explicit'])
                c['mask_corners'] = rng.random() < 0.7
                # with an explicit extrap_x_l the results may carry their own, different extrap_x (every Spectrum.from_phi
                # result does) or None: the explicit list is documented to take precedence
                c['attr_x'] = rng.choice(['same', 'other', 'other', 'none']) if c['x_from'] == 'explicit' else 'same'
            for cs in c['coefs']:
                if cs[0] == 0:          # see above: keep the zero-spacing value off the discontinuity of the fallback test
                    cs[0] = 0.5
            if not c['via_log_func'] and rng.random() < 0.35 and k > 1:
                c['fail_mag'] = rng.choice([1, 0.5, 0.1, 0.01, 0.001])
            cases.append(c); cid += 1
    # explicit extrap_x_l against results that carry another extrap_x (or None): every k, linear and log mode
    for k in range(2, 7):
        for logm in (False, True):
            for ax in ('other', 'none'):
                pts0 = sorted(rng.sample(range(8, 60), k))
                xs = [1.0 / p_ for p_ in pts0]
                coefs = [[lib.dyadic(rng, -2, 2, 4) / (2 if logm else 1) for _ in range(k)] for _ in range(4)]
                for e, cs in enumerate(coefs):
                    cs[0] = 0.5 + e
                cases.append({'id': cid, 'k': k, 'pts': pts0, 'xs': xs, 'coefs': coefs, 'log': logm, 'fail_mag': 10, 'mode': 'spectrum',
                              'x_from': 'explicit', 'attr_x': ax, 'pts_passing': rng.choice(['pos', 'kw']), 'via_log_func': logm and ax == 'other',
                              'perm': list(range(k)), 'scalar_pts': False, 'shape': [4], 'pop_ids': ['A'], 'mask_corners': False})
                cid += 1
    # forced fallback / special ratio cases (ex tiny, zero, negative relative to best)
    for k in range(2, 7):
        for kind in ['tiny', 'zero', 'negative', 'huge']:
            pts = sorted(rng.sample([8, 16, 32, 64, 128, 256, 512], k))
            xs = [8.0 / p for p in pts]
            # weights
            ws = []
            for i in range(k):
                w = Fraction(1)
                for j in range(k):
                    if j != i:
                        w *= Fraction(xs[j]) / (Fraction(xs[j]) - Fraction(xs[i]))
                ws.append(w)
            ys = [float(rng.randint(1, 8)) for _ in range(k)]
            # adjust ys[0] so that sum w y = target
            rest = sum(ws[i] * Fraction(ys[i]) for i in range(1, k))
            target = {'tiny': Fraction(1, 2 ** 30), 'zero': Fraction(0), 'negative': Fraction(-3), 'huge': Fraction(2 ** 30)}[kind]
            y0 = (target - rest) / ws[0]
            ys[0] = float(y0)
            if kind == 'zero':
                # exactly representable instance only (k = 2): x = [1, 1/2], w = [-1, 2], y = [2, 1]
                if k != 2:
                    continue
                pts, xs, ys = [8, 16], [1.0, 0.5], [2.0, 1.0]
            cases.append({'id': cid, 'k': k, 'pts': pts, 'xs': xs, 'coefs': [[0.0] * k], 'ys_override': [ys], 'log': False,
                          'fail_mag': 5, 'mode': 'array', 'x_from': 'explicit', 'pts_passing': 'pos', 'via_log_func': False,
                          'perm': list(range(k)), 'special': kind})
            cid += 1
    # one wrap, several calls: systematic, every case (argument kinds cycle over the cases that pass an explicit list)
    nexp = 0
    for n, c in enumerate(cases):
        attach_calls(rng, c, n, nexp)
        if c['x_from'] == 'explicit':
            nexp += 1
    # edge values of the fallback threshold (harness/props/c07_edges.py): systematic, every run, own PRNG, own (short) call lists
    cases += c07_edges.gen_edges(ctx, edges_full, cid)
    return cases


XL_KINDS = ['list', 'tuple', 'ndarray', 'shared']      # 'shared': ONE list object given to two wrapped functions
PTS_KINDS = ['list', 'tuple', 'ndarray']
ARGS = [[1.5, 2.5], [0.5, 2.5], [3.5, 2.5], [6.5, 2.5], [1.5, 0.5]]   # the model scales its value by (a+b)/4: 1, 3/4, 3/2, 9/4, 1/2

def lag_weights(xs):
    fx = [Fraction(x) for x in xs]
    ws = []
    for i in range(len(fx)):
        w = Fraction(1)
        for j in range(len(fx)):
            if j != i:
                w *= fx[j] / (fx[j] - fx[i])
        ws.append(w)
    return ws

def other_order(rng, c):
    """a non-identity ordering of the grid list.  With an explicit x list the permuted results are paired with the x values by
    position, which is not polynomial data any more: in log mode keep the extrapolated logarithm moderate (exp on both sides)."""
    k = c['k']
    if k < 2:
        return None
    ident = list(range(k))
    cands = []
    for _ in range(12):
        p = ident[:]; rng.shuffle(p)
        if p != ident:
            cands.append(p)
    cands += [ident[:i] + [ident[j]] + ident[i + 1:j] + [ident[i]] + ident[j + 1:] for i in range(k) for j in range(i + 1, k)]
    if not (c['log'] and c['x_from'] == 'explicit') or c.get('ys_override'):
        return cands[0]
    ws = lag_weights(c['xs'])
    for p in cands:
        worst = Fraction(0)
        for cs in c['coefs'] + (c.get('coefs2') or []):
            e = Fraction(0)
            for i in range(k):
                x = Fraction(c['xs'][p[i]]); v = Fraction(0)
                for cc in reversed(cs):
                    v = v * x + Fraction(cc)
                e += ws[i] * v
            worst = max(worst, abs(e))
        if worst <= 30:
            return p
    return None

def attach_calls(rng, c, n, nexp):
    k = c['k']; A = list(c['pts']); xs = list(c['xs'])
    explicit = c['x_from'] == 'explicit'
    if explicit:
        c['xl_kind'] = XL_KINDS[nexp % len(XL_KINDS)]
        if c['xl_kind'] == 'shared' and c.get('ys_override'):
            c['xl_kind'] = 'list'          # the forced-fallback cases carry one prescribed data set
        if c['xl_kind'] == 'shared':
            c2 = []
            for cs in c['coefs']:
                d = [cc + lib.dyadic(rng, -1, 1, 4) / (2 if c['log'] else 1) for cc in cs]
                if d[0] == 0:
                    d[0] = 0.25
                c2.append(d)
            c['coefs2'] = c2
        # another pts list of the same length: other grid sizes whose spacing the explicit list describes just as well
        B = [p_ + 1000 for p_ in A]; xB = list(xs)
    else:
        # no explicit list: the x values travel with the results, so another pts list means other spacings (and the same limit)
        m = 7
        while set(m * p_ + 1 for p_ in A) & set(A):
            m += 1
        B = [m * p_ + 1 for p_ in A]
        xB = [0.41 / (p_ + 1) for p_ in B]
    c['grid_pts'] = A + B; c['grid_x'] = xs + xB
    perm = other_order(rng, c)
    pk = PTS_KINDS[n % 3]
    first_kind = 'scalar' if (k == 1 and c.get('scalar_pts')) else pk
    # other arguments scale the model (a wrapper must not remember results by grid list alone).  Every distinct (node list, data) pair
    # is one exact evaluation of the model in Coq (0.05 s .. 0.3 s: 300-bit weights, 160-bit logarithms), so the scale changes only where
    # the data set is new anyway: the reordered grid list, another pts list with its own spacings, the second wrapped function.
    args_perm = ARGS[1]
    args_B = ARGS[0] if explicit else ARGS[2]
    args_again = ARGS[0] if perm is not None else ARGS[3]
    calls = [{'fn': 0, 'passing': 'pos', 'pts': A, 'pts_kind': first_kind, 'args': ARGS[0], 'what': 'positional'},
             {'fn': 0, 'passing': 'kw', 'pts': A, 'pts_kind': pk, 'args': ARGS[0], 'what': 'keyword'},
             {'fn': 0, 'passing': 'pos', 'pts': A, 'pts_kind': pk if k > 1 or c.get('scalar_pts') else 'scalar', 'args': ARGS[0], 'what': 'positional again'}]
    if c.get('pts_passing') == 'kw':       # keep the first call what the single-call generator drew
        calls[0]['passing'], calls[1]['passing'] = 'kw', 'pos'
        calls[0]['what'], calls[1]['what'] = 'keyword', 'positional'
        calls[2]['passing'] = 'kw'; calls[2]['what'] = 'keyword again'
    if perm is not None:
        calls.append({'fn': 0, 'passing': rng.choice(['pos', 'kw']), 'pts': [A[i] for i in perm], 'pts_kind': PTS_KINDS[(n + 1) % 3],
                      'args': args_perm, 'what': 'grid list in another order'})
    calls.append({'fn': 0, 'passing': rng.choice(['pos', 'kw']), 'pts': B, 'pts_kind': PTS_KINDS[(n + 2) % 3], 'args': args_B,
                  'what': 'another pts list of the same length'})
    calls.append({'fn': 0, 'passing': 'kw' if calls[0]['passing'] == 'pos' else 'pos', 'pts': A, 'pts_kind': pk,
                  'args': args_again,
                  'what': 'first pts list again' + ('' if perm is not None else ', other arguments')})
    if c.get('coefs2'):
        calls.insert(1, {'fn': 1, 'passing': 'kw', 'pts': A, 'pts_kind': pk, 'args': ARGS[4], 'what': 'second wrapped function sharing the x list'})
        calls.insert(4, {'fn': 1, 'passing': 'pos', 'pts': A if perm is None else [A[i] for i in perm], 'pts_kind': pk, 'args': ARGS[4],
                         'what': 'second wrapped function, grid list in another order'})
        calls.append({'fn': 1, 'passing': 'pos', 'pts': A, 'pts_kind': pk, 'args': ARGS[4], 'what': 'second wrapped function again'})
    calls.append({'fn': 0, 'passing': calls[0]['passing'], 'pts': A, 'pts_kind': pk, 'args': ARGS[0], 'what': 'first call repeated at the end'})
    c['calls'] = calls

def legacy_calls(c):
    p = c['pts']
    return [{'fn': 0, 'passing': c.get('pts_passing', 'pos'), 'pts': p, 'args': [1.5, 2.5], 'what': 'single call',
             'pts_kind': 'scalar' if (len(p) == 1 and c.get('scalar_pts')) else 'list'}]

def describe(c, j):
    calls = c.get('calls') or legacy_calls(c)
    xl = 'extrap_x_l=None (x from the results)' if c['x_from'] == 'attr' else 'extrap_x_l as %s' % c.get('xl_kind', 'list')
    return 'call %d of %d on one wrapped function (%s; %s; %s; k=%d%s)' % (
        j + 1, len(calls), ' -> '.join(cl.get('what', '?') for cl in calls[:j + 1]), xl, c['mode'], c['k'], ', log' if c['log'] else '')

def replay_of(c, j, extra):
    cc = dict(c)
    cc['calls'] = (c.get('calls') or legacy_calls(c))[:j + 1]       # the failing call with its predecessors
    d = {'case': cc, 'failing_call': j}
    d.update(extra)
    return d

def run(ctx):
    ctx.rule = ('cases = (k, ordering of k distinct grid sizes, polynomial coefficient sets per entry, linear/log mode, '
                'array/Spectrum/scalar result, explicit or attribute-derived x, positional/keyword pts, fail_mag) drawn from one PRNG; '
                'plus forced-fallback cases; every case = ONE wrap and a sequence of calls (positional, keyword, positional again, grid list '
                'in another order, another pts list, other arguments, first call again; extrap_x_l as list/tuple/ndarray/list shared by two '
                'wrapped functions; pts as list/tuple/ndarray/scalar); distinct = distinct (k, ordering, xs, coefs, flags); non-trivial = k >= 2; '
                'argument-type stream (every run): per k = 1..6 x linear/log x array/Spectrum(explicit list, .extrap_x) x float/integer-valued data one '
                'base case on integer spacings certified sensitive to integer-cut weights, handed over in every accepted type of extrap_x_l / '
                '.extrap_x / pts / results / fail_mag / extrap_log (table in c07_types.py), and the closed formulas called directly with every '
                'xs type x ys type; thorough size (3 base cases per combination, full crossing) in the thorough tier and whenever a source obligation is broken; '
                'edge-value stream (every run): per k = 2..6 x linear/log x array/Spectrum one polynomial base case under fail_mag in {0 in 12 spellings, 5e-324, '
                '1e-300, 1e-12, decade distance of an entry x (1 -+ 2^-10), 1, True, 1000, 1e300, inf} and (linear mode) one exact integer data set with ties at '
                '10^F, zero / equal / negative entries under fail_mag in {1 in 9 spellings, 2, 3.0, 0, 5e-324, inf}; own PRNG derived from the run seed')
    ctx.assumptions += ['edge values of fail_mag: an exactly-zero extrapolation in a Spectrum-valued result (numpy.ma masks log10(0)), ties at 10^2 / 10^3 in the Coq model '
                        '(decided by the exact Python predicate instead) and downward ties are not compared; an infinite fail_mag is the largest float on the model side',
                        'float64 evaluation of the formulas is compared with exact rational evaluation at tolerance 1e-11 x conditioning scale (sum |w_i y_i|)',
                        'Qexp/Qln are rational approximations with relative error < 1e-25 (log mode only)',
                        'argument types: a variant with a float32 operand (spacings, .extrap_x or results in float32) is compared at 2e-5 x conditioning scale '
                        '(numpy forms the weights / the sum in float32); fixed-width integers narrower than 32 bits, unsigned integers, float16 spacings and '
                        'scalar-valued results with 2..6 grid sizes are rejected or treated differently by the unchanged library and only counted']
    translator_obligations(ctx)
    dispatch_obligation(ctx)
    c07_frame.frame_obligations(ctx, NUMERICS)
    # a source obligation that no longer checks starts a targeted search: the argument-type stream at thorough size
    broken = [o['name'] for o in ctx.obligations if not o['ok'] and o['kind'] == 'translator']
    if broken:
        ctx.notes.append('source obligation(s) broken (%s): argument-type stream run at thorough size as a targeted search' % '; '.join(broken[:3]))
    cases = gen_cases(ctx, edges_full=(not ctx.quick) or bool(broken))
    types_replay = None
    if ctx.replay:
        rp = json.load(open(ctx.replay))
        types_replay = {}
        if rp.get('input') and 'case' in rp['input']:
            c = rp['input']['case']; c['id'] = 0
            cases = [c]
        elif rp.get('input') and ('typed_case' in rp['input'] or 'direct_case' in rp['input']):
            types_replay = rp['input']; cases = []
    nviol = {}
    pending = []
    def violation(kind, what, data, key=None, cap=3):
        # collected and handed to ctx at the end: wrong values first, then modified arguments, exceptions, aliasing, glue
        nviol[kind] = nviol.get(kind, 0) + 1
        if nviol[kind] <= cap:
            pending.append((kind, what, data, key))
    tstream = c07_types.Stream(ctx, violation, full=(not ctx.quick) or bool(broken), replay=types_replay)
    tstream.run_impl()
    res = lib.run_impl('c07_impl.py', cases, timeout=900)
    byid = {r['id']: r for r in res}
    batches = {}          # (log, fail_mag, node list) -> items (data set, result); the Lagrange weights are computed once per batch in Coq
    value_failed = set()      # cases that already have a violation with a failing call: the correspondence adds failed obligations only
    for c in cases:
        r = byid[c['id']]
        calls = c.get('calls') or legacy_calls(c)
        ctx.count('k=%d' % c['k']); ctx.count('mode=' + c['mode']); ctx.count('log' if c['log'] else 'linear')
        ctx.count('extrap_x_l=' + ('None' if c['x_from'] == 'attr' else c.get('xl_kind', 'list')))
        if c.get('edge'):
            ctx.count('edges: cases (%s data)' % c['edge']); ctx.count('edges: fail_mag ' + ('just below / just above the decade distance of an entry' if 'just' in c.get('special', '') else 'as ' + c07_edges.fm_text(c['fm_kind'], c['fail_mag'])))
        if 'error' in r:
            ctx.count('impl_error')
            violation('raise', 'make_extrap_func raised %s when wrapping (k=%d grid sizes)' % (r['error'], c['k']), {'case': c, 'impl': r})
            continue
        if r.get('name') != 'model':
            violation('glue', 'extrapolated function lost __name__', {'case': c, 'impl': r})
        gx = dict(zip(c.get('grid_pts') or c['pts'], c.get('grid_x') or c['xs']))
        seen = {}             # (fn, pts, kind-independent, args) -> (call index, ys, res, mask)
        bad_case = False
        frozen_seen = False
        for j, (cl, o) in enumerate(zip(calls, r['calls'])):
            ctx.count('calls'); ctx.count('call: ' + cl.get('what', '?').split(',')[0]); ctx.count('pts as ' + cl.get('pts_kind', 'list'))
            where = describe(c, j)
            # --- argument-freezing predicate (evaluated after every call, also one that raised)
            if not o.get('xl_frozen', True):
                if not frozen_seen:
                    violation('frozen', 'the caller\'s extrap_x_l was modified by %s: %r' % (where, o.get('xl_now')), replay_of(c, j, {'impl': o}))
                frozen_seen = True        # reported once; the following calls show what it does to the values
            if not o.get('pts_frozen', True):
                if not frozen_seen:
                    violation('frozen', 'a pts list of the caller was modified by %s: %r' % (where, o.get('pts_changed')), replay_of(c, j, {'impl': o}))
                frozen_seen = True
            if 'error' in o:
                ctx.count('impl_error')
                violation('raise', 'wrapped function raised %s in %s' % (o['error'], where), replay_of(c, j, {'impl': o}),
                          key='extrap-raises-k%d' % c['k'] if 'NameError' in o['error'] else None)
                bad_case = True
                break
            ys = o['ys']; out = o['res']
            factor = (cl['args'][0] + cl['args'][1]) / 4.0
            x_true = [gx[p_] for p_ in cl['pts']]
            x_used = list(c['xs']) if c['x_from'] == 'explicit' else x_true
            coefs = c['coefs2'] if cl.get('fn', 0) == 1 else c['coefs']
            if j == 0:
                ctx.case(signature=(c['k'], c.get('perm'), c['xs'], c['coefs'], c['log'], c['mode'], c['fail_mag'], c.get('special')) if c['k'] >= 2 else None,
                         sample={'k': c['k'], 'pts': c['pts'], 'xs': c['xs'], 'ys': ys, 'log': c['log'], 'mode': c['mode'], 'impl': out, 'calls': len(calls)})
            mask = o.get('mask') or [False] * len(out)
            # --- the model is evaluated once per grid size of the list, in list order
            if o.get('evaluated') != [int(p_) for p_ in cl['pts']]:
                violation('glue', 'the model was evaluated at %r for pts=%r in %s (result %r)' % (o.get('evaluated'), cl['pts'], where, out),
                          replay_of(c, j, {'impl': o}))
                bad_case = True
                if ys is None:
                    value_failed.add(c['id'])
                    break
            # --- glue: labels, type
            if c['mode'] == 'spectrum':
                if o.get('pop_ids') != c.get('pop_ids') or not o.get('is_spectrum') or o.get('shape') != c['shape']:
                    violation('glue', 'Spectrum-valued extrapolation lost labels/type/shape: got %r %r in %s' % (o.get('pop_ids'), o.get('shape'), where),
                              replay_of(c, j, {'impl': o}))
                    bad_case = True
            # --- results own their memory.  One grid size is the documented identity: in linear mode the model's own object comes back; in
            #     log mode it is numpy.exp(numpy.log(r)), and numpy.ma (2.x) hands an all-False mask through its unary ufuncs unshared
            #     (data is fresh).  Nothing is shared for 2..6 grid sizes.
            alias = [a for a in o.get('alias', []) if not (c['k'] == 1 and 'of this call' in a and (not c['log'] or a.startswith('result.mask ')))]
            if alias:
                violation('alias', 'result of %s: %s' % (where, '; '.join(alias[:3])), replay_of(c, j, {'impl': o}))
                bad_case = True
            # --- edge stream: mask of a Spectrum result (corners only), exact expected values (integer data on integer spacings)
            if c.get('want_mask') is not None and mask != c['want_mask']:
                violation('glue', 'mask of the result is %r, expected %r in %s' % (mask, c['want_mask'], where), replay_of(c, j, {'impl': o}))
                bad_case = True
            if c.get('expect') is not None and not bad_case:
                for e, want in enumerate(c['expect']):
                    if mask[e] or want is None:
                        ctx.count('edges: exact entries not compared (masked / zero extrapolation in a Spectrum)'); continue
                    ctx.count('edges: exact predicate evaluations')
                    if not abs(out[e] - want) <= 1e-12 * max(1.0, abs(want)):
                        ws = lag_weights(x_used)
                        exv = float(sum(w * Fraction(y) for w, y in zip(ws, ys[e])))
                        bestv = ys[e][min(range(c['k']), key=lambda i: x_used[i])]
                        violation('exact', 'fallback decision wrong at an edge value of fail_mag: fail_mag=%s, extrapolated value %r, finest-grid value %r '
                                  '(%s): got %r, the property gives %r, in %s' % (c07_edges.fm_text(c['fm_kind'], c['fail_mag']), exv, bestv,
                                                                                c['roles'][e], out[e], want, where),
                                  replay_of(c, j, {'entry': e, 'impl': out[e], 'want': want}))
                        bad_case = True
                        break
            # --- property predicate on the implementation (polynomial data paired with its own spacings): result = value at 0
            if not c.get('ys_override') and x_used == x_true:
                for e, cs in enumerate(coefs):
                    if mask[e]:
                        continue
                    want = (math.exp(cs[0]) if c['log'] else cs[0]) * factor
                    ws = lag_weights(x_used)
                    sc = Fraction(0)
                    for i in range(c['k']):
                        yy = Fraction(ys[e][i]) if not c['log'] else Fraction(math.log(ys[e][i]))
                        sc += abs(ws[i] * yy)
                    scale = float(sc) + abs(want)
                    if c['log']:
                        scale = (1 + float(sc)) * abs(want)
                    # skip entries where the fallback legitimately applies
                    best = ys[e][min(range(c['k']), key=lambda i: x_used[i])]
                    fb = False
                    if c['k'] > 1 and want != 0 and best != 0 and want / best > 0:
                        dist = abs(math.log10(want / best))
                        fb = dist > c['fail_mag'] * (1 - 1e-6)
                        # the fallback half of the property: an extrapolation ROBUSTLY more than fail_mag decades from the finest-grid
                        # value (beyond the float error of the extrapolated value, 1e-9 x conditioning, in decades) must come back as the
                        # finest-grid value (a copy of it: exp(log(.)) in log mode)
                        slack = 1e-9 * scale / abs(want)
                        if dist > c['fail_mag'] * (1 + 1e-6) + slack:
                            ctx.count('fallback predicate evaluations')
                            if not abs(out[e] - best) <= 1e-12 * abs(best):
                                violation('exact', 'an entry whose extrapolation lands more than fail_mag decades from the finest-grid value does not fall '
                                          'back to it: fail_mag=%s, value at zero spacing %r is %.6g decades from the finest-grid value %r, got %r in %s'
                                          % (c07_edges.fm_text(c['fm_kind'], c['fail_mag']) if c.get('fm_kind') else repr(c['fail_mag']),
                                             want, dist, best, out[e], where),
                                          replay_of(c, j, {'entry': e, 'impl': out[e], 'want': best}))
                                bad_case = True
                                break
                            continue
                        if fb or dist > c['fail_mag'] * (1 - 1e-6) - slack:
                            fb = True
                    if fb:
                        ctx.count('fallback_applies'); continue
                    ctx.count('predicate evaluations')
                    if not abs(out[e] - want) <= 1e-9 * scale:
                        violation('exact', 'extrapolation of a degree<k polynomial is not the value at zero spacing: got %r want %r in %s' % (out[e], want, where),
                                  replay_of(c, j, {'entry': e, 'impl': out[e], 'want': want}))
                        bad_case = True
                        break
            if o.get('model_arrays_changed'):
                violation('alias', 'an array returned by the model was modified in place by %s: pts=%r returned %r, now %r'
                          % ((where,) + tuple(o['model_arrays_changed'][0])), replay_of(c, j, {'impl': o}))
                bad_case = True
            # --- identical calls give bit-identical results
            skey = (cl.get('fn', 0), tuple(cl['pts']), tuple(cl['args']))
            if skey in seen and not bad_case:
                j0, ys0, out0, mask0 = seen[skey]
                if ys0 == ys and (mask0 != mask or any(a != b_ and not (a != a and b_ != b_) for a, b_, m in zip(out0, out, mask) if not m)):
                    violation('repeat', 'the same wrapped function returned different values for the same arguments: %s gives %r, call %d gave %r'
                              % (where, out, j0 + 1, out0), replay_of(c, j, {'impl': o, 'earlier': out0}))
                    bad_case = True
            else:
                seen[skey] = (j, ys, out, mask)
            # --- correspondence items (per unmasked entry), batched by node list; the boundary of the fallback decision is decided by
            #     the model (Qln exact to 1e-25)
            fm = q(Fraction(repr(c['fail_mag'])) if isinstance(c['fail_mag'], float) else c['fail_mag'])
            bkey = (c['log'], fm, tuple(x_used))
            bt = batches.setdefault(bkey, {'items': [], 'index': {}, 'meta': []})
            for e in range(len(out)):
                if mask[e]:
                    continue
                if e in (c.get('no_coq') or ()):
                    ctx.count('edges: ties at 10^2, 10^3 decided by the exact predicate only'); continue
                ikey = (tuple(ys[e]), out[e])          # identical (data, result) pairs are evaluated once
                n = bt['index'].get(ikey)
                if n is None:
                    n = len(bt['items'])
                    bt['index'][ikey] = n
                    bt['items'].append('(%s, %s)' % (ql(ys[e]), q(out[e])))
                    bt['meta'].append([])
                bt['meta'][n].append((c, j, e))
            if bad_case:
                value_failed.add(c['id'])
                break             # later calls of a broken wrapped function add nothing to the replay
    header = 'From Coq Require Import ZArith QArith List.\nFrom Dadi Require Import Base.Num Base.NumQ Model.Extrap Model.ExtrapCheck.\nImport ListNotations.\nOpen Scope Q_scope.'
    exprs = []
    blist = list(batches.items())
    for n, ((logm, fm, xs), bt) in enumerate(blist):
        exprs.append((n, '{| xb_log := %s; xb_fm := %s; xb_xs := %s; xb_items := [%s] |}' % (b(logm), fm, ql(list(xs)), '; '.join(bt['items']))))
    nitems = sum(len(bt['items']) for _, bt in blist)
    ctx.count('correspondence batches (one node list each)', len(exprs)); ctx.count('distinct correspondence evaluations', nitems)
    # a few balanced shards (the expensive batches - log mode, many grid sizes - come last in generation order)
    # exact rational arithmetic on 160-bit logarithms and 300-bit weights costs ~0.05 s (linear) .. 0.3 s (log, 6 grid sizes) per item
    nsh = max(1, min(6, -(-nitems // ctx.pick(60, 150))))
    cost = {n: len(bt['items']) * (len(bk[2]) + 1) ** 2 * (3 if bk[0] else 1) for n, (bk, bt) in enumerate(blist)}
    bins = [[0, []] for _ in range(nsh)]
    for x in sorted(exprs, key=lambda x: -cost[x[0]]):
        bn = min(bins, key=lambda t: t[0])
        bn[0] += cost[x[0]]; bn[1].append(x)
    size = max(1, max(len(bn[1]) for bn in bins))
    results = {}
    # coq_cases cuts its list into consecutive chunks of one size: hand it the balanced bins one by one (they run concurrently below)
    from concurrent.futures import ThreadPoolExecutor
    with ThreadPoolExecutor(max_workers=nsh + len(tstream.jobs)) as ex:
        futs = [ex.submit(ctx.coq_cases, 'corr%d' % i, header, bn[1], '(xcheck_batch %s)' % q(TOL), 'tol 1e-11 x conditioning scale',
                          shard=size, record_err=False, timeout=ctx.pick(900, 3600)) for i, bn in enumerate(bins) if bn[1]]
        tfuts = {tag: ex.submit(ctx.coq_cases, tag, header, exprs, fn, toltext, shard=max(1, -(-len(exprs) // 4)), record_err=False, timeout=ctx.pick(900, 3600))
                 for tag, exprs, fn, toltext in tstream.jobs if exprs}
        for f in futs:
            results.update(f.result())
        tstream.finish({tag: f.result() for tag, f in tfuts.items()})
    reported = set()
    for n, (bkey, bt) in enumerate(blist):
        rr = results.get(n)
        # (true, worst log2 relative error)  |  (false, index of the first item that disagrees)  |  None: evaluation failed
        if rr is not None and rr[0]:
            ctx.err('corr', rr[1], 'tol 1e-11 x conditioning scale')
        for i, metas in enumerate(bt['meta']):
            if rr is None:
                ok, detail = False, 'batch was not evaluated'
            elif rr[0] or i < rr[1]:
                ok, detail = True, ''
            elif i == rr[1]:
                ok, detail = False, 'model != impl'
            else:
                ok, detail = False, 'not evaluated: an earlier item of the same batch (same node list) disagrees'
            for (c, j, e) in metas:
                ctx.obligation('corr case %d call %d entry %d' % (c['id'], j, e), ok, 'correspondence', detail)
            if rr is not None and not rr[0] and i == rr[1]:
                c, j, e = min(metas, key=lambda m: (m[0]['id'], m[1], m[2]))
                if c['id'] not in reported and c['id'] not in value_failed:
                    reported.add(c['id'])
                    o = byid[c['id']]['calls'][j]
                    violation('corr', 'make_extrap_func disagrees with the Lagrange model (log=%s, fail_mag=%s, entry %d: got %r) in %s'
                              % (c['log'], c['fail_mag'], e, o['res'][e], describe(c, j)),
                              replay_of(c, j, {'entry': e, 'impl': o, 'xs_of_the_model': list(bkey[2])}), cap=3)
    order = ['exact', 'corr', 'repeat', 'frozen', 'raise', 'alias', 'glue']
    for kind, what, data, key in sorted(pending, key=lambda t: order.index(t[0])):
        ctx.violation(what, data=data, key=key)
    for kind, nn in nviol.items():
        ctx.count('violations: ' + kind, nn)
