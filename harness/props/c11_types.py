"""C11 -- argument types and hidden content (stream 'containers').

The property says that only the entries masked in neither model nor data count.  Two consequences that the
Spectrum-only generator never exercised (seed C11f: ll / ll_multinom summed dot(raw values, unmasked indicator)):

 * the result may not depend on the CONTAINER in which the same numbers and masks are handed over -- dadi.Spectrum,
   plain numpy.ma.MaskedArray (float64 / float32 / integer counts, C / Fortran order, strided view, hard mask,
   view of a Spectrum), and, where the library accepts them, objects without a mask (numpy.ma.nomask, ndarray, list),
   which mean "nothing masked";
 * the result may not depend on WHAT IS STORED UNDER A MASKED ENTRY of model or data (0, negative, nan, +-inf, huge,
   a mixture): Coq side  C11_hidden_content_irrelevant  (Props/C11.v) for the model; here for the real code, where
   the stored values can also be non-finite, which the theorem over R cannot say.

Every run (quick tier included) takes a systematic list of base cases (dimension 1-3 x integer / non-integer data,
unfolded; folded data with unfolded and with folded model) and hands each to every entry point C11 covers in every
container pair and with every hidden filler of the lists below.  For each variant:
   - the outputs are compared with the canonical call (float64 C-ordered dadi.Spectrum; masks all False on a side whose
     container carries no mask), which itself goes through the property predicates and, for the base, the Coq model;
   - the property predicates of c11.predicates are evaluated directly on the variant's outputs.
What the unchanged library accepts was established once on the unchanged tree (table ACCEPTS below: per (model family,
data family) the entry points that return a value); only accepted combinations are compared; an accepted combination
that now raises is a violation.  Everything else is counted in the evidence only.
"""
import math

F64 = 1e-10          # variant vs canonical call, same float64 arithmetic in another memory layout / container
F32 = 2e-5           # a float32 operand: the library then computes (partly) in float32

# ---- containers ---------------------------------------------------------------------------------------------------
# family: 'S' dadi.Spectrum, 'M' numpy.ma.MaskedArray with a mask, 'N' no mask at all (nomask / ndarray), 'L' list
MODEL_CONTAINERS = ['spectrum', 'spectrum_F', 'spectrum_view', 'spectrum_f32',
                    'ma', 'ma_F', 'ma_view', 'ma_f32', 'ma_hard', 'ma_of_spectrum',
                    'ma_nomask', 'ndarray', 'ndarray_F', 'ndarray_view', 'list']
# (an integer dadi.Spectrum does not exist: the constructor refuses dtype=int, 'Cannot convert fill_value nan')
DATA_CONTAINERS = MODEL_CONTAINERS + ['ma_int', 'ma_F_int', 'ma_view_int', 'ma_int32', 'ndarray_int']

def family(kind):
    if kind.startswith('spectrum'):
        return 'S'
    if kind == 'ma_nomask' or kind.startswith('ndarray'):
        return 'N'
    if kind.startswith('ma'):
        return 'M'
    return 'L'

def is_int(kind):
    return kind.endswith('_int') or kind.endswith('_int32')

def is_f32(kind):
    return kind.endswith('_f32')

SCALARS = ('ll', 'minus_ll', 'llm', 'minus_llm', 'scal')
ARRAYS = ('llpb', 'llmpb', 'oss', 'lin', 'ans', 'lin_nocut', 'ans_nocut')
ALL = SCALARS + ARRAYS
_NOLL = ('scal', 'oss', 'lin', 'ans', 'lin_nocut', 'ans_nocut')     # everything that does not go through ll_per_bin
# established on the unchanged tree (numpy 2.x): ll_per_bin needs model.log() / model.folded (a Spectrum) and
# data.data / data.mask (any masked array); the scaling and the residuals are plain (masked-)array arithmetic; a
# list is accepted only where nothing but numpy.ma.getmask / asarray touches it.
ACCEPTS = {
    ('S', 'S'): ALL, ('S', 'M'): ALL,
    ('S', 'N'): _NOLL,                       # data without a .mask attribute: ll_per_bin raises AttributeError
    ('M', 'S'): _NOLL, ('M', 'M'): _NOLL, ('M', 'N'): _NOLL,
    ('N', 'S'): _NOLL, ('N', 'M'): _NOLL, ('N', 'N'): _NOLL,
    ('S', 'L'): ('scal', 'oss', 'lin_nocut'),
    ('L', 'S'): ('scal', 'lin_nocut'),
}
# numpy.ma.nomask data is a masked array (has .data and .mask): ll accepts it
ACCEPTS_KIND = {('S', 'ma_nomask'): ALL}

def accepted(mc, dc):
    fm, fd = family(mc), family(dc)
    if (fm, dc) in ACCEPTS_KIND:
        return ACCEPTS_KIND[(fm, dc)]
    return ACCEPTS.get((fm, fd), ())

# ---- hidden content ------------------------------------------------------------------------------------------------
FLOAT_FILL = {'zero': [0.0], 'neg': [-1.5, -1.0, -1e-3], 'nan': ['nan'], 'inf': ['inf'], 'ninf': ['-inf'],
              'huge': [1e300, -1e300, 1.7976931348623157e308], 'tiny': [5e-324, -1e-310],
              'mix': [0.0, 'nan', -2.0, 'inf', 1e300, '-inf', 3.0, -0.0]}
INT_FILL = {'zero': [0], 'neg': [-1, -2, -7], 'huge': [2 ** 40, -2 ** 40], 'mix': [0, -1, 2 ** 31 - 1, 5, -3]}
INT32_FILL = {'zero': [0], 'neg': [-1, -2], 'mix': [0, -1, 2 ** 31 - 1, -2 ** 31]}

def hidden(fill_table, name, mask, rot):
    vals = fill_table[name]
    out, k = [], rot
    for mk in mask:
        if mk:
            out.append(vals[k % len(vals)]); k += 1
        else:
            out.append(0)
    return out

def variants_for(c, rng, full=True):
    """systematic variant list of one base case.  full: all containers (unfolded base); otherwise (a folded spectrum is a
    Spectrum notion) Spectrum containers on both sides + masked-array data when the model is not to be auto-folded."""
    n = len(c['m_vals'])
    d_integral = all(float(v).is_integer() and abs(v) < 2 ** 31 for v in c['d_vals'])
    out = []
    def add(mc, dc, hm=None, hd=None, tag=''):
        fm, fd = family(mc), family(dc)
        v = {'vid': len(out), 'mc': mc, 'dc': dc, 'tag': tag}
        if fm in ('N', 'L'):
            v['drop_m'] = True; hm = None
        if fd in ('N', 'L'):
            v['drop_d'] = True; hd = None
        if hm is not None:
            v['hm'] = hidden(FLOAT_FILL, hm, c['m_mask'], rng.randrange(8)); v['hm_name'] = hm
        if hd is not None:
            tab = INT32_FILL if dc.endswith('_int32') else INT_FILL if is_int(dc) else FLOAT_FILL
            if hd not in tab:
                return
            v['hd'] = hidden(tab, hd, c['d_mask'], rng.randrange(8)); v['hd_name'] = hd
        out.append(v)
    if full:
        dcs = [k for k in DATA_CONTAINERS if d_integral or not is_int(k)]
        mcs = list(MODEL_CONTAINERS)
    else:
        dcs = ['spectrum', 'spectrum_F', 'spectrum_view', 'spectrum_f32']
        mcs = ['spectrum', 'spectrum_F', 'spectrum_view', 'spectrum_f32']
    # (A) containers: each data container against the canonical model (raw 0 under the data mask: the usual content of
    #     the corner classes) and with the values the generator put there; each model container against canonical data
    for dc in dcs:
        add('spectrum', dc, None, 'zero', 'container')
        add('spectrum', dc, None, None, 'container')
    for mc in mcs:
        add(mc, 'spectrum', None, None, 'container')
        add(mc, 'spectrum', 'zero', None, 'container')
    for k in mcs:                                             # same container on both sides
        if k != 'spectrum' and k in dcs:
            add(k, k, None, 'zero', 'container-pair')
    if full:
        for mc, dc in (('ma', 'ma_int'), ('ndarray', 'ma'), ('ma', 'ndarray'), ('ma_F', 'ma_view'), ('spectrum_F', 'ma_int'),
                       ('spectrum_view', 'ma_F'), ('spectrum_f32', 'ma'), ('spectrum', 'ma_f32')):
            if dc in dcs:
                add(mc, dc, 'zero', 'zero', 'container-pair')
    # (B) hidden content: every filler under the model mask, under the data mask, under both, in the canonical
    #     containers and with plain masked-array data; in the other container pairs every filler under both masks and
    #     zero / nan / mix under each
    pairs = [('spectrum', 'spectrum'), ('spectrum_view', 'spectrum_F')]
    if full:
        pairs += [('spectrum', 'ma'), ('ma', 'spectrum'), ('ma', 'ma'), ('spectrum', 'ma_of_spectrum'), ('spectrum', 'ma_hard')]
        if d_integral:
            pairs += [('spectrum', 'ma_int'), ('spectrum', 'ma_int32'), ('ma', 'ma_int')]
    for k, (mc, dc) in enumerate(pairs):
        for f in FLOAT_FILL:
            if k == 0 or (mc, dc) == ('spectrum', 'ma') or f in ('zero', 'nan', 'mix'):
                add(mc, dc, f, None, 'hidden-model')
                add(mc, dc, None, f, 'hidden-data')
            add(mc, dc, f, f, 'hidden-both')
    return out

# ---- comparison ------------------------------------------------------------------------------------------------------
def _isnum(x):
    return isinstance(x, (int, float)) and not isinstance(x, bool)

def _entry_scales(ref, s):
    """per entry |m| + |d ln m| + |lgamma(d+1)| at model scaling s (auto-folded model when there is one)"""
    mu = ref.get('m_used')
    mv = mu[0] if (ref['d_folded'] and not ref['m_folded'] and isinstance(mu, list)) else ref['m_vals']
    out = []
    for m, d in zip(mv, ref['d_vals']):
        m = abs(s * m) if _isnum(m) else 0.0
        t = m + abs(d) + 1.0
        if m > 0:
            t += abs(d * math.log(m))
        if d > -1:
            t += abs(math.lgamma(d + 1.0))
        out.append(t)
    return out

def compare(ref, vr, keys, tol):
    """list of messages: outputs `keys` of variant record vr vs reference record ref"""
    bad = []
    s0 = ref['scal'] if _isnum(ref.get('scal')) else 1.0
    sc1 = _entry_scales(ref, 1.0); scs = _entry_scales(ref, s0)
    for k in keys:
        want, got = ref.get(k), vr.get(k)
        if isinstance(want, dict) or want is None:
            continue                                        # the canonical call itself failed: nothing to compare with
        if isinstance(got, dict):
            bad.append('%s raised %s (the canonical Spectrum call returns %s)' % (k, got.get('error'), _short(want)))
            continue
        if k in SCALARS:
            if not _isnum(want):
                if got != want:
                    bad.append('%s = %r, canonical Spectrum call gives %r' % (k, got, want))
                continue
            scale = abs(want) * 4 if k == 'scal' else sum(scs if 'llm' in k else sc1)
            if not _isnum(got) or abs(got - want) > tol * scale:
                bad.append('%s = %r, canonical Spectrum call gives %r' % (k, got, want))
            continue
        # arrays: [values, mask(, folded)]
        if not isinstance(got, list) or len(got[0]) != len(want[0]):
            bad.append('%s has another shape than in the canonical Spectrum call' % k); continue
        if got[1] != want[1]:
            i = [a != b for a, b in zip(got[1], want[1])].index(True)
            bad.append('%s: entry %d masked=%s, canonical Spectrum call masked=%s' % (k, i, got[1][i], want[1][i])); continue
        if k == 'oss' and len(want) > 2 and len(got) > 2 and got[2] != want[2]:
            bad.append('oss folded flag %r, canonical %r' % (got[2], want[2])); continue
        for i, (a, b2) in enumerate(zip(got[0], want[0])):
            if want[1][i]:
                continue
            if not _isnum(b2) or not _isnum(a):
                if a != b2:
                    bad.append('%s[%d] = %r, canonical Spectrum call gives %r' % (k, i, a, b2)); break
                continue
            scale = (scs[i] if k == 'llmpb' else sc1[i]) if k in ('llpb', 'llmpb') else 4 * (abs(b2) + 1.0)
            if abs(a - b2) > tol * scale:
                bad.append('%s[%d] = %r, canonical Spectrum call gives %r' % (k, i, a, b2)); break
    return bad

def _short(x):
    s = repr(x)
    return s if len(s) < 60 else s[:57] + '...'

def merged_for_predicates(ref, vr, keys):
    """a record on which c11.predicates can be evaluated: the variant's outputs for the accepted entry points, the
    canonical ones for the rest (so that they say nothing)"""
    r = dict(ref)
    for k in keys:
        r[k] = vr.get(k)
    if 'll' in keys:
        r['scan'] = vr.get('scan')
    if 'llm' in keys and 'scal' in keys:
        r['rescaled'] = vr.get('rescaled')
    r['inputs_unchanged'] = vr.get('inputs_unchanged')
    r.pop('perturb', None)
    return r
