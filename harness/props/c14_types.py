"""C14 — argument / attribute TYPES: the same logical spectrum and the same calls, spelled with the other Python / numpy
types the API accepts.

Used by c14.py.  The base generator (c14.gen_case) builds every spectrum from a float64 array, a bool array, a Python bool,
a list of labels, a list of comments, an int precision and a str file name.  The library stores some arguments AS GIVEN
(`subarr.folded = data_folded`, `subarr.pop_ids = pop_ids`) and only tests others for truth or iterates over them, so a
caller may - and does - hand in a numpy.bool_ (element of a flag array, result of numpy.all / a comparison), an int, a
0-d array; int / uint8 / float masks, nested lists, numpy.ma.nomask, None; float32 / integer / object arrays, nested
lists / tuples, masked arrays; labels and comments in tuples / numpy str arrays / generators; numpy integers or floats as
precision; numpy.str_ / pathlib.Path / bytes / open file objects as file names.

For EVERY case of the base generator, on every run, `gen_types` lists

  * one-factor variants: every kind of every dimension below, all other dimensions canonical;
  * two all-factor variants (every dimension draws a kind at random);
  * a DERIVED content (by case id: 8-bit counts / 24-bit signed integers / float16-exact / float32-exact fractions, with
    the mask, flag, labels of the case) written from float64 (canonical) and from every dtype / container that holds it
    exactly (uint8 .. int64, float16, float32, nested int list);

and harness/impl/c14_impl.py (`do_types`) pushes each through Spectrum.to_file / from_file under the case's own and the
opposite configuration (other precision class, other format = foldmaskinfo, other transport = .gz, other mask_corners),
Numerics.array_to_file / array_from_file (the masked object, and the bare array in the dtype it was given in), the
copyreg pickler / unpickler, pickle protocols 0, 2, highest and copy.deepcopy.  Required of every ACCEPTED spelling:

  (a) the constructed object is the canonical one (same entries as float64, bool mask, bool(flag), the label items);
  (b) every file written is, byte for byte, the Coq-certified reference text of the logical content (Model.to_file /
      Model.array_to_file evaluated in Coq), and - for flag / label-container variants - the model's to_file of the
      OBJECT with the flag type and container the implementation reports (item IWriteF: [to_file_obj], [canon]) is that
      text, the reduce tuple and the unpickled object are the model's (item IPickleF);
  (c) every round trip returns the canonical-form result (what the all-canonical spelling returns, itself checked
      against the generated content): shape, values to the written precision, mask, folding status, labels, comments;
  (d) writing / pickling leaves the object unchanged.

What is accepted was established on the unchanged tree (C14_TYPES_DISCOVER=<file> ./check C14 dumps the acceptance
matrix of a run) and is the reviewed table REJECTED below: a spelling listed there is expected to raise at that entry point
(counted, not a violation); if it stops raising it is compared like any other.  A spelling NOT listed there that raises is
a violation (the round trip fails for a type the API accepted).
"""
import json, os, random
from harness.props import c14_layouts as LY

# ----------------------------------------------------------------------------------------------
# dimensions and kinds (canonical kind first; it is what the base generator uses)

FLAG_KINDS = ['bool', 'np_bool', 'np_all', 'np_compare', 'int', 'np_int', 'np_uint8', 'float', 'arr0_bool', 'arr0_int']
MASK_KINDS = ['bool_array', 'int_array', 'uint8_array', 'float_array', 'list', 'int_list', 'tuple']
MASK_KINDS_UNMASKED = ['nomask', 'none', 'false', 'np_false']          # only for a spectrum without a masked entry
DATA_KINDS = ['float64', 'list', 'tuple', 'masked_array', 'longdouble', 'big_endian', 'object']
SEQ_KINDS_LABELS = ['list', 'tuple', 'np_str_array', 'np_object_array', 'list_of_np_str']
SEQ_KINDS_COMMENTS = ['list', 'tuple', 'np_str_array', 'np_object_array', 'list_of_np_str', 'generator']
PREC_KINDS = ['int', 'np_int64', 'np_int32', 'np_uint8', 'float', 'np_float64', 'arr0_int']
TRUTH_KINDS = ['bool', 'np_bool', 'int', 'arr0_bool']                  # foldmaskinfo / mask_corners / return_comments
FNAME_KINDS = ['str', 'np_str', 'pathlib', 'bytes', 'fileobj']

# derived contents: class -> dtypes / containers that hold it exactly
DERIVED = {'counts': ['uint8', 'uint16', 'int16', 'int32', 'int64', 'float16', 'float32', 'int_list', 'list'],
           'ints': ['int32', 'int64', 'float32', 'int_list', 'list'],
           'f16': ['float16', 'float32', 'longdouble', 'list'],
           'f32': ['float32', 'longdouble', 'list']}
DERIVED_BY_ID = ['counts', 'f32', 'ints', 'f16']

# entry points a dimension reaches
ENTRIES = {'flag': ['file', 'array', 'pickle'], 'mask': ['file', 'array', 'pickle'], 'data': ['file', 'array', 'pickle'],
           'pop_ids': ['file', 'array', 'pickle'], 'comments': ['file', 'array'], 'precision': ['file', 'array'],
           'fname': ['file', 'array'], 'fmi': ['file'], 'mc': ['file'], 'rc': ['file', 'array']}

# reviewed on the unchanged tree: (entry point, dimension, kind) that RAISES there, with the exception type
REJECTED = {('file', 'fname', 'pathlib'): 'AttributeError',      # fname.endswith('.gz') on a PosixPath
            ('file', 'fname', 'bytes'): 'TypeError',             # bytes.endswith('.gz')
            ('file', 'fname', 'fileobj'): 'AttributeError'}      # Spectrum.to_file / from_file take names only

CANON = {'flag': 'bool', 'mask': 'bool_array', 'data': 'float64', 'pop_ids': 'list', 'comments': 'list', 'precision': 'int',
         'fname': 'str', 'fmi': 'bool', 'mc': 'bool', 'rc': 'bool'}


def derived_content(rng, cls, n, nonfinite):
    out = []
    for _ in range(n):
        r = rng.random()
        if cls == 'counts':
            x = 0.0 if r < 0.15 else float(rng.randint(0, 255))
        elif cls == 'ints':
            x = float(rng.choice([0, 1, -1, 2 ** 24 - 1, -(2 ** 24) + 1])) if r < 0.1 else float(rng.randint(-(2 ** 24) + 1, 2 ** 24 - 1))
        else:
            if nonfinite and r < 0.2:
                x = rng.choice([float('inf'), float('-inf'), float('nan')])
            elif r < 0.28:
                x = rng.choice([0.0, -0.0])
            else:
                if cls == 'f16':
                    x = float(rng.randint(1, 2047)) * 2.0 ** rng.randint(-10, 4)
                else:
                    x = float(rng.randint(1, 2 ** 24 - 1)) * 2.0 ** rng.randint(-100, 100)
                if rng.random() < 0.3:
                    x = -x
        out.append(x)
    return out


def gen_types(H, c, seed, data, mask, folded, pairs=False):
    """the typed variants of one case.  H = the c14 module (tok / mirror_text / array_mirror_text)."""
    rng = random.Random('C14-types-%d-%d' % (seed, c['id']))
    shape = c['shape']; n = len(data); p = c['precision']
    labels = c['pop_ids']
    cfgs = [LY.own_config(c), LY.alt_config(c)]
    unmasked = not any(mask)

    def refs_for(dat, configs):
        files = []
        for cfg in configs:
            tk = [H.tok(x, cfg['precision']) for x in dat]
            files.append(H.mirror_text(c['comments'], shape, tk, mask, folded, labels, cfg['fmi']))
        tk = [H.tok(x, p) for x in dat]
        mtk = ['nan' if m else t for t, m in zip(tk, mask)]
        return {'file': files, 'array': {'masked': H.array_mirror_text(c['comments'], shape, mtk),
                                         'plain': H.array_mirror_text(c['comments'], shape, tk)}}

    V = []
    def add(kinds, entries=None):
        ent = entries
        if ent is None:
            ent = sorted({e for dim in kinds for e in ENTRIES[dim]})
        V.append({'vid': '%d:%s' % (len(V), ','.join('%s=%s' % kv for kv in sorted(kinds.items()))), 'kinds': kinds, 'entries': ent})
    dims = {'flag': FLAG_KINDS, 'mask': MASK_KINDS + (MASK_KINDS_UNMASKED if unmasked else []), 'data': DATA_KINDS,
            'pop_ids': SEQ_KINDS_LABELS if labels is not None else ['list'], 'comments': SEQ_KINDS_COMMENTS, 'precision': PREC_KINDS,
            'fname': FNAME_KINDS, 'fmi': TRUTH_KINDS, 'mc': TRUTH_KINDS, 'rc': TRUTH_KINDS}
    for dim, kinds in dims.items():
        for k in kinds:
            if k != CANON[dim]:
                add({dim: k})
    # all-factor variants: every dimension draws a kind (file names among the accepted spellings only)
    for _ in range(2):
        kinds = {}
        for dim, ks in dims.items():
            k = rng.choice([x for x in ks if not (dim == 'fname' and ('file', dim, x) in REJECTED)])
            if k != CANON[dim]:
                kinds[dim] = k
        if kinds:
            add(kinds, ['file', 'array', 'pickle'])
    if pairs:       # targeted search: every pair of dimensions with random non-canonical kinds
        names = sorted(dims)
        for i, a in enumerate(names):
            for bdim in names[i + 1:]:
                ka = [x for x in dims[a] if x != CANON[a] and ('file', a, x) not in REJECTED]
                kb = [x for x in dims[bdim] if x != CANON[bdim] and ('file', bdim, x) not in REJECTED]
                if ka and kb:
                    add({a: rng.choice(ka), bdim: rng.choice(kb)}, ['file', 'array', 'pickle'])
    groups = [{'content': 'base', 'data': None, 'configs': cfgs, 'refs': refs_for(data, cfgs), 'variants': V}]
    # derived content
    cls = DERIVED_BY_ID[c['id'] % 4]
    nonfinite = any(x != x or x in (float('inf'), float('-inf')) for x in data)
    dd = derived_content(rng, cls, n, nonfinite)
    V = []
    for k in DERIVED[cls]:
        add({'data': k})
    if True:
        # one all-factor variant on the derived content too (dtype x flag type x mask type ...)
        kinds = {'data': rng.choice(DERIVED[cls]), 'flag': rng.choice(FLAG_KINDS[1:]), 'mask': rng.choice(MASK_KINDS[1:]),
                 'precision': rng.choice(PREC_KINDS[1:]), 'comments': rng.choice(SEQ_KINDS_COMMENTS[1:])}
        if labels is not None:
            kinds['pop_ids'] = rng.choice(SEQ_KINDS_LABELS[1:])
        add(kinds, ['file', 'array', 'pickle'])
    groups.append({'content': cls, 'data': dd, 'configs': cfgs[:1], 'refs': refs_for(dd, cfgs[:1]), 'variants': V})
    return {'groups': groups}


# ----------------------------------------------------------------------------------------------
# Coq literals of the objects the implementation reports

def coq_flag(f):
    py = f.get('py')
    bl = lambda v: 'true' if v else 'false'
    if py == 'bool': return '(PyBool %s)' % bl(f['value'])
    if py == 'np_bool': return '(NpBool %s)' % bl(f['value'])
    if py == 'int': return '(PyInt (%d)%%Z)' % f['value']
    if py == 'np_int': return '(NpInt (%d)%%Z)' % f['value']
    if py == 'float': return '(PyFloat %s)' % bl(f['value'])
    if py == 'arr0':
        inner = coq_flag(f['inner'])
        return None if inner is None else '(Arr0 %s)' % inner
    return None


def coq_kind(k):
    return {'list': 'SeqList', 'tuple': 'SeqTuple', 'ndarray': 'SeqNdarray'}.get(k)


def truth_of(f):
    py = f.get('py')
    if py in ('bool', 'np_bool', 'float'): return bool(f['value'])
    if py in ('int', 'np_int'): return f['value'] != 0
    if py == 'arr0': return truth_of(f['inner'])
    return None


# ----------------------------------------------------------------------------------------------
# evaluation of the driver's results for one case

def evaluate(ctx, H, c, r, hooks):
    """hooks: violation(cls, what, c, impl, types=...), pred_failed (set), called(name), corr_bad (list),
    its / spec / ccom (Coq items of the case, or None = predicate only), stat(dim, kind, key)"""
    T = c.get('types'); R = r.get('types')
    if not T:
        return
    cid = c['id']
    if not isinstance(R, list):
        ctx.obligation('types case %d: the driver ran' % cid, False, 'harness', repr(R)[:300])
        return
    o = r['orig']; shape = c['shape']; n = len(c['_data']); p = c['precision']
    comments_kept = [x.strip() for x in c['comments']]
    its = hooks.get('its')
    same = H.same

    def want_file(dat, tk, cfg):
        if cfg['fmi']:
            return {'shape': shape, 'data': dat, 'toks': tk, 'mask': H.corners(o['mask']) if cfg['mc'] else o['mask'],
                    'folded': o['folded'], 'pop_ids': o['pop_ids'], 'comments': comments_kept}
        m0 = [False] * n
        return {'shape': shape, 'data': dat, 'toks': tk, 'mask': H.corners(m0) if cfg['mc'] else m0, 'folded': False, 'pop_ids': None,
                'comments': comments_kept}

    for grp, gres in zip(T['groups'], R):
        dat = c['_data'] if grp['data'] is None else grp['data']
        cfgs = grp['configs']
        tks = [[H.tok(x, cfg['precision']) for x in dat] for cfg in cfgs]
        wants = [want_file(dat, tks[k], cfg) for k, cfg in enumerate(cfgs)]
        tk0 = [H.tok(x, p) for x in dat]
        mtk = ['nan' if m else t for t, m in zip(tk0, o['mask'])]
        awant = {'masked': {'shape': shape, 'data': [float(t) for t in mtk], 'toks': mtk, 'mask': [False] * n, 'folded': None, 'pop_ids': None,
                            'comments': comments_kept},
                 'plain': {'shape': shape, 'data': dat, 'toks': tk0, 'mask': [False] * n, 'folded': None, 'pop_ids': None, 'comments': comments_kept}}
        wantp = {'shape': shape, 'data': dat, 'mask': o['mask'], 'folded': o['folded'], 'pop_ids': o['pop_ids']}
        canon = gres.get('canonical', {})
        cache = {}          # verdicts on the canonical variant's records, reused for records the driver found identical

        def verdict(key, rec, canon_rec, fn):
            if isinstance(rec, dict) and rec.get('same'):
                if key not in cache:
                    cache[key] = fn(canon_rec)
                return cache[key], canon_rec
            return fn(rec), rec

        # derived content: its reference texts are certified by Coq like the base ones
        if its is not None and grp['data'] is not None and 'build_error' not in canon:
            dspec = H.cspec(shape, tks[0], o['mask'], o['folded'], o['pop_ids'], None if o['extrap_x'] is None else repr(o['extrap_x']))
            its.add('Model.to_file = reference text of the derived content (%s)' % grp['content'],
                    '(IWrite %s %s %s %s)' % (hooks['ccom'], H.b(cfgs[0]['fmi']), dspec, H.pcs(grp['refs']['file'][0])))
            for nm, tk in (('masked', mtk), ('plain', tk0)):
                its.add('Model.array_to_file = reference text of the %s array of the derived content (%s)' % (nm, grp['content']),
                        '(IAWrite %s %s %s)' % (hooks['ccom'], H.carr(shape, tk, H.pcsl), H.pcs(grp['refs']['array'][nm])))

        todo = [({'vid': 'canonical', 'kinds': {}, 'entries': ['file', 'array', 'pickle']}, canon)]
        todo += list(zip(grp['variants'], gres.get('variants', [])))
        if len(gres.get('variants', [])) != len(grp['variants']) and 'build_error' not in canon:
            ctx.obligation('types case %d content %s: every variant was run' % (cid, grp['content']), False, 'harness',
                           '%d of %d' % (len(gres.get('variants', [])), len(grp['variants'])))
        for v, vr in todo:
            kinds = v['kinds']; is_canon = v['vid'] == 'canonical'
            L = 'case %d types [%s] content %s' % (cid, ', '.join('%s=%s' % kv for kv in sorted(kinds.items())) or 'canonical', grp['content'])
            tinfo = {'content': grp['content'], 'vid': v['vid'], 'kinds': kinds}
            dimcls = (list(kinds)[0] if len(kinds) == 1 else 'combination') if kinds else 'canonical'
            bad_pred, bad_corr = [], []
            nrej = 0
            def fail(entry, msg):
                bad_pred.append((entry, msg))
            def rejected(entry):
                return [d for d, k in kinds.items() if (entry, d, k) in REJECTED]
            for dim, k in kinds.items():
                hooks['stat'](dim, k, 'variants')
                if o['folded'] and dim == 'flag':
                    hooks['stat'](dim, k, 'on_folded_spectra')
            if vr.get('variant_driver_failed'):
                ctx.obligation('%s: the driver ran' % L, False, 'harness', vr.get('error', ''))
                continue
            if 'build_error' in vr:
                fail('build', 'Spectrum(...) raised %s' % vr['build_error']['error'])
            else:
                # ---- (a) the constructed object
                bt = vr['built']
                if bt.get('same'):
                    bt = dict(canon['built'], flag=bt['flag'], pop_kind=bt['pop_kind'], pop_items_are_str=bt['pop_items_are_str'])
                okb = (bt['shape'] == shape and bt['mask'] == o['mask'] and bt['folded'] == o['folded'] and bt['pop_ids'] == o['pop_ids']
                       and bt['extrap_x'] == o['extrap_x'] and bt['is_spectrum'] and len(bt['data']) == n
                       and all(same(a, bb) for a, bb in zip(bt['data'], dat)) and bt['data_dtype'] == 'float64' and bt['mask_dtype'] == 'bool'
                       and truth_of(bt['flag']) == o['folded'])
                if not okb:
                    fail('build', 'the object built from this spelling is not the canonical one: %r' % ({k: bt[k] for k in bt if k != 'data'},))
                flag_c, kind_c = coq_flag(bt['flag']), coq_kind(bt['pop_kind'])
                obj_variant = ('flag' in kinds or 'pop_ids' in kinds) and grp['data'] is None
                if obj_variant and (flag_c is None or kind_c is None):
                    ctx.obligation('%s: flag object / label container known to the model' % L, False, 'correspondence',
                                   '%r / %r' % (bt['flag'], bt['pop_kind']))
                # ---- (b)+(c) Spectrum.to_file / from_file
                for k, w in enumerate(vr.get('writes', [])):
                    cfg = w['cfg']
                    W = 'to_file(precision=%d, foldmaskinfo=%s, %s)' % (cfg['precision'], cfg['fmi'], 'gz' if cfg['gz'] else 'plain')
                    if cfg != cfgs[k]:
                        ctx.obligation('%s %s: configuration is the requested one' % (L, W), False, 'harness', repr(cfg)); continue
                    if 'error' in w:
                        if rejected('file') and w.get('etype') == REJECTED[('file', rejected('file')[0], kinds[rejected('file')[0]])]:
                            nrej += 1
                            hooks['stat'](rejected('file')[0], kinds[rejected('file')[0]], 'rejected_by_to_file')
                        else:
                            fail('file', 'Spectrum.%s raised %s' % (W, w['error']))
                        continue
                    hooks['called']('to_file(types)')
                    if not w.get('text_is_ref'):
                        ref = grp['refs']['file'][k]; t = w.get('text', '')
                        bad_corr.append('%s: file written differs from the reference text at byte %d: %r, reference %r' % (
                            W, next((i for i, (x, y) in enumerate(zip(t, ref)) if x != y), min(len(t), len(ref))),
                            t.split('\n')[len(c['comments'])][:60] if len(t.split('\n')) > len(c['comments']) else t[:60],
                            ref.split('\n')[len(c['comments'])][:60]))
                    text = grp['refs']['file'][k] if w.get('text_is_ref') else w.get('text', '')
                    if k == 0 and its is not None and obj_variant and flag_c is not None and kind_c is not None:
                        its.add('types [%s]: Model.to_file_obj of the object with the flag type / label container the implementation reports = file written'
                                % ', '.join('%s=%s' % kv for kv in sorted(kinds.items())),
                                '(IWriteF %s %s %s %s %s %s)' % (hooks['ccom'], H.b(cfg['fmi']), flag_c, kind_c, hooks['spec'], H.pcs(text)))
                    rd = w.get('read', {'error': 'not read'})
                    if isinstance(rd, dict) and 'error' in rd and rejected('file'):
                        nrej += 1
                        continue
                    hooks['called']('from_file(types)')
                    what = 'to_file/from_file round trip (%s) with %s' % (W, ', '.join('%s given as %s' % kv for kv in sorted(kinds.items())) or 'canonical types')
                    b_, _ = verdict(('read', k), rd, canon.get('writes', [{}] * (k + 1))[k].get('read'), lambda rec, k=k, what=what: H.diff_read(rec, wants[k], cfgs[k]['precision'], what))
                    for m in b_:
                        fail('file', m)
                if 'unchanged_file' in vr and not vr['unchanged_file']:
                    fail('file', 'to_file changed the spectrum itself')
                # ---- generic array writer / reader
                for nm in ('masked', 'plain'):
                    a = vr.get('array', {}).get(nm)
                    if a is None:
                        continue
                    A = 'array_to_file(%s)' % nm
                    if 'error' in a:
                        if rejected('array'):
                            nrej += 1
                        else:
                            fail('array', 'Numerics.%s raised %s' % (A, a['error']))
                        continue
                    hooks['called']('array_to_file(types)')
                    if not a.get('text_is_ref'):
                        bad_corr.append('%s: file written differs from the reference text: %r' % (A, a.get('text', '')[:80]))
                    rd = a.get('read', {'error': 'not read'})
                    hooks['called']('array_from_file(types)')
                    what = 'array_to_file/array_from_file round trip of the %s array with %s' % (nm, ', '.join('%s given as %s' % kv for kv in sorted(kinds.items())) or 'canonical types')
                    def afn(rec, nm=nm, what=what):
                        rr2 = dict(rec); rr2.setdefault('folded', None); rr2.setdefault('pop_ids', None); rr2['mask'] = [False] * len(rec.get('data', []))
                        bb = H.diff_read(rr2, awant[nm], p, what)
                        if 'error' not in rec and rec.get('is_plain') is False:
                            bb.append('%s: array_from_file did not return a plain ndarray' % what)
                        return bb
                    b_, _ = verdict(('aread', nm), rd, canon.get('array', {}).get(nm, {}).get('read'), afn)
                    for m in b_:
                        fail('array', m)
                if 'unchanged_array' in vr and not vr['unchanged_array']:
                    fail('array', 'array_to_file changed the spectrum itself')
                # ---- pickle
                pk = vr.get('pickle')
                if pk is not None:
                    cpk = canon.get('pickle', {})
                    if 'reduce_error' in pk:
                        fail('pickle', 'the copyreg pickler of Spectrum raised %s' % pk['reduce_error']['error'])
                    else:
                        hooks['called']('copyreg pickler(types)')
                        a = pk['args']
                        args_ok = (a['data_ok'] and a['mask_ok'] and truth_of(a['flag']) == o['folded'] and a['pop_ids'] == o['pop_ids']
                                   and a['extrap_x'] == o['extrap_x'])
                        if not args_ok:
                            bad_corr.append('reduce tuple is not Model.spectrum_pickler_obj of the object: %r' % (a,))
                        u = pk['unpickled_args'] if not pk.get('unpickled_same') else cpk['unpickled_args']
                        what = 'Spectrum_unpickler on the reduce tuple with %s' % (', '.join('%s given as %s' % kv for kv in sorted(kinds.items())) or 'canonical types')
                        for m in H.diff_read(u, wantp, 17, what):
                            fail('pickle', m)
                        if its is not None and obj_variant and flag_c is not None and kind_c is not None:
                            uu = pk['unpickled_args']
                            af, ak, uf, uk = coq_flag(a['flag']), coq_kind(a['pop_kind']), coq_flag(uu['flag']), coq_kind(uu['pop_kind'])
                            if None in (af, ak, uf, uk):
                                ctx.obligation('%s: reduce tuple / unpickled object known to the model' % L, False, 'correspondence', repr((a['flag'], a['pop_kind'], uu['flag'], uu['pop_kind'])))
                            else:
                                ex = lambda x: None if x is None else repr(x)
                                sx = H.cspec(shape, [repr(x) for x in dat], o['mask'], o['folded'], o['pop_ids'], ex(o['extrap_x']))
                                ur = '(Some %s)' % H.cspec(uu['shape'], [repr(x) for x in uu['data']], uu['mask'], uu['folded'], uu['pop_ids'], ex(uu['extrap_x']))
                                its.add('types [%s]: Model pickler_obj / unpickler_obj keep the flag object and the label container as Spectrum_pickler / Spectrum_unpickler do'
                                        % ', '.join('%s=%s' % kv for kv in sorted(kinds.items())),
                                        '(IPickleF %s %s %s %s %s %s %s %s)' % (flag_c, kind_c, sx, af, ak, uf, uk, ur))
                    for proto, rr in sorted(pk.get('protocols', {}).items()):
                        hooks['called']('pickle(types)')
                        what = ('copy.deepcopy' if proto == 'deepcopy' else 'pickle protocol %s round trip' % proto) + ' with %s' % (
                            ', '.join('%s given as %s' % kv for kv in sorted(kinds.items())) or 'canonical types')
                        def pfn(rec, what=what):
                            bb = H.diff_read(rec, wantp, 17, what)
                            if 'error' not in rec and rec.get('extrap_x', o['extrap_x']) != o['extrap_x']:
                                bb.append('%s: extrap_x=%r, expected %r' % (what, rec.get('extrap_x'), o['extrap_x']))
                            return bb
                        b_, _ = verdict(('pickle', proto), rr, cpk.get('protocols', {}).get(proto), pfn)
                        for m in b_:
                            fail('pickle', m)
                    if 'unchanged_pickle' in vr and not vr['unchanged_pickle']:
                        fail('pickle', 'pickling changed the spectrum itself')
            ctx.case(signature=(shape, [repr(x) for x in dat], c['_mask'], o['folded'], c['pop_ids'], c['comments'], p, 'types', grp['content'], sorted(kinds.items())) if n > 1 and not is_canon else None)
            ctx.obligation('%s: every file written = the Coq-certified reference text of the logical content; reduce tuple = the model\'s' % L,
                           not bad_corr, 'correspondence', '; '.join(bad_corr)[:400])
            ctx.obligation('predicate %s: the canonical object is built and every round trip returns the canonical-form result' % L,
                           not bad_pred, 'predicate', '; '.join(m for _, m in bad_pred)[:400])
            if bad_corr:
                hooks['corr_bad'].append((cid, L + ': ' + bad_corr[0][:120]))
            if bad_pred:
                hooks['pred_failed'].add(cid)
                entry, msg = bad_pred[0]
                hooks['violation']('types:%s:%s:%s' % (dimcls, entry, H.cls_of(msg)),
                                   ('%s (shape %r, folded=%r): %s' % (L, shape, o['folded'], msg))[:300], c, vr, types=tinfo)


def exercised(ctx, stats, nmin_common, nmin_rare):
    """fail closed: every kind of every dimension really went through the entry points on this run"""
    need = [('flag', k, 'variants', nmin_common) for k in FLAG_KINDS[1:]]
    need += [('flag', k, 'on_folded_spectra', nmin_rare) for k in FLAG_KINDS[1:]]
    need += [('mask', k, 'variants', nmin_common) for k in MASK_KINDS[1:]] + [('mask', k, 'variants', nmin_rare) for k in MASK_KINDS_UNMASKED]
    need += [('data', k, 'variants', nmin_common) for k in DATA_KINDS[1:]]
    need += [('data', k, 'variants', nmin_rare) for k in sorted({x for v in DERIVED.values() for x in v} - set(DATA_KINDS))]
    need += [('pop_ids', k, 'variants', nmin_common) for k in SEQ_KINDS_LABELS[1:]]
    need += [('comments', k, 'variants', nmin_common) for k in SEQ_KINDS_COMMENTS[1:]]
    need += [('precision', k, 'variants', nmin_common) for k in PREC_KINDS[1:]]
    need += [(d, k, 'variants', nmin_common) for d in ('fmi', 'mc', 'rc') for k in TRUTH_KINDS[1:]]
    need += [('fname', k, 'variants', nmin_common) for k in FNAME_KINDS[1:]]
    for dim, k, key, nmin in need:
        have = stats.get((dim, k, key), 0)
        ctx.obligation('argument type exercised: %s given as %s - %d %s (at least %d wanted)' % (dim, k, have, key, nmin), have >= nmin, 'harness')
    for (dim, k, key), v in sorted(stats.items()):
        ctx.stats['types_%s_%s_%s' % (dim, k, key)] = v
    disc = os.environ.get('C14_TYPES_DISCOVER')
    if disc:
        with open(disc, 'w') as f:
            json.dump({'%s/%s/%s' % kk: v for kk, v in sorted(stats.items())}, f, indent=1)
