"""C07 -- edge values of the fallback threshold (stream 'edges', every run).

The property: entries whose extrapolation lands MORE than fail_mag decades from the finest-grid value fall back to it, for every
stated fail_mag >= 0.  The model (Model/Extrap.v `far`, `extrap_full`) takes fail_mag as a number of the field and has the fallback
for every value of it (fail_mag = 0: every entry that differs at all from the finest-grid value falls back).  The main generator
only ever drew fail_mag in {10, 5, 1, 0.5, 0.1, 0.01, 0.001} (seed C07g: the fallback block guarded by the TRUTHINESS of fail_mag is
skipped for 0 / 0.0 / False).  This stream hands over, systematically on every run, for k = 2..6 grid sizes, linear and log mode,
array- and Spectrum-valued results (explicit list and .extrap_x):

 family 'poly' (polynomial data, dyadic coefficients and spacings; one entry with a positive ratio 0.1..3 decades from the finest-grid
   value, one arbitrary, one whose sign changes between the finest grid and zero spacing in linear mode):
     fail_mag = 0 in every spelling the unchanged library accepts (int, float, -0.0, False, numpy.bool_, numpy float64/float32/int64/
                int32 scalars, 0-d arrays, Fraction),
                tiny (5e-324, 1e-300, 1e-12),
                just below / just above the decade distance of the first entry (factor 1 -+ 2^-10: the threshold sits AT fail_mag decades;
                the tie itself is decided by round-off for such data and is left to the exact family),
                1 (int, True), large (1000, 1e300) and infinite (float('inf'), numpy.inf).
 family 'exact' (linear mode; spacings = a permutation of 1..k times a power of two, small integer data: the Lagrange weights are the
   signed binomials, every float operation of the closed formulas is exact, so ties are not decided by round-off):
     fail_mag = F in {1 in every spelling, 2, 3.0}: entries with extrapolation / finest-grid value = 10^F exactly (a tie: NOT more than F
                decades away, the extrapolation stays), 10^F b + 1 (falls back), 10^F b - 1 (stays), equal to the finest-grid value, exactly
                zero (array-valued: log10(0) = -inf, falls back), of the other sign (log10 of a negative ratio is nan: stays), the same with
                a negative finest-grid value, and across the downward threshold;
     fail_mag = 0 (several spellings), 5e-324: everything that differs falls back;  infinite: nothing does.

Every case wraps once and calls positionally and by keyword.  Compared: the property predicate (value at zero spacing where the
extrapolation is robustly within fail_mag decades, finest-grid value where it is robustly beyond; exact expected values in the exact
family), the Coq model over Q (batched correspondence of the main stream) and the mask of Spectrum results.

Not compared (counted): exactly-zero extrapolation in Spectrum-valued results (numpy.ma masks log10(0): the entry keeps the
extrapolation, where the plain array falls back; the property promises nothing at the discontinuity, DESIGN 9.4), ties at 10^2, 10^3 in
the Coq model (Qln 100 / Qln 10 is 2 only to 2^-100; the exact Python predicate decides them), downward ties (1/10 is not a float),
an infinite fail_mag in the Coq model is the largest float (same decision for every non-zero ratio; such cases carry no zero entry).
"""
import math, random
from fractions import Fraction
from harness import lib

BIG = 1.7976931348623157e308          # stands for an infinite fail_mag on the model side (kinds 'inf', 'np_inf')

ZERO_SPELLINGS = [('int', 0), ('float', 0.0), ('neg_zero', 0.0), ('bool', 0), ('np_bool', 0), ('np_float64', 0.0), ('np_float32', 0.0),
                  ('np_int64', 0), ('np_int32', 0), ('0d_float', 0.0), ('0d_int', 0), ('fraction', 0)]
ONE_SPELLINGS = [('int', 1), ('float', 1.0), ('bool', 1), ('np_bool', 1), ('np_float64', 1.0), ('np_int64', 1), ('np_float32', 1.0),
                 ('0d_int', 1), ('fraction', 1)]
TINY = [('float', 5e-324), ('float', 1e-300), ('np_float64', 1e-300), ('float', 1e-12)]
LARGE = [('int', 1000), ('float', 1e300), ('inf', BIG), ('np_inf', BIG)]
# every kind above is accepted by the unchanged library (established on the unchanged tree, numpy 2.x): a case that raises is a violation

ARGS = [1.5, 2.5]          # factor (a+b)/4 = 1

def lag_weights(xs):
    fx = [Fraction(x) for x in xs]
    ws = []
    for i in range(len(fx)):
        w = Fraction(1)
        for j in range(len(fx)):
            if j != i:
                w *= fx[j] / (fx[j] - fx[i])
        ws.append(w)
    return ws

def peval(cs, x):
    v = Fraction(0)
    for c in reversed(cs):
        v = v * Fraction(x) + Fraction(c)
    return v

def two_calls(pts):
    return [{'fn': 0, 'passing': 'pos', 'pts': list(pts), 'pts_kind': 'list', 'args': ARGS, 'what': 'positional'},
            {'fn': 0, 'passing': 'kw', 'pts': list(pts), 'pts_kind': 'list', 'args': ARGS, 'what': 'keyword'}]

def fm_text(kind, value):
    return {'neg_zero': '-0.0', 'inf': "float('inf')", 'np_inf': 'numpy.inf'}.get(kind, '%s(%r)' % (kind, value))

# ---- polynomial data -------------------------------------------------------------------------------------------------
def poly_base(rng, k, log, mode):
    """spacings, coefficient sets and the decade distances |log10(value at 0 / finest-grid value)| of the compared entries"""
    grid = [10, 12, 16, 20, 24, 30, 32, 40, 48, 64]
    for attempt in range(20000):
        pts = rng.sample(grid, k)
        xs = [p / 256.0 for p in pts]
        ws = lag_weights(xs)
        imin = min(range(k), key=lambda i: xs[i])
        coefs, dists, ok = [], [], True
        for role in range(3):
            c0 = lib.dyadic(rng, 0.5, 4, 4) * rng.choice([1, -1])
            cs = [c0] + [lib.dyadic(rng, -32, 32, 4) for _ in range(k - 1)]
            if k > 1 and cs[-1] == 0:
                cs[-1] = 1.0
            if log:
                cs = [c / 8 for c in cs]
            vals = [peval(cs, x) for x in xs]
            if log:
                if max(abs(v) for v in vals) > 6:
                    ok = False; break
                d = abs(float(Fraction(cs[0]) - vals[imin])) / math.log(10)
                cond = 1 + float(sum(abs(w * v) for w, v in zip(ws, vals)))
                neg = False
            else:
                if any(v == 0 for v in vals):
                    ok = False; break
                r = Fraction(cs[0]) / vals[imin]
                neg = r < 0
                d = abs(math.log10(abs(float(r))))
                cond = float(sum(abs(w * v) for w, v in zip(ws, vals))) / abs(cs[0]) + 1
            if cond > 1e4:
                ok = False; break
            if role == 0 and (neg or not 0.1 <= d <= 3):
                ok = False; break
            if role == 1 and (neg or d < 1e-3):
                ok = False; break
            if role == 2 and not log and not neg:
                ok = False; break
            if not neg and (abs(d - 1) < 1e-2 or d > 900):
                ok = False; break
            coefs.append(cs); dists.append(None if neg else d)
        if not ok:
            continue
        d0 = dists[0]
        lo, hi = d0 * (1 - 2.0 ** -10), d0 * (1 + 2.0 ** -10)
        if any(d is not None and i > 0 and (abs(d - lo) < 1e-2 * d0 or abs(d - hi) < 1e-2 * d0 or abs(d - d0) < 1e-2 * d0) for i, d in enumerate(dists)):
            continue
        return pts, xs, coefs, lo, hi
    raise RuntimeError('edges: no polynomial base found (k=%d log=%s)' % (k, log))

def poly_cases(rng, full):
    out = []
    for rep in range(2 if full else 1):
        for k in range(2, 7):
            for log in (False, True):
                for mode in ('array', 'spectrum'):
                    pts, xs, coefs, lo, hi = poly_base(rng, k, log, mode)
                    fms = (list(ZERO_SPELLINGS) + list(TINY) + [('float', lo), ('float', hi), ('int', 1), ('bool', 1)] + list(LARGE))
                    for n, (kind, value) in enumerate(fms):
                        c = {'k': k, 'pts': list(pts), 'xs': list(xs), 'coefs': [list(cs) for cs in coefs], 'log': log, 'fail_mag': value,
                             'fm_kind': kind, 'mode': mode, 'x_from': 'explicit', 'pts_passing': 'pos', 'via_log_func': False,
                             'perm': list(range(k)), 'edge': 'poly',
                             'special': 'edge fail_mag=%s%s' % (fm_text(kind, value), ' (just below the decade distance of entry 0)' if value == lo
                                                                 else ' (just above the decade distance of entry 0)' if value == hi else '')}
                        if mode == 'spectrum':
                            # two masked corners around the three compared entries
                            c['coefs'] = [list(coefs[1])] + c['coefs'] + [list(coefs[0])]
                            c['shape'] = [5]; c['pop_ids'] = ['popA']; c['mask_corners'] = True
                            c['x_from'] = 'attr' if (k + int(log) + n + rep) % 2 else 'explicit'
                            c['attr_x'] = 'same' if c['x_from'] == 'attr' else ['same', 'other', 'none'][n % 3]
                            c['want_mask'] = [True, False, False, False, True]
                        else:
                            c['xl_kind'] = ['list', 'tuple', 'ndarray'][n % 3]
                        c['calls'] = two_calls(pts)
                        out.append(c)
    return out

# ---- exact data: integer spacings x power of two, integer values ---------------------------------------------------------
def far_exact(ex, best, F, array):
    """the documented decision with exact numbers: more than F decades away (F a non-negative integer, or None for infinite)"""
    if best == 0:
        return None
    r = Fraction(ex) / Fraction(best)
    if r == 0:
        return True if array else None          # Spectrum: numpy.ma masks log10(0); not compared
    if r < 0:
        return False                            # log10 of a negative ratio: nan, not farther than anything
    if F is None:
        return False
    return r > Fraction(10) ** F or r < Fraction(1, 10 ** F)

def exact_rows(rng, k, F, array):
    """(finest-grid value b, extrapolated value ex, role) per entry"""
    T = 10 ** (F or 0)
    b = rng.choice([2, 3, 7])
    rows = [(b, b * T, 'ratio exactly 10^F (tie: stays)' if F else 'equal to the finest-grid value'),
            (b, b * T + 1, 'just beyond (falls back)'),
            (b, b * T - 1, 'just within (stays)' if F else 'just below (falls back)'),
            (b, b, 'equal to the finest-grid value'),
            (b, -b * T, 'other sign (stays)'),
            (-b, -b * T, 'negative finest-grid value, tie' if F else 'negative, equal'),
            (-b, -b * T - 1, 'negative finest-grid value, just beyond (falls back)'),
            (-b, 5, 'negative finest-grid value, positive extrapolation (stays)'),
            (3 * T, 4, 'downward, within (stays)' if F else 'differs (falls back)'),
            (3 * T, 2, 'downward, beyond (falls back)' if F else 'differs (falls back)')]
    if array:
        rows.insert(4, (b, 0, 'extrapolation exactly zero (falls back)'))
        rows.append((-b, 0, 'negative finest-grid value, extrapolation exactly zero (falls back)'))
    return rows

def exact_cases(rng, full):
    out = []
    for rep in range(2 if full else 1):
        for k in range(2, 7):
            for mode in ('array', 'spectrum'):
                array = mode == 'array'
                nodes = list(range(1, k + 1)); rng.shuffle(nodes)
                sc = 2.0 ** -rng.choice([0, 2, 5])
                xs = [n * sc for n in nodes]
                ws = lag_weights(xs)                       # signed binomials
                assert all(w.denominator == 1 for w in ws)
                i0 = nodes.index(1); ik = nodes.index(k)    # finest grid; the node whose weight is +-1
                pts = [8 + 4 * (k - n) + (n % 3) for n in nodes]      # distinct, finer grid <-> smaller spacing
                assert len(set(pts)) == k
                fms = ([(kd, v, 1) for kd, v in ONE_SPELLINGS] + [('int', 2, 2), ('float', 3.0, 3)]
                       + [(kd, v, 0) for kd, v in (ZERO_SPELLINGS if full else [ZERO_SPELLINGS[i] for i in (0, 1, 3, 5, 9)])]
                       + [('float', 5e-324, 0), ('inf', BIG, None), ('np_inf', BIG, None)])
                data_by_F = {}
                for n, (kind, value, F) in enumerate(fms):
                    if F not in data_by_F:
                        rows = exact_rows(rng, k, F, array and F is not None)
                        ys, expect, roles, no_coq = [], [], [], []
                        for e, (b, ex, role) in enumerate(rows):
                            y = [0] * k
                            for i in range(k):
                                if i not in (i0, ik):
                                    y[i] = rng.randint(-9, 9)
                            y[i0] = b
                            rest = sum(ws[i] * y[i] for i in range(k) if i != ik)
                            y[ik] = (Fraction(ex) - rest) / ws[ik]
                            assert all(Fraction(v).denominator == 1 and abs(v) < 2 ** 40 for v in y)
                            assert sum(w * v for w, v in zip(ws, y)) == ex
                            far = far_exact(ex, b, F, array)
                            ys.append([float(v) for v in y])
                            expect.append(None if far is None else float(b if far else ex))
                            roles.append(role)
                            if F is not None and F >= 2 and abs(Fraction(ex, b)) == 10 ** F:
                                no_coq.append(e)
                        data_by_F[F] = (ys, expect, roles, no_coq)
                    ys, expect, roles, no_coq = data_by_F[F]
                    c = {'k': k, 'pts': list(pts), 'xs': list(xs), 'log': False, 'fail_mag': value, 'fm_kind': kind, 'mode': mode,
                         'x_from': 'explicit', 'pts_passing': 'pos', 'via_log_func': False, 'perm': list(range(k)), 'edge': 'exact',
                         'special': 'edge fail_mag=%s, exact data' % fm_text(kind, value)}
                    if mode == 'spectrum':
                        pad = [1.0] * k
                        c['ys_override'] = [pad] + [list(y) for y in ys] + [pad]
                        c['expect'] = [None] + list(expect) + [None]
                        c['roles'] = ['masked corner'] + roles + ['masked corner']
                        c['no_coq'] = [e + 1 for e in no_coq]
                        m = len(ys) + 2
                        c['shape'] = [m]; c['pop_ids'] = ['popA']; c['mask_corners'] = True
                        c['x_from'] = 'attr' if (k + n + rep) % 2 else 'explicit'
                        c['attr_x'] = 'same' if c['x_from'] == 'attr' else ['other', 'same', 'none'][n % 3]
                        c['want_mask'] = [True] + [False] * (m - 2) + [True]
                    else:
                        c['ys_override'] = [list(y) for y in ys]; c['expect'] = list(expect); c['roles'] = roles; c['no_coq'] = list(no_coq)
                        c['xl_kind'] = ['list', 'tuple', 'ndarray'][n % 3]
                    c['coefs'] = [[0.0] * k for _ in c['ys_override']]
                    c['calls'] = two_calls(pts)
                    out.append(c)
    return out

def gen_edges(ctx, full, first_id):
    """own PRNG (derived from the run seed): the cases of the other streams do not move"""
    rng = random.Random('C07-edges-%d' % ctx.seed)
    cases = poly_cases(rng, full) + exact_cases(rng, full)
    for n, c in enumerate(cases):
        c['id'] = first_id + n
    return cases
