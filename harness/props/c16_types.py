"""C16 - argument TYPES / CONTAINERS / LAYOUTS: the same logical call of the demes importer, spelled with the other Python /
numpy types the API accepts, with the SAME argument objects re-used across evaluations.

Used by c16.py.  The base generators (c16.gen_log_cases etc.) hand every sampled_demes / sample_sizes / sample_times to
from_demes as fresh Python lists of str / int / float, Ne as a Python float (or None), pts as a one-element list.  Callers
hand in tuples, numpy arrays of every integer / float dtype (sample times read from a table are float64 ndarrays), numpy
scalars, 0-d arrays, strided / reversed views, masked arrays; Spectrum.from_demes evaluates Demes.SFS once per grid size
WITH THE SAME OBJECTS, and an optimisation calls it again and again with them.

On EVERY run (enumerated, not sampled):

  * BASES: seven small graphs (parameters drawn from the run's rng; all numbers integer-valued, so that every integer spelling
    holds them exactly), one per regime of the sampling spec: every sample at time 0 with sample_times left out (generations)
    / written as zeros (years: the unit conversion path) ; one ancient sample (no slice) ; every sample ancient in generations
    / in years (slice + conversion) ; every sample ancient with the same deme sampled twice among three samples ; one deme in
    a growth epoch sampled in the past.  Each base in its canonical spelling is ALSO a log case of c16.py (tag 'types:...'):
    call-log correspondence with the Coq model, the model's native program, units / rescale / order / explicit-frozen-branch
    predicates all run on it, and its spectrum there must equal bit for bit the single-grid canonical value here.
  * VARIANTS: per base and entry point (dadi.Demes.SFS called twice; Spectrum.from_demes with three grid sizes followed by a
    Demes.SFS call; DemesUtil.slice twice; Demes.output twice) every kind of every dimension in DIMS with all other
    dimensions canonical (one factor), plus all-factor variants in which every dimension takes a non-canonical kind (rotating).
  * REQUIRED of every spelling the unchanged library accepts: every result equals the result of the canonical spelling bit for
    bit (values where unmasked, mask, shape, labels), and every argument object is unchanged after every call (type, dtype,
    shape, strides, bytes - also of the array a view looks into -, items and their identities; the graph as a dict).
    The canonical three-grid from_demes value must equal make_extrap_func over Demes.SFS evaluations that each get fresh
    argument objects.
  * EXPECT below is the reviewed table of what the unchanged library does NOT accept in this sense (established with
    C16_TYPES_DISCOVER=<file> ./check C16, which dumps the observed outcome of every (entry, dimension, kind, regime)):
    'raises' = the spelling is rejected in the listed regimes (counted; if it stops raising it is compared like any other),
    'close' = equal at 1e-9 of the largest entry only (lower-precision arithmetic inside), 'differs' = treated differently
    (counted only).  A spelling not listed that raises, differs or leaves an argument modified is a violation with the base,
    the spelling and the call as replay input.
  * coverage obligations (fail closed): every (entry, dimension, kind) was evaluated in every regime it applies to.
  * source obligation `frame_obligation` (AST, fail closed): Demes.SFS binds its working copies of sampled_demes /
    sample_times with copy.copy / copy.deepcopy / list(...) / a comprehension / a fresh literal, never modifies a parameter in
    place, and the helpers it hands them to modify only the parameters listed in MUTATING_HELPERS.  When it breaks (or any
    other source obligation of C16 breaks) the stream is re-run at thorough size (more parameter draws per base) before
    no-failing-input-found is reported.
"""
import ast, json, os, threading, copy, random
from harness import lib
from harness.props import c16_gen as G

DEMES_PY = os.path.join(lib.REPO, 'dadi', 'Demes', 'Demes.py')

# ------------------------------------------------------------------------------------------------------------------
# dimensions and kinds (canonical first)

DIMS = {
    'sampled': ['list', 'tuple', 'np_str_array', 'np_object_array', 'list_np_str'],
    'ns': ['list', 'tuple', 'np_int64', 'np_int32', 'np_uint8', 'list_np_int64', 'np_float64', 'list_float', 'np_int64_negstride',
           'np_int64_strided'],
    'times': ['list_float', 'list_int', 'tuple_float', 'tuple_int', 'np_float64', 'np_int64', 'np_int32', 'np_float32', 'np_longdouble',
              'list_np_float64', 'list_np_float32', 'list_np_int64', 'list_arr0', 'np_float64_negstride', 'np_float64_strided',
              'np_float64_fortran_column', 'np_float64_c_column', 'np_float64_readonly', 'masked_array', 'masked_array_mask_false'],
    'times_none': ['none', 'omitted'],
    'Ne': ['float', 'int', 'np_float64', 'np_float32', 'np_longdouble', 'np_int64', 'np_int32', 'arr0_float', 'arr0_int'],
    'Ne_none': ['none', 'omitted'],
    'theta': ['float', 'int', 'np_float64', 'np_float32', 'np_int64', 'arr0_float'],
    'p': ['int', 'np_int64', 'np_int32', 'arr0_int', 'float'],
    'pts': ['list3', 'tuple3', 'np_int64_3', 'np_int32_3', 'list3_np_int64', 'list3_float', 'np_int64_3_negstride', 'list3_descending',
            'list2', 'list1', 'tuple1', 'np_int64_1', 'scalar_int', 'scalar_np_int64'],
    'log_extrap': ['bool', 'np_bool', 'int'],
    'misid': ['bool', 'np_bool', 'int'],
    'g': ['graph', 'graph_fresh', 'yaml_path', 'yaml_path_np_str'],
    't': ['float', 'int', 'np_float64', 'np_float32', 'np_int64', 'arr0_float'],
    'Nref': ['float', 'int', 'np_float64', 'np_float32', 'np_int64', 'arr0_float'],
    'gen_time': ['float', 'int', 'np_float64', 'np_float32', 'np_int64', 'arr0_float'],
}
ENTRY_DIMS = {'SFS': ['sampled', 'ns', 'times', 'Ne', 'theta', 'p'],
              'from_demes': ['g', 'sampled', 'ns', 'times', 'Ne', 'pts', 'log_extrap', 'misid'],
              'slice': ['t'], 'output': ['Nref', 'gen_time']}
PTS_REF = {'list3': 'fd3', 'tuple3': 'fd3', 'np_int64_3': 'fd3', 'np_int32_3': 'fd3', 'list3_np_int64': 'fd3', 'list3_float': 'fd3',
           'np_int64_3_negstride': 'fd3', 'list3_descending': 'fd3', 'list2': 'fd2', 'list1': 'fd1', 'tuple1': 'fd1',
           'np_int64_1': 'fd1', 'scalar_int': 'fd1', 'scalar_np_int64': 'fd1'}
REGIMES = ['contemporary', 'contemporary-zeros-years', 'mixed', 'all-ancient', 'all-ancient-years']
TOL_CLOSE = 1e-9

# reviewed on the unchanged tree (C16_TYPES_DISCOVER matrix).  key (entry, dimension, kind) -> (class, regimes or '*', why)
# classes: 'raises' (rejected), 'close' (equal at 1e-9 only), 'differs' (treated differently: any outcome is only counted)
ANCIENT = ('mixed', 'all-ancient', 'all-ancient-years')
F32 = 'numpy float32 scalars / arrays keep float32 through the arithmetic with Python floats (NEP 50): times / sizes carry float32 rounding'
LD = 'numpy longdouble keeps extended precision through the arithmetic: results differ in the last bits'
EXPECT = {}
for _e in ('SFS', 'from_demes'):
    EXPECT.update({
        (_e, 'Ne', 'np_float32'): ('differs', '*', F32),
        (_e, 'Ne', 'np_longdouble'): ('close', '*', LD),
        (_e, 'times', 'np_float32'): ('differs', '*', F32),
        (_e, 'times', 'list_np_float32'): ('differs', '*', F32),
        (_e, 'times', 'np_longdouble'): ('close', '*', LD),
        (_e, 'ns', 'list_float'): ('raises', '*', 'a float sample size reaches range() / numpy.zeros in from_phi when the spectrum has >= 3 axes or is one-dimensional'),
        (_e, 'ns', 'np_float64'): ('raises', '*', 'as list_float'),
        (_e, 'sampled', 'tuple'): ('raises', ANCIENT, 'copy.copy keeps the tuple; _augment_with_ancient_samples assigns sampled_demes[ii]'),
        (_e, 'times', 'tuple_float'): ('raises', ('contemporary-zeros-years',), 'copy.copy keeps the tuple; _convert_to_generations assigns deme_sample_times[ii]'),
        (_e, 'times', 'tuple_int'): ('raises', ('contemporary-zeros-years',), 'as tuple_float'),
    })
EXPECT.update({
    ('SFS', 'sampled', 'np_str_array'): ('differs', ANCIENT, 'fixed-width numpy str array: the assignment of the frozen-branch name is truncated to the '
                                         'width of the array (KeyError, or the live deme is sampled instead of the frozen branch)'),
    ('from_demes', 'sampled', 'np_str_array'): ('differs', '*', 'as for SFS; make_extrap_func compares argument tuples (ambiguous truth value of an array)'),
    ('from_demes', 'sampled', 'np_object_array'): ('raises', '*', 'make_extrap_func compares argument tuples (ambiguous truth value of an array)'),
    ('SFS', 'p', 'float'): ('raises', '*', 'numpy.linspace(num=float)'),
    ('SFS', 'theta', 'np_float64'): ('raises', '*', 'AssertionError in the numerical layer for a non-Python-number theta'),
    ('SFS', 'theta', 'np_float32'): ('raises', '*', 'as np_float64'),
    ('SFS', 'theta', 'np_int64'): ('raises', '*', 'as np_float64'),
    ('SFS', 'theta', 'arr0_float'): ('raises', '*', 'as np_float64'),
    ('from_demes', 'pts', 'list3_float'): ('raises', '*', 'numpy.linspace(num=float)'),
    ('from_demes', 'pts', 'list3_descending'): ('close', '*', 'the extrapolation weights are summed in another order'),
    ('slice', 't', 'np_float32'): ('differs', '*', F32),
})
# dimensions whose treatment depends on the regime of the sampling spec: every kind on EVERY base; the others on the FULL bases
REGIME_DIMS = ('times', 'sampled')
FULL_BASES = ('contemporary', 'contemporary-zeros-years', 'all-ancient-years', 'all-ancient-same-deme-twice')


def expect(entry, dim, kind, regime):
    e = EXPECT.get((entry, dim, kind))
    if e is None:
        return None
    cls, regs, _why = e
    if regs == '*' or regime in regs:
        return cls
    return None


# ------------------------------------------------------------------------------------------------------------------
# bases

def _two(rng, scale):
    """r -> a (growing), b with symmetric migration; in units where times are multiples of 1/8 (then x scale)"""
    T = rng.choice([1.5, 2.0, 2.5])
    na0, na1 = rng.choice([(1.0, 3.0), (2.0, 0.5), (0.75, 1.5)])
    nb = rng.choice([1.5, 2.5, 0.5])
    demes = [{'name': 'r', 'epochs': [{'end_time': T, 'start_size': 2.0}]},
             {'name': 'a', 'ancestors': ['r'], 'epochs': [{'end_time': 0.0, 'start_size': na0, 'end_size': na1}]},
             {'name': 'b', 'ancestors': ['r'], 'epochs': [{'end_time': 0.0, 'start_size': nb}]}]
    g = {'time_units': 'generations', 'demes': demes, 'migrations': [{'demes': ['a', 'b'], 'rate': rng.choice([0.125, 0.25, 0.0625])}]}
    return G.rescale(g, scale), T * scale


def _one(rng, scale):
    demes = [{'name': 'p', 'epochs': [{'end_time': 1.0, 'start_size': 2.0},
                                       {'end_time': 0.0, 'start_size': 1.0, 'end_size': rng.choice([3.0, 0.5, 2.5])}]}]
    return G.rescale({'time_units': 'generations', 'demes': demes}, scale)


def bases(rng):
    S = 64.0
    out = []
    ta, tb = rng.sample([0.25, 0.5, 0.75, 1.0, 1.25], 2)
    g, T = _two(rng, S)
    out.append({'graph': g, 'sampled': ['a', 'b'], 'ns': [3, 2], 'times': None, 'Ne': None, 'pts': 10, 'regime': 'contemporary', 'maxd': 2})
    g, T = _two(rng, S)
    out.append({'graph': G.to_units(g, 2.0), 'sampled': ['b', 'a'], 'ns': [2, 3], 'times': [0.0, 0.0], 'Ne': 3.0 * S, 'pts': 10,
                'regime': 'contemporary-zeros-years', 'maxd': 2})
    g, T = _two(rng, S)
    out.append({'graph': g, 'sampled': ['a', 'b'], 'ns': [2, 2], 'times': [0.0, tb * S], 'Ne': 2.0 * S, 'pts': 9, 'regime': 'mixed', 'maxd': 3})
    g, T = _two(rng, S)
    out.append({'graph': g, 'sampled': ['a', 'b'], 'ns': [3, 2], 'times': [ta * S, tb * S], 'Ne': None, 'pts': 9, 'regime': 'all-ancient', 'maxd': 3})
    g, T = _two(rng, S)
    out.append({'graph': G.to_units(g, 2.0), 'sampled': ['b', 'a'], 'ns': [2, 2], 'times': [ta * S * 2.0, tb * S * 2.0], 'Ne': 1.5 * S, 'pts': 9,
                'regime': 'all-ancient-years', 'maxd': 3})
    g, T = _two(rng, S)
    t1, t2 = sorted(rng.sample([0.125, 0.25, 0.5, 0.75, 1.0], 2))
    out.append({'graph': g, 'sampled': ['b', 'a', 'a'], 'ns': [2, 1, 2], 'times': [t1 * S, t1 * S, t2 * S], 'Ne': 2.0 * S, 'pts': 8,
                'regime': 'all-ancient', 'maxd': 3, 'name': 'all-ancient-same-deme-twice'})
    out.append({'graph': _one(rng, S), 'sampled': ['p'], 'ns': [4], 'times': [rng.choice([0.25, 0.5, 0.75]) * S], 'Ne': None, 'pts': 12,
                'regime': 'all-ancient', 'maxd': 2, 'name': 'all-ancient-one-deme'})
    for k, b in enumerate(out):
        b['name'] = b.get('name', b['regime'])
        b['tag'] = 'types:' + b['name']
        b['tid'] = k
        tt = [t for t in (b['times'] or []) if t > 0]
        b['t'] = min(tt) if tt else 16.0
        for x in (b['times'] or []) + [b['t']] + ([b['Ne']] if b['Ne'] is not None else []):
            assert float(x) == int(x), b
    return out


def log_case(b):
    """the canonical spelling of a base as a log case of c16.py"""
    return {k: copy.deepcopy(b[k]) for k in ('graph', 'sampled', 'ns', 'times', 'Ne', 'pts', 'tag', 'maxd')}


def variants(b, reps=1):
    """[variant]: canonical first, then one-factor variants, then all-factor variants"""
    out = [{'entry': e, 'kinds': {}} for e in ('SFS', 'from_demes', 'slice')]
    full = b['name'].split('/')[0] in FULL_BASES
    for entry in ('SFS', 'from_demes', 'slice'):
        for dim in ENTRY_DIMS[entry]:
            if dim not in REGIME_DIMS and not full:
                continue
            kinds = DIMS[dim]
            if dim == 'times' and b['times'] is None:
                kinds = ['list_float'] + DIMS['times_none']
            if dim == 'Ne' and b['Ne'] is None:
                kinds = ['float'] + DIMS['Ne_none']
            for k in kinds[1:]:
                out.append({'entry': entry, 'kinds': {dim: k}})
    # all-factor: every dimension takes a non-canonical kind that is not listed in EXPECT for this regime, kinds rotating
    for entry in ('SFS', 'from_demes'):
        n = (max(len(DIMS[d]) for d in ENTRY_DIMS[entry]) - 1) if full else 8
        for j in range(n):
            kinds = {}
            for dim in ENTRY_DIMS[entry]:
                ks = DIMS[dim][1:]
                if dim == 'times':
                    # array kinds (objects that can be modified in place) first
                    ks = [k for k in ks if k.startswith('np_') or k.startswith('masked')] + [k for k in ks if not (k.startswith('np_') or k.startswith('masked'))]
                if dim == 'times' and b['times'] is None:
                    ks = DIMS['times_none']
                if dim == 'Ne' and b['Ne'] is None:
                    ks = DIMS['Ne_none']
                if dim == 'g':
                    ks = ['graph_fresh']
                if dim == 'pts':
                    ks = [k for k in ks if PTS_REF[k] == 'fd3']
                ks = [k for k in ks if expect(entry, dim, k, b['regime']) is None]
                if ks:
                    kinds[dim] = ks[(j + b['tid']) % len(ks)]
            out.append({'entry': entry, 'kinds': kinds, 'all': True})
    for i, v in enumerate(out):
        v['vid'] = i
    return out


OUTPUT_CASE = {'graph': None, 'Nref': 128.0, 'gen_time': 4.0, 'pts': 12, 'regime': 'output', 'name': 'output', 'tid': 99, 'times': None, 'Ne': None,
               'sampled': [], 'ns': []}


def output_variants():
    out = [{'entry': 'output', 'kinds': {}}]
    for dim in ENTRY_DIMS['output']:
        for k in DIMS[dim][1:]:
            out.append({'entry': 'output', 'kinds': {dim: k}})
    for j in range(len(DIMS['Nref']) - 1):
        out.append({'entry': 'output', 'kinds': {'Nref': DIMS['Nref'][1 + j], 'gen_time': DIMS['gen_time'][1 + (j + 2) % 5]}, 'all': True})
    for i, v in enumerate(out):
        v['vid'] = i
    return out


# ------------------------------------------------------------------------------------------------------------------
# running

def payload_case(b, vs, fresh=True):
    c = {k: b[k] for k in ('graph', 'sampled', 'ns', 'times', 'Ne', 'pts') if k in b}
    c.update({'id': b['tid'], 't': b.get('t'), 'Nref': b.get('Nref'), 'gen_time': b.get('gen_time'), 'variants': vs, 'fresh3': fresh and b['graph'] is not None})
    return c


def start(ctx, bs, reps=1):
    """launches the stream (2 interpreters) in the background; `finish` accounts for it"""
    jobs = [(b, variants(b)) for b in bs] + [(dict(OUTPUT_CASE), output_variants())]
    st = {'jobs': jobs, 'res': {}, 'err': []}
    chunks = [[], []]
    order = sorted(range(len(jobs)), key=lambda i: -len(jobs[i][1]) * (3 if jobs[i][0].get('maxd') == 3 else 1))
    for n, i in enumerate(order):
        chunks[n % 2].append(i)
    def work(idx):
        try:
            res = lib.run_impl('c16_impl_types.py', {'cases': [payload_case(*jobs[i]) for i in idx]}, timeout=2400)
            for r in res:
                st['res'][r['id']] = r
        except Exception as e:
            st['err'].append('%s: %s' % (type(e).__name__, str(e)[-1500:]))
    st['threads'] = [threading.Thread(target=work, args=(ch,)) for ch in chunks if ch]
    for t in st['threads']:
        t.start()
    return st


def same_bits(a, b):
    """spectra as fs_out dicts; returns (class, deviation): 'same' | 'close' | 'differs'"""
    if a['shape'] != b['shape'] or a['mask'] != b['mask'] or a['pop_ids'] != b['pop_ids']:
        return 'differs', None
    da = [x for x, m in zip(a['data'], a['mask']) if not m]; db = [x for x, m in zip(b['data'], b['mask']) if not m]
    if all(x == y or (x != x and y != y) for x, y in zip(da, db)):
        return 'same', 0.0
    scale = max([abs(x) for x in db if x == x] + [1e-300])
    dev = 0.0
    for x, y in zip(da, db):
        if (x != x) != (y != y):
            return 'differs', float('inf')
        if x == x:
            dev = max(dev, abs(x - y) / scale)
    return ('close' if dev <= TOL_CLOSE else 'differs'), dev


def spelled(v):
    return ', '.join('%s=%s' % kv for kv in sorted(v['kinds'].items())) or 'canonical'


def finish(ctx, st, log_fs=None, discover=None):
    """evaluates the stream; returns the number of violations raised"""
    for t in st['threads']:
        t.join()
    nviol = 0
    for e in st['err']:
        ctx.obligation('types stream: the driver ran', False, 'harness', e)
    covered = set(); matrix = {}
    for b, vs in st['jobs']:
        r = st['res'].get(b['tid'])
        if r is None or r.get('error'):
            if not st['err']:
                ctx.violation('types stream: base %s could not be evaluated: %s' % (b['name'], (r or {}).get('error')),
                              data={'kind': 'types', 'base': jsonable(b), 'tb': (r or {}).get('tb')})
                nviol += 1
            continue
        byv = {x['vid']: x for x in r['variants']}
        regime = b['regime']
        # canonical values
        canon = {}
        bad_canon = False
        for v in vs:
            if not v['kinds']:
                x = byv[v['vid']]
                for cl in x.get('calls', []):
                    if 'error' in cl:
                        ctx.violation('types stream: the canonical spelling of base %s raises in %s: %s' % (b['name'], cl['what'], cl['error']),
                                      data={'kind': 'types', 'base': jsonable(b), 'variant': v, 'tb': cl.get('tb')})
                        nviol += 1; bad_canon = True
                    canon[cl['what']] = cl
                if x.get('mutated'):
                    m = x['mutated'][0]
                    ctx.violation('%s modified the caller\'s %s (canonical spelling, base %s): %s -> %s'
                                  % (m['after'], m['arg'], b['name'], m['before'], m['now']), data={'kind': 'types', 'base': jsonable(b), 'variant': v})
                    nviol += 1
        if bad_canon:
            continue
        if b['graph'] is not None:
            # repeated calls of the canonical spelling / the three-grid value against fresh-object evaluations / the log phase
            chk = [('SFS#2', 'SFS#1'), ('SFS-after', 'SFS#1')]
            for x, y in chk:
                if same_bits(canon[x]['fs'], canon[y]['fs'])[0] != 'same':
                    ctx.violation('types stream: base %s, canonical spelling: %s differs from %s (same arguments, same process)' % (b['name'], x, y),
                                  data={'kind': 'types', 'base': jsonable(b), 'variant': {'entry': 'SFS', 'kinds': {}}})
                    nviol += 1
            if r.get('fresh3') is None:
                ctx.violation('types stream: base %s: make_extrap_func over Demes.SFS with fresh arguments failed: %s' % (b['name'], r.get('fresh3_error')),
                              data={'kind': 'types', 'base': jsonable(b)})
                nviol += 1
            else:
                cls, dev = same_bits(canon['from_demes']['fs'], r['fresh3'])
                ctx.count('types: three-grid from_demes vs fresh-argument evaluations: ' + cls)
                if cls != 'same':
                    ctx.violation('Spectrum.from_demes with grids [p, p+2, p+4] (one set of argument objects for the three evaluations) differs '
                                  'from the extrapolation of three Demes.SFS evaluations with fresh argument objects (deviation %s of the largest '
                                  'entry; base %s sampled=%r times=%r)' % (dev, b['name'], b['sampled'], b['times']),
                                  data={'kind': 'types', 'base': jsonable(b), 'variant': {'entry': 'from_demes', 'kinds': {}}})
                    nviol += 1
            if log_fs is not None and log_fs.get(b['tag']) is not None:
                lf = dict(log_fs[b['tag']]); cf = canon['SFS#1']['fs']
                cls, dev = same_bits({k: cf[k] for k in ('shape', 'data', 'mask', 'pop_ids')}, {k: lf[k] for k in ('shape', 'data', 'mask', 'pop_ids')})
                ctx.count('types: canonical Demes.SFS vs the log phase (model-checked) from_demes: ' + cls)
                if cls != 'same':
                    ctx.violation('types stream: Demes.SFS on one grid differs from Spectrum.from_demes with pts=[p] of the log phase for the same '
                                  'base %s (deviation %s)' % (b['name'], dev), data={'kind': 'types', 'base': jsonable(b)})
                    nviol += 1
        # variants
        for v in vs:
            if not v['kinds']:
                continue
            x = byv[v['vid']]
            entry = v['entry']
            one = len(v['kinds']) == 1 and not v.get('all')
            dim, kind = (list(v['kinds'].items())[0] if one else (None, None))
            if x.get('inapplicable'):
                ctx.count('types: spelling cannot hold the values of this base (not evaluated)')
                continue
            ex = expect(entry, dim, kind, regime) if one else None
            if not one:
                # an all-factor variant is judged only when none of its factors is listed for this regime
                if any(expect(entry, d, k, regime) for d, k in v['kinds'].items()):
                    ctx.count('types: all-factor variant contains a listed spelling (not judged)')
                    continue
            outcome = 'same'
            first = None
            for cl in x['calls']:
                ref = cl['what']
                if entry == 'from_demes' and cl['what'] == 'from_demes':
                    ref = {'fd3': 'from_demes', 'fd2': None, 'fd1': 'SFS#1'}[PTS_REF[v['kinds'].get('pts', 'list3')]]
                if entry == 'from_demes' and cl['what'] == 'SFS-after':
                    ref = 'SFS#1'
                if 'error' in cl:
                    o = 'raises:' + cl['etype']
                elif ref is None:
                    continue
                elif 'graph' in cl:
                    o = 'same' if json.loads(cl['graph']) == json.loads(canon[ref]['graph']) else 'differs'
                else:
                    o, dev = same_bits(cl['fs'], canon[ref]['fs'])
                    if o != 'same':
                        o = '%s' % o
                        cl['_dev'] = dev
                if o != 'same' and first is None:
                    first = (cl, o)
                    outcome = o
            if x.get('mutated') and outcome == 'same':
                outcome = 'mutates'
            if one:
                matrix.setdefault((entry, dim, kind), {}).setdefault(regime, set()).add(outcome if not x.get('mutated') or outcome == 'mutates' else outcome + '+mutates')
                covered.add((entry, dim, kind, regime))
            ctx.count('types: %s %s' % (entry, 'one-factor' if one else 'all-factor'))
            # judge
            if x.get('mutated') and ex != 'mutates':
                m = x['mutated'][0]
                what = {'SFS': 'dadi.Demes.SFS', 'from_demes': 'dadi.Spectrum.from_demes', 'slice': 'DemesUtil.slice', 'output': 'Demes.output'}[entry]
                ctx.violation('%s modified the caller\'s %s object (spelling %s; after call %s; base %s: sampled=%r times=%r units=%s): %s -> %s'
                              % (what, m['arg'], spelled(v), m['after'], b['name'], b['sampled'], b['times'],
                                 (b['graph'] or {}).get('time_units'), m['before'], m['now']),
                              data={'kind': 'types', 'base': jsonable(b), 'variant': strip_v(v), 'mutated': x['mutated']},
                              key='types:caller-argument-modified:%s:%s' % (m['arg'], v['kinds'].get(m['arg'], 'canonical')))
                nviol += 1
            if first is None:
                if ex == 'raises':
                    ctx.count('types: a listed rejection is accepted in this run (compared like any other)')
                continue
            cl, o = first
            if ex == 'differs' or (ex == 'raises' and o.startswith('raises')) or (ex == 'close' and o == 'close'):
                ctx.count('types: listed in EXPECT (%s) - counted only' % ex)
                continue
            if o.startswith('raises'):
                ctx.violation('the spelling %s of the arguments is rejected in call %s (%s) although the unchanged library accepts it '
                              '(base %s: sampled=%r times=%r Ne=%r units=%s)' % (spelled(v), cl['what'], cl['error'], b['name'], b['sampled'], b['times'],
                                                                                 b['Ne'], (b['graph'] or {}).get('time_units')),
                              data={'kind': 'types', 'base': jsonable(b), 'variant': strip_v(v), 'call': cl['what'], 'tb': cl.get('tb')},
                              key='types:accepted-spelling-raises:%s:%s' % (entry, spelled(v)) if one else None)
            else:
                ctx.violation('the same demography and sampling spelled %s gives another result in call %s than the canonical spelling (lists of '
                              'float / int / str): deviation %s of the largest entry (base %s: sampled=%r times=%r Ne=%r units=%s)'
                              % (spelled(v), cl['what'], ('%.3g' % cl['_dev']) if cl.get('_dev') is not None else 'shape / mask / labels / graph', b['name'], b['sampled'],
                                 b['times'], b['Ne'], (b['graph'] or {}).get('time_units')),
                              data={'kind': 'types', 'base': jsonable(b), 'variant': strip_v(v), 'call': cl['what'], 'deviation': cl.get('_dev'),
                                    'got': cl.get('fs'), 'canonical': canon.get(cl['what'], {}).get('fs')},
                              key='types:spelling-changes-result:%s:%s' % (entry, spelled(v)) if one else None)
            nviol += 1
        if r.get('graph_changed'):
            ctx.violation('types stream: the caller\'s demes.Graph object of base %s is not the same after the calls' % b['name'],
                          data={'kind': 'types', 'base': jsonable(b)})
            nviol += 1
    # coverage (fail closed): every kind of every dimension in every regime it applies to
    if discover is None and not ctx.replay and not st['err']:
        missing = []
        have_reg = {b['regime'] for b, _ in st['jobs']}
        for entry, dims in ENTRY_DIMS.items():
            for dim in dims:
                for kind in DIMS[dim][1:]:
                    regs = ['output'] if entry == 'output' else [x for x in REGIMES if x in have_reg]
                    if dim in ('times', 'Ne'):
                        regs = [x for x in regs if x != 'contemporary']
                    got = [rg for rg in regs if (entry, dim, kind, rg) in covered]
                    # regime-dependent dimensions in every regime; the others in at least two regimes (one for Demes.output)
                    if (dim in REGIME_DIMS and len(got) < len(regs)) or len(got) < min(2, len(regs)):
                        missing.append('%s/%s/%s: only %s' % (entry, dim, kind, got))
        for dim, kinds in (('times', DIMS['times_none']), ('Ne', DIMS['Ne_none'])):
            for kind in kinds:
                for entry in ('SFS', 'from_demes'):
                    if not any((entry, dim, kind, rg) in covered for rg in REGIMES):
                        missing.append('%s/%s/%s' % (entry, dim, kind))
        ctx.obligation('types stream coverage: every kind of every dimension of every entry point evaluated in every regime of the sampling spec',
                       not missing, 'harness', '; '.join(missing[:12]))
    if discover:
        with open(discover, 'w') as f:
            for k in sorted(matrix):
                f.write('%-12s %-10s %-28s %s\n' % (k[0], k[1], k[2], '  '.join('%s=%s' % (rg, '|'.join(sorted(o))) for rg, o in sorted(matrix[k].items()))))
    return nviol


def jsonable(b):
    return {k: v for k, v in b.items() if not k.startswith('_')}


def strip_v(v):
    return {'entry': v['entry'], 'kinds': v['kinds'], 'all': bool(v.get('all'))}


def run_stream(ctx, bs, log_fs=None):
    st = start(ctx, bs)
    return finish(ctx, st, log_fs, discover=os.environ.get('C16_TYPES_DISCOVER'))


def targeted(ctx, why):
    """a source obligation broke: the stream again with further parameter draws per base (thorough size) before the caller reports
    that no failing input was found"""
    n = 0
    for rep in range(3):
        rng = random.Random('C16-types-targeted-%d-%d' % (ctx.seed, rep))
        bs = bases(rng)
        for b in bs:
            b['tid'] += 100 * (rep + 1); b['name'] += '/targeted-%d' % rep
        st = start(ctx, bs)
        n += finish(ctx, st, None, discover='/dev/null')
        if n:
            break
    ctx.count('types: targeted search after a broken source obligation (%s): %d violations' % (why, n))
    return n


def replay(ctx, inp):
    b = dict(inp['base'])
    v = inp.get('variant')
    vs = variants(b)
    if v is not None and v.get('kinds'):
        vs = [x for x in vs if not x['kinds']] + [dict(v)]
        for i, x in enumerate(vs):
            x['vid'] = i
    st = {'jobs': [(b, vs)], 'res': {}, 'err': []}
    if b.get('graph') is None:
        vs = [{'entry': 'output', 'kinds': {}, 'vid': 0}] + ([dict(v, vid=1)] if v and v.get('kinds') else [])
        st['jobs'] = [(b, vs)]
    def work():
        try:
            for r in lib.run_impl('c16_impl_types.py', {'cases': [payload_case(b, vs)]}, timeout=1200):
                st['res'][r['id']] = r
        except Exception as e:
            st['err'].append(str(e)[-1500:])
    t = threading.Thread(target=work); t.start(); st['threads'] = [t]
    return finish(ctx, st, None, discover='/dev/null')


# ------------------------------------------------------------------------------------------------------------------
# source obligation: the frame condition of Demes.SFS on its arguments

COPY_CALLS = {'copy.copy', 'copy.deepcopy', 'list'}
# helper -> parameters it modifies in place (subscript assignment / augmented assignment / mutating method), reviewed
MUTATING_HELPERS = {'_augment_with_ancient_samples': {'sampled_demes'}, '_convert_to_generations': {'deme_sample_times'},
                    '_apply_event': {'pop_ids'}}      # pop_ids: the importer's own list of demes present
MUT_METHODS = {'append', 'extend', 'insert', 'pop', 'remove', 'sort', 'reverse', 'clear', 'fill', 'put', 'resize', 'itemset', 'setfield',
               'update', 'setdefault', 'popitem', '__setitem__', '__iadd__', '__isub__', '__imul__'}


def _dotted(n):
    if isinstance(n, ast.Name):
        return n.id
    if isinstance(n, ast.Attribute):
        d = _dotted(n.value)
        return None if d is None else d + '.' + n.attr
    return None


def params_modified(fn):
    """names of parameters of `fn` modified in place while they still denote the argument (before any plain rebinding)"""
    params = {a.arg for a in fn.args.args + fn.args.kwonlyargs}
    out = set()
    rebound = {}
    for node in ast.walk(fn):
        if isinstance(node, (ast.Assign, ast.AnnAssign)):
            tg = node.targets if isinstance(node, ast.Assign) else [node.target]
            for t in tg:
                for e in (t.elts if isinstance(t, (ast.Tuple, ast.List)) else [t]):
                    if isinstance(e, ast.Name) and e.id in params:
                        rebound[e.id] = min(rebound.get(e.id, 10 ** 9), node.lineno)
    for node in ast.walk(fn):
        hit = None
        if isinstance(node, ast.AugAssign):
            t = node.target
            base = t.value if isinstance(t, ast.Subscript) else t
            if isinstance(base, ast.Name):
                hit = base.id
        elif isinstance(node, (ast.Assign, ast.AnnAssign)):
            tg = node.targets if isinstance(node, ast.Assign) else [node.target]
            for t in tg:
                for e in (t.elts if isinstance(t, (ast.Tuple, ast.List)) else [t]):
                    if isinstance(e, ast.Subscript) and isinstance(e.value, ast.Name) and e.value.id in params \
                            and node.lineno <= rebound.get(e.value.id, 10 ** 9):
                        out.add(e.value.id)
        elif isinstance(node, ast.Delete):
            for t in node.targets:
                if isinstance(t, ast.Subscript) and isinstance(t.value, ast.Name):
                    hit = t.value.id
        elif isinstance(node, ast.Call) and isinstance(node.func, ast.Attribute) and node.func.attr in MUT_METHODS \
                and isinstance(node.func.value, ast.Name):
            hit = node.func.value.id
        if hit in params and node.lineno <= rebound.get(hit, 10 ** 9):
            out.add(hit)
    return out


def frame_obligation(ctx):
    """returns a list of reasons why the frame condition is not established (empty = established)"""
    bad = []
    try:
        tree = ast.parse(open(DEMES_PY).read())
    except (OSError, SyntaxError) as e:
        return ['cannot parse Demes.py: %s' % e]
    funcs = {n.name: n for n in tree.body if isinstance(n, ast.FunctionDef)}
    sfs = funcs.get('SFS')
    if sfs is None:
        return ['Demes.SFS not found']
    params = [a.arg for a in sfs.args.args]
    for need in ('g', 'sampled_demes', 'sample_sizes', 'pts', 'sample_times', 'Ne'):
        if need not in params:
            bad.append('Demes.SFS has no parameter %s' % need)
    pm = params_modified(sfs)
    if pm:
        bad.append('Demes.SFS modifies its parameter(s) %s in place' % sorted(pm))
    # every helper: the parameters it modifies in place
    for name, fn in funcs.items():
        if name == 'SFS':
            continue
        m = params_modified(fn)
        if m != MUTATING_HELPERS.get(name, set()):
            bad.append('%s modifies its parameter(s) %s in place (reviewed: %s)' % (name, sorted(m), sorted(MUTATING_HELPERS.get(name, set()))))
    # what SFS hands to a modifying helper must be a local bound ONLY by a copying expression / fresh container
    binds = {}
    for node in ast.walk(sfs):
        if isinstance(node, ast.Assign):
            for t in node.targets:
                els = t.elts if isinstance(t, (ast.Tuple, ast.List)) else [t]
                for k, e in enumerate(els):
                    if isinstance(e, ast.Name):
                        val = node.value
                        if isinstance(t, (ast.Tuple, ast.List)):
                            val = val.elts[k] if isinstance(val, (ast.Tuple, ast.List)) and len(val.elts) == len(els) else ('unpack', node.value)
                        binds.setdefault(e.id, []).append(val)
    def fresh(val, depth=0):
        if isinstance(val, tuple):        # unpacked from a call: result of a helper of this module (returns new or its own argument)
            call = val[1]
            return isinstance(call, ast.Call) and _dotted(call.func) in funcs
        if isinstance(val, (ast.List, ast.ListComp, ast.Dict, ast.DictComp, ast.Constant)):
            return True
        if isinstance(val, ast.Call) and _dotted(val.func) in COPY_CALLS and len(val.args) == 1:
            return True
        if isinstance(val, ast.Name) and val.id not in params and depth < 4:
            return all(fresh(x, depth + 1) for x in binds.get(val.id, [None])) if binds.get(val.id) else False
        return False
    for node in ast.walk(sfs):
        if isinstance(node, ast.Call) and _dotted(node.func) in funcs:
            callee = funcs[_dotted(node.func)]
            cps = [a.arg for a in callee.args.args]
            mut = params_modified(callee)
            for k, a in enumerate(node.args):
                if k < len(cps) and cps[k] in mut:
                    if not (isinstance(a, ast.Name) and a.id not in params and binds.get(a.id) and all(fresh(x) for x in binds[a.id])):
                        bad.append('Demes.SFS hands %s to %s (which modifies %s in place) and it is not bound to a copy of the argument only'
                                   % (ast.unparse(a), callee.name, cps[k]))
            for kw in node.keywords:
                if kw.arg in mut:
                    a = kw.value
                    if not (isinstance(a, ast.Name) and a.id not in params and binds.get(a.id) and all(fresh(x) for x in binds[a.id])):
                        bad.append('Demes.SFS hands %s to %s (which modifies %s in place) and it is not bound to a copy of the argument only'
                                   % (ast.unparse(a), callee.name, kw.arg))
    return bad
