"""C01 -- ARGUMENT TYPES / CONTAINERS and RE-USE OF THE SAME ARGUMENT OBJECTS for the one-population entry points.

The property speaks about "a one-population model with epoch lengths T, sizes nu, ...": numbers.  Python and numpy hand numbers around as
python int / float / bool, numpy.float64 / float32 / int64 / int32 / bool_ scalars and 0-d arrays (numpy.asarray(T), numpy.squeeze(p[1:2]),
arr.reshape(())), parameter vectors as list / tuple / float64 ndarray / integer ndarray / strided view, grids as ndarray / list / tuple /
strided view.  The other generators of c01.py only ever passed python floats, and built fresh argument objects for every call.  A source
change that dispatches on the type of a number, or that WRITES INTO an argument object (`T -= this_dt` on a 0-d array is an in-place
subtraction in the CALLER's object; on a python float it only rebinds a local), is invisible to them: the first call is right and every
later use of the same object (the 2nd and 3rd grid size of an extrapolation, a repeated call, the caller's own later read) is wrong.

This module generates, on EVERY run (the lists are enumerated, not sampled; only the base values rotate with the seed):

  t_model    Demographics1D.{snm, two_epoch, three_epoch, growth, bottlegrowth}, DFE.DemogSelModels.{equil, two_epoch_sel} through
             make_extrap_func / make_extrap_log_func (three grid sizes, the SAME params / ns / pts objects for all of them) at timescale
             factors 1e-3, 1e-4 and 1e-3 again (the same objects for all three calls), and called directly twice:
             every entry of params in every type of SCALAR_TYPES that can spell its value (all entries at once; one entry alone, the others
             python floats), params as list / tuple / float64 / float32 / int64 / strided view / reversed view / object array, the sample size
             and the grid sizes as python int / numpy.int64 / numpy.int32 in list / tuple / ndarray;
  t_onepop   Integration.one_pop, both drivers (numbers; every parameter a function of time that returns the SAME typed object at every
             step): each of T, initial_t, nu, gamma, h, theta0, beta alone and all together in every type, the grid as list / tuple / strided
             view / read-only, the density as strided view / read-only, called twice on the same objects;
  t_eq       PhiManip.phi_1D / phi_1D_genic / phi_1D_snm: each of nu, theta0, gamma, h, beta alone and all together in every type, grid
             containers, called twice;
  t_fromphi  Spectrum.from_phi in 1-D: sample size types / containers, grid and density containers, called twice.

Required of every variant the unchanged library accepts (table ACCEPT below):
  * same result as the SAME call with every value spelled canonically (python floats / ints, float64 ndarray grid) -- 1e-12 of the largest
    entry ('same'; observed bit-identical), 2e-3 for float32 spellings ('close': numpy 2 promotion turns the time arithmetic into float32);
  * the C01 predicates on the variant's own output: the spectrum at timescale factor 1e-4 is within 1.5 % of the coalescent / equilibrium
    oracle evaluated in Coq (one oracle evaluation per base history, shared by all its variants), the error shrinks with the time step;
  * every argument object is bit-for-bit unchanged afterwards (class, dtype, shape, strides, bytes; for containers the identity of every
    element);
  * an immediate repeat on the same objects gives the bit-identical result.
A variant marked 'maybe' may raise on the unchanged library (then it is only counted); when it runs all of the above is required.
'reject' = the unchanged library raises; a variant that runs is still held to argument-unchanged and repeat.

What the unchanged library (8d9149b snapshot of /repo) accepts was established by running it (C01_TYPES_DISCOVER=1 prints the outcome of
every variant; re-run it when the table is reviewed):
  * one_pop: T in every type incl. 0-d arrays ('same'; float32 'close').  0-d arrays for nu, gamma, h, theta0, beta are not numpy.isscalar ->
    the time-function path -> Misc.ensure_1arg_func raises ('maybe').  initial_t as a 0-d INTEGER / bool array fails on `current_t += this_dt`
    (casting) in the constant driver ('maybe'); 0-d float 'same'.  Through a function of time every returned type is accepted.
  * phi_1D*: every scalar type; 0-d arrays work ('same') or raise in the quad path ('maybe').
  * from_phi: ns entries int / numpy ints, list / tuple / ndarray.
  * model functions: whatever one_pop / phi_1D accept entry by entry.
"""
import json, math, os, random
from fractions import Fraction
from harness import lib

SCALAR_TYPES = ['int', 'bool', 'np.float64', 'np.float32', 'np.int64', 'np.int32', 'np.bool_', '0d-float', '0d-float32', '0d-int', '0d-bool']
FLOAT_TYPES = ['np.float64', 'np.float32', '0d-float', '0d-float32']
PCONTS = ['tuple', 'f64', 'f32', 'i64', 'view', 'negview', 'object']
TOL_SAME = 1e-12
TOL_CLOSE = 2e-3
KEY_T0 = 'one_pop:initial_t-0d-array-advanced-in-place'

def spellable(ty, v):
    if ty in (None, 'float', 'np.float64', '0d-float'):
        return True
    if ty in ('np.float32', '0d-float32'):
        import struct
        return struct.unpack('f', struct.pack('f', v))[0] == v
    if 'bool' in ty:
        return v in (0, 1)
    return v == int(v)

def is32(ty):
    return ty is not None and 'float32' in ty or ty == 'f32'

# ---- reviewed acceptance table -------------------------------------------------------------------------------------------------------
def accept_scalar(entry, arg, ty, form='scalar'):
    """entry: 'one_pop' | 'eq'; returns 'same' | 'close' | 'maybe'"""
    if ty in (None, 'float'):
        return 'same'
    zero_d = ty.startswith('0d-')
    if entry == 'one_pop':
        if arg == 'T':
            return 'close' if is32(ty) else 'same'
        if arg == 'initial_t':
            if zero_d and ty in ('0d-int', '0d-bool'):
                return 'maybe'
            return 'close' if is32(ty) else 'same'
        if zero_d and form == 'scalar':
            return 'maybe'
        return 'close' if is32(ty) else 'same'
    if entry == 'eq':
        if zero_d:
            return 'maybe'
        return 'close' if is32(ty) else 'same'
    raise ValueError(entry)

def worst(accs):
    accs = list(accs)
    if 'maybe' in accs:
        return 'maybe'
    if 'close' in accs:
        return 'close'
    return 'same'

# which one_pop / phi_1D argument every entry of a model's params feeds (for the acceptance table)
MODEL_ARGS = {'snm': [], 'two_epoch': [('one_pop', 'nu'), ('one_pop', 'T')],
              'three_epoch': [('one_pop', 'nu'), ('one_pop', 'nu'), ('one_pop', 'T'), ('one_pop', 'T')],
              'growth': [('fn', 'nu'), ('fn', 'T')], 'bottlegrowth': [('fn', 'nu'), ('fn', 'nu'), ('fn', 'T')],
              'equil': [('eq', 'gamma')], 'two_epoch_sel': [('one_pop', 'nu'), ('one_pop', 'T'), ('both', 'gamma')]}

def accept_model(model, ptypes, pcont):
    accs = []
    if pcont in ('f32',):
        accs.append('close')
    if pcont == 'object':
        accs.append('maybe')
    for (entry, arg), ty in zip(MODEL_ARGS[model], ptypes):
        if ty in (None, 'float'):
            continue
        if entry == 'fn':
            # growth / bottlegrowth compute with the entries inside a function of time (numpy.exp(numpy.log(nu) * t / T)): 0-d T is also
            # handed to one_pop as T ('same'); integer 0-d arrays work as well
            accs.append('close' if is32(ty) else 'same')
        elif entry == 'both':
            accs.append(worst([accept_scalar('eq', arg, ty), accept_scalar('one_pop', arg, ty)]))
        else:
            accs.append(accept_scalar(entry, arg, ty))
    return worst(accs)

# ---- generators -----------------------------------------------------------------------------------------------------------------------
def model_bases(rng):
    """(model, params, oracle) -- integer-valued bases (every number type can spell them; between the two bases of a model every entry
    is once 0 / 1 (bool) and once not) and dyadic-fraction bases (float types)"""
    T1 = rng.choice([1.0, 2.0]); nuA = rng.choice([2.0, 3.0]); nuB = rng.choice([2.0, 4.0])
    fT = rng.choice([0.3125, 0.25, 0.375]); fnu = rng.choice([2.5, 0.5, 3.5]); fnu2 = rng.choice([0.3125, 4.5])
    g = float(rng.choice([-2, -3, 2]))
    def ce(nu, T): return {'kind': 'const', 'nu': nu, 'T': T, 'theta': 1.0, 'gamma': 0.0}
    def ee(a, b, T): return {'kind': 'exp', 'nu_start': a, 'nu_end': b, 'T': T, 'theta': 1.0, 'gamma': 0.0}
    B = []
    B.append(('snm', [], {'hist': []}))
    B.append(('two_epoch', [nuA, 1.0], {'hist': [ce(nuA, 1.0)]}))
    B.append(('two_epoch', [1.0, 2.0], {'hist': [ce(1.0, 2.0)]}))
    B.append(('two_epoch', [fnu, fT], {'hist': [ce(fnu, fT)]}))
    B.append(('three_epoch', [nuA, nuB + 1, 1.0, T1], {'hist': [ce(nuA, 1.0), ce(nuB + 1, T1)]}))
    B.append(('three_epoch', [1.0, 1.0, 2.0, 1.0], {'hist': [ce(1.0, 2.0), ce(1.0, 1.0)]}))
    B.append(('three_epoch', [fnu2, fnu, fT, 0.15625], {'hist': [ce(fnu2, fT), ce(fnu, 0.15625)]}))
    B.append(('growth', [nuB, 1.0], {'hist': [ee(1.0, nuB, 1.0)]}))
    B.append(('bottlegrowth', [nuA, nuB + 1, 1.0], {'hist': [ee(nuA, nuB + 1, 1.0)]}))
    B.append(('equil', [g], {'sel': {'g': g, 'scale': 1.0, 'res': abs(g)}}))
    B.append(('equil', [1.0], {'sel': {'g': 1.0, 'scale': 1.0, 'res': 1.0}}))
    B.append(('equil', [-2.5], {'sel': {'g': -2.5, 'scale': 1.0, 'res': 2.5}}))
    B.append(('two_epoch_sel', [nuA, 1.0, 0.0], {'hist': [ce(nuA, 1.0)]}))
    B.append(('two_epoch_sel', [1.0, T1, g], {'sel': {'g': g, 'scale': 1.0, 'res': 3.5 * abs(g)}}))
    B.append(('two_epoch_sel', [fnu, fT, 0.0], {'hist': [ce(fnu, fT)]}))
    return B

def gen_models(ctx, rng, thorough_extra=False):
    cases = []
    for bi, (model, params, orc) in enumerate(model_bases(rng)):
        k = len(params)
        n = rng.choice([5, 6, 7])
        p0 = rng.randint(40, 46) + (int(8 * orc['sel']['res']) if 'sel' in orc else 0)
        extrap = ['lin', 'log'][bi % 2]
        base = {'kind': 't_model', 'model': model, 'params': params, 'ptypes': [None] * k, 'pcont': 'list', 'n': n, 'ntype': 'int', 'nscont': 'tuple',
                'pts_l': [p0, p0 + 10, p0 + 20], 'ptstype': 'int', 'ptscont': 'list', 'extrap': extrap, 'tfs': [1e-3, 1e-4, 1e-3],
                '_orc': orc, '_base': bi, '_acc': 'same', '_what': 'canonical'}
        canon = dict(base); cases.append(canon)
        dcanon = dict(base, extrap=None, tfs=[1e-3, 1e-3], _what='canonical, direct call'); cases.append(dcanon)
        heavy = model in ('growth', 'bottlegrowth')
        def add(cn, what, **kw):
            v = dict(cn, _canon=cn, _what=what, **kw)
            v['_acc'] = accept_model(model, v['ptypes'], v['pcont'])
            if kw.get('ntype') in ('float', 'np.float64') or kw.get('ptstype') in ('float', 'np.float64'):
                v['_acc'] = 'maybe'
            cases.append(v)
        for ty in SCALAR_TYPES:
            pt = [ty if spellable(ty, v) else None for v in params]
            if k and any(pt):
                add(canon, 'every entry of params as %s' % ty, ptypes=pt)
                if ty.startswith('0d') and not heavy:
                    add(dcanon, 'every entry of params as %s, direct call' % ty, ptypes=pt)
            if k > 1:
                for j in range(k):
                    if spellable(ty, params[j]) and not (heavy and ty in ('np.int32', 'np.bool_', 'bool', 'int')):
                        pt = [None] * k; pt[j] = ty
                        add(canon, 'params[%d] as %s' % (j, ty), ptypes=pt)
                        if ty in ('0d-float', '0d-int', 'np.float64') and not heavy:
                            add(dcanon, 'params[%d] as %s, direct call' % (j, ty), ptypes=pt)
        if k:
            for pc in PCONTS:
                if pc == 'f32' and not all(spellable('np.float32', v) for v in params):
                    continue
                if pc == 'i64' and not all(v == int(v) for v in params):
                    continue
                add(canon, 'params as %s' % pc, pcont=pc)
                if pc in ('f64', 'view'):
                    add(dcanon, 'params as %s, direct call' % pc, pcont=pc)
            add(canon, 'params as tuple of np.float64', pcont='tuple', ptypes=['np.float64'] * k)
            # one 0-d entry inside a tuple / an object array (what numpy.squeeze / an optimiser wrapper hands over)
            for j in range(k):
                pt = [None] * k; pt[j] = '0d-float'
                add(canon, 'params as tuple, params[%d] as 0d-float' % j, pcont='tuple', ptypes=pt)
        if not heavy:
            for nt, nc in [('np.int64', 'tuple'), ('np.int32', 'list'), ('int', 'list'), ('int', 'i64'), ('int', 'i32'), ('0d-int', 'tuple'), ('np.float64', 'tuple')]:
                add(canon, 'ns as %s of %s' % (nc, nt), ntype=nt, nscont=nc)
            for pt_, pc in [('np.int64', 'list'), ('np.int32', 'tuple'), ('int', 'tuple'), ('int', 'i64'), ('int', 'i32'), ('0d-int', 'list'), ('np.float64', 'list')]:
                add(canon, 'pts_l as %s of %s' % (pc, pt_), ptstype=pt_, ptscont=pc)
            for pt_ in ['np.int64', 'np.int32', '0d-int']:
                add(dcanon, 'pts as %s, direct call' % pt_, ptstype=pt_)
    return cases

ONEPOP_ARGS = ['T', 'initial_t', 'nu', 'gamma', 'h', 'theta0', 'beta']

def gen_onepop(ctx, rng):
    cases = []
    A = {'T': 2.0, 'initial_t': 1.0, 'nu': float(rng.choice([2, 3])), 'gamma': float(rng.choice([-2, 2, -1])), 'h': 0.0, 'theta0': 2.0, 'beta': 2.0}
    Bv = {'T': 1.0, 'initial_t': 0.0, 'nu': 1.0, 'gamma': 1.0, 'h': 1.0, 'theta0': 1.0, 'beta': 1.0}
    F = {'T': 0.3125, 'initial_t': 0.0625, 'nu': rng.choice([2.5, 0.5]), 'gamma': -1.5, 'h': 0.25, 'theta0': 1.5, 'beta': 0.5}
    for vi, vals in enumerate((A, Bv, F)):
        for form in ('scalar', 'func'):
            base = {'kind': 't_onepop', 'pts': rng.randint(14, 22), 'vals': vals, 'types': {}, 'form': form, 'tf': 1e-2, 'reps': 2, 'gamma0': -1.0,
                    '_acc': 'same', '_what': 'canonical', '_base': 'onepop%d%s' % (vi, form)}
            canon = dict(base); cases.append(canon)
            def add(what, **kw):
                v = dict(canon, _canon=canon, _what=what, **kw)
                v['_acc'] = worst(accept_scalar('one_pop', a, t, form) for a, t in v['types'].items())
                if v['types'].get('T') in ('np.bool_', '0d-bool') and v['types'].get('initial_t') in ('np.bool_', '0d-bool'):
                    v['_acc'] = 'maybe'           # T - initial_t: numpy refuses to subtract booleans
                if form == 'scalar' and v['types'].get('initial_t') in ('0d-float', '0d-float32') and 'initial_t' not in (v.get('omit') or []):
                    v['_known'] = KEY_T0
                cases.append(v)
            for ty in SCALAR_TYPES:
                allt = {a: ty for a in ONEPOP_ARGS if spellable(ty, vals[a])}
                if not allt:
                    continue
                add('every numeric argument as %s' % ty, types=allt)
                if ty.startswith('0d'):
                    add('T and initial_t as %s' % ty, types={a: ty for a in ('T', 'initial_t') if a in allt})
                for a in allt:
                    add('%s as %s' % (a, ty), types={a: ty})
            add('T as 0d-float by keyword', types={'T': '0d-float'}, T_keyword=True)
            add('T as 0d-float, initial_t left out', types={'T': '0d-float'}, omit=['initial_t']) if vals['initial_t'] == 0 else None
            for g in ('list', 'tuple', 'strided', 'negstrided', 'readonly'):
                add('grid as %s' % g, grid_as=g)
            for p in ('strided', 'readonly'):
                add('density as %s' % p, phi_as=p)
            add('grid as list, density strided, T as 0d-float', grid_as='list', phi_as='strided', types={'T': '0d-float'})
    return cases

def gen_eq(ctx, rng):
    cases = []
    A = {'nu': 2.0, 'theta0': 2.0, 'gamma': float(rng.choice([-2, 2, -3])), 'h': 0.0, 'beta': 2.0}
    Bv = {'nu': 1.0, 'theta0': 1.0, 'gamma': 1.0, 'h': 1.0, 'beta': 1.0}
    Z = {'nu': 3.0, 'theta0': 1.0, 'gamma': 0.0, 'h': 0.5, 'beta': 1.0}
    F = {'nu': 2.5, 'theta0': 1.5, 'gamma': -1.5, 'h': 0.25, 'beta': 0.5}
    for vi, vals in enumerate((A, Bv, Z, F)):
        for fn in ('phi_1D', 'phi_1D_genic', 'phi_1D_snm'):
            names = {'phi_1D': ['nu', 'theta0', 'gamma', 'h', 'beta'], 'phi_1D_genic': ['nu', 'theta0', 'gamma', 'beta'], 'phi_1D_snm': ['nu', 'theta0', 'beta']}[fn]
            v0 = {a: vals[a] for a in names}
            base = {'kind': 't_eq', 'fn': fn, 'pts': rng.randint(10, 18), 'vals': v0, 'types': {}, 'reps': 2, '_acc': 'same', '_what': 'canonical', '_base': 'eq%d%s' % (vi, fn)}
            canon = dict(base); cases.append(canon)
            def add(what, **kw):
                v = dict(canon, _canon=canon, _what=what, **kw)
                v['_acc'] = worst(accept_scalar('eq', a, t) for a, t in v['types'].items())
                cases.append(v)
            for ty in SCALAR_TYPES:
                allt = {a: ty for a in names if spellable(ty, v0[a])}
                if not allt:
                    continue
                add('every numeric argument as %s' % ty, types=allt)
                for a in allt:
                    add('%s as %s' % (a, ty), types={a: ty})
            for g in ('list', 'tuple', 'strided', 'negstrided', 'readonly'):
                add('grid as %s' % g, grid_as=g)
                if g in ('list', 'tuple'):
                    cases[-1]['_acc'] = 'maybe'        # phi_1D* compute with the grid directly (1 - xx): sequences are rejected
    return cases

def gen_fromphi(ctx, rng):
    cases = []
    for rep in range(2):
        n = rng.randint(3, 12)
        base = {'kind': 't_fromphi', 'pts': rng.randint(max(n, 10), 30), 'n': n, 'ntype': 'int', 'nscont': 'tuple', 'reps': 2, 'gamma0': [-1.0, 2.0][rep],
                '_acc': 'same', '_what': 'canonical', '_base': 'fromphi%d' % rep}
        canon = dict(base); cases.append(canon)
        def add(what, acc='same', **kw):
            cases.append(dict(canon, _canon=canon, _what=what, _acc=acc, **kw))
        for nt in ('int', 'np.int64', 'np.int32', '0d-int', 'np.float64', 'float'):
            for nc in ('tuple', 'list', 'i64', 'i32'):
                if nc.startswith('i') and nt != 'int':
                    continue
                if (nt, nc) != ('int', 'tuple'):
                    add('ns as %s of %s' % (nc, nt), acc='maybe' if nt in ('np.float64', 'float', '0d-int') else 'same', ntype=nt, nscont=nc)
        for g in ('list', 'tuple', 'strided', 'negstrided', 'readonly'):
            add('grid as %s' % g, grid_as=g)
        for p in ('strided', 'readonly', 'list'):
            add('density as %s' % p, acc='maybe' if p == 'list' else 'same', phi_as=p)
        add('grids handed over as a list', xxcont='list')
        add('grid as list in a list, density strided, ns list of np.int64', grid_as='list', xxcont='list', phi_as='strided', ntype='np.int64', nscont='list')
    return cases

def generate(ctx, extra=False):
    rng = random.Random('C01-types-%d%s' % (ctx.seed, '-x' if extra else ''))
    cases = gen_models(ctx, rng) + gen_onepop(ctx, rng) + gen_eq(ctx, rng) + gen_fromphi(ctx, rng)
    if extra or not ctx.quick:
        # a second (third) set of base values
        for rep in range(1 if ctx.quick else 2):
            cases += gen_models(ctx, rng) + gen_onepop(ctx, rng)
    for i, c in enumerate(cases):
        c['id'] = 50000 + i
    return cases

def pub(c):
    """the case as sent to the implementation / stored in a replay (no private fields)"""
    return {k: v for k, v in c.items() if not k.startswith('_')}

def start(ctx, extra=False):
    """the stream is evaluated in the background (own interpreter) while the other parts run"""
    import concurrent.futures
    cases = generate(ctx, extra)
    if ctx.replay:
        rp = json.load(open(ctx.replay))
        inp = rp.get('input') or {}
        c = inp.get('case')
        if isinstance(c, dict) and str(c.get('kind', '')).startswith('t_'):
            v = dict(c, id=50001, _what=inp.get('what', 'replayed variant'), _acc=inp.get('accept', 'same'), _base='replay')
            cn = dict(inp['canonical_case'], id=50000, _what='canonical', _acc='same', _base='replay')
            if inp.get('oracle'):
                cn['_orc'] = inp['oracle']; v['_orc'] = inp['oracle']
            v['_canon'] = cn
            cases = [cn, v]
        elif isinstance(c, dict):
            return [], None
    ex = concurrent.futures.ThreadPoolExecutor(1)
    fut = ex.submit(lib.run_impl, 'c01_impl_types.py', [pub(c) for c in cases], 3000, {'C01_POOL': '3'})
    ex.shutdown(wait=False)
    return cases, fut

def call_desc(c):
    if c['kind'] == 't_model':
        tgt = {'snm': 'Demographics1D.snm', 'equil': 'DFE.DemogSelModels.equil', 'two_epoch_sel': 'DFE.DemogSelModels.two_epoch_sel'}.get(c['model'], 'Demographics1D.' + c['model'])
        w = {'lin': 'Numerics.make_extrap_func(%s)', 'log': 'Numerics.make_extrap_log_func(%s)', None: '%s'}[c['extrap']] % tgt
        return '%s(params=%r [entry types %r, container %s], ns=(%r,) [%s in %s], pts=%r [%s in %s]), same objects for the calls at timescale_factor %r' % (
            w, c['params'], [t or 'float' for t in c['ptypes']], c['pcont'], c['n'], c['ntype'], c['nscont'],
            c['pts_l'] if c['extrap'] else c['pts_l'][0], c['ptstype'], c['ptscont'] if c['extrap'] else 'scalar', c['tfs'])
    if c['kind'] == 't_onepop':
        return 'Integration.one_pop(phi_1D(xx, gamma=%r), xx=default_grid(%d) [%s], %s) [types %r; parameters as %s; density %s], timescale_factor %r, called %d times on the same objects' % (
            c.get('gamma0'), c['pts'], c.get('grid_as', 'ndarray'), ', '.join('%s=%r' % (a, c['vals'][a]) for a in ONEPOP_ARGS if a not in (c.get('omit') or [])),
            c['types'], 'numbers' if c['form'] == 'scalar' else 'functions of time returning the same object', c.get('phi_as', 'ndarray'), c['tf'], c['reps'])
    if c['kind'] == 't_eq':
        return 'PhiManip.%s(default_grid(%d) [%s], %s) [types %r], called %d times on the same objects' % (
            c['fn'], c['pts'], c.get('grid_as', 'ndarray'), ', '.join('%s=%r' % kv for kv in c['vals'].items()), c['types'], c['reps'])
    return 'Spectrum.from_phi(phi_1D(xx, nu=2, gamma=%r) [%s], ns=(%d,) [%s in %s], (xx,) [%s of %s]), xx=default_grid(%d), called %d times on the same objects' % (
        c.get('gamma0'), c.get('phi_as', 'ndarray'), c['n'], c['ntype'], c['nscont'], c.get('xxcont', 'tuple'), c.get('grid_as', 'ndarray'), c['pts'], c['reps'])

def nums(v):
    return [x if not isinstance(x, str) else float(x) for x in v]

def dev(a, b, spectrum):
    a = nums(a); b = nums(b)
    if len(a) != len(b):
        return float('inf')
    if spectrum:
        a = a[1:-1]; b = b[1:-1]
    if not a:
        return 0.0
    if not all(math.isfinite(x) for x in a + b):
        return 0.0 if [repr(x) for x in a] == [repr(x) for x in b] else float('inf')
    s = max(max(abs(x) for x in b), 1e-300)
    return max(abs(x - y) for x, y in zip(a, b)) / s

def finish(ctx, cases, fut, c01):
    """predicates on the implementation results + the oracle in Coq.  c01 = the props module (helpers)"""
    if fut is None:
        return 0
    res = fut.result()
    byid = {r['id']: r for r in res}
    discover = os.environ.get('C01_TYPES_DISCOVER')
    nviol = [0]
    seen_keys = {}
    def violate(kind, c, what, extra=None):
        # one violation per (entry point, predicate, what changed); the others of the class are listed
        key = (c['kind'], c.get('model') or c.get('fn') or c.get('form'), kind)
        if c.get('_known') and kind in ('argument modified', 'repeat differs', 'differs from canonical'):
            key = c['_known']
            ctx.obligations[-1]['known_key'] = key
        data = {'case': pub(c), 'canonical_case': pub(c.get('_canon') or c), 'what': c['_what'], 'accept': c['_acc'], 'impl': byid.get(c['id']),
                'canonical_impl': byid.get((c.get('_canon') or c)['id'])}
        if '_orc' in c:
            data['oracle'] = c['_orc']
        if extra:
            data.update(extra)
        seen_keys.setdefault(key, []).append((what, data))
    oracle_runs = {}
    for c in cases:
        r = byid[c['id']]
        canon = c.get('_canon')
        spectrum = c['kind'] in ('t_model', 't_fromphi')
        ctx.count('types %s: %s' % (c['kind'], c['_acc']))
        desc = '%s: %s' % (c['_what'], call_desc(c))
        if 'error' in r:
            if discover:
                print('DISCOVER %s | %s | %s | ERROR %s' % (c['kind'], c.get('model') or c.get('fn') or c.get('form'), c['_what'], r['error']))
            if c['_acc'] == 'maybe' and canon is not None:
                ctx.count('types: spelling rejected by the library (counted only)')
                continue
            ctx.obligation('types %d runs: %s' % (c['id'], desc), False, 'predicate', r['error'])
            violate('raises', c, 'a one-population entry point raises %s for a spelling the unchanged library accepts -- %s' % (r['error'], desc))
            continue
        calls = r['calls']
        ctx.case(signature=('types', c['kind'], c['_base'], c['_what']) if canon is not None else None)
        # (1) argument objects unchanged
        ok = not r['changed']
        ctx.obligation('types %d argument objects unchanged: %s' % (c['id'], desc), ok, 'predicate', json.dumps(r['changed'])[:400])
        if not ok:
            ch = r['changed'][0]
            violate('argument modified', c, 'a one-population entry point modifies its caller\'s argument object: %s was %s, is %s after the calls (%d argument objects changed) -- %s' % (
                ch['arg'], ch['before'], ch['after'], len(r['changed']), desc))
        # (2) immediate repeat on the same objects (model calls: the third call repeats the timescale factor of the first)
        rep = dev(calls[-1], calls[0], False)
        ok = rep == 0.0
        ctx.obligation('types %d repeated call on the same objects gives the same result: %s' % (c['id'], desc), ok, 'predicate', 'rel dev %.3g' % rep)
        if not ok:
            violate('repeat differs', c, 'the same call repeated on the same argument objects gives a different result (differs by %.3g of the largest entry) -- %s' % (rep, desc), {'dev': rep})
        # (3) same result as the canonical spelling
        if canon is not None and 'error' not in byid[canon['id']]:
            cc = byid[canon['id']]['calls']
            d = max(dev(a, b, spectrum) for a, b in zip(calls, cc))
            tol = TOL_CLOSE if c['_acc'] == 'close' or (c['_acc'] == 'maybe' and any(is32(t) for t in list((c.get('types') or {}).values()) + list(c.get('ptypes') or []))) else TOL_SAME
            ok = d <= tol
            if discover:
                print('DISCOVER %s | %s | %s | dev %.3g %s' % (c['kind'], c.get('model') or c.get('fn') or c.get('form'), c['_what'], d, '' if ok else 'BEYOND %g' % tol))
            ctx.obligation('types %d same result as the canonical spelling: %s' % (c['id'], desc), ok, 'predicate', 'rel dev %.3g tol %g' % (d, tol))
            if not ok:
                violate('differs from canonical', c, 'the result depends on the TYPE in which the same values are passed: differs by %.3g of the largest entry from the call with python floats / ints (tolerance %g) -- %s' % (d, tol, desc), {'dev': d})
        # (4) the C01 predicate itself: oracle
        if c['kind'] == 't_model' and c['extrap'] and '_orc' in c and len(calls) >= 2:
            f3 = nums(calls[0])[1:-1]; f4 = nums(calls[1])[1:-1]
            if all(math.isfinite(v) for v in f3 + f4):
                oracle_runs.setdefault((c['_base'], c['model'], c['n'], json.dumps(c['_orc'], sort_keys=True)), []).append((c, f3, f4))
            else:
                violate('non-finite', c, 'one-population spectrum has non-finite entries -- %s' % desc)
    # oracle files: one evaluation per base
    files = []; owners = {}; alias = {}
    for gi, ((bname, model, n, orcj), runs) in enumerate(sorted(oracle_runs.items(), key=lambda kv: str(kv[0]))):
        orc = json.loads(orcj)
        if 'sel' in orc:
            g = orc['sel']['g']
            oexp = 'sel_oracle {| sc_n := %d%%nat; sc_theta := %s; sc_g := %s; sc_terms := %d%%nat; sc_fs3 := []; sc_fs4 := [] |}' % (
                n, lib.q(Fraction(orc['sel']['scale'])), lib.q(g), int(8 * abs(g)) + 80)
        else:
            oexp = 'hist_th_oracle {| ht_n := %d%%nat; ht_eps := %s; ht_thA := %s; ht_fs3 := []; ht_fs4 := [] |}' % (n, c01.coq_epochs_th(orc['hist']), lib.q(1.0))
        # variants whose spectra are bit-identical (on the unchanged tree: nearly all of them) share one comparison
        uniq = {}
        for c, f3, f4 in runs:
            uniq.setdefault((tuple(f3), tuple(f4)), []).append(c)
            owners[c['id']] = c
        files.append(c01.shared_oracle_file('C01_types_%d' % gi, oexp, [(cs[0]['id'], list(k3), list(k4)) for (k3, k4), cs in uniq.items()]))
        for cs in uniq.values():
            for c in cs[1:]:
                alias[c['id']] = cs[0]['id']
    errs = c01.run_files(ctx, files, 'types') if files else {}
    for cid, rid in alias.items():
        if rid in errs:
            errs[cid] = errs[rid]
    worst_e = 0.0
    for cid, c in owners.items():
        desc = '%s: %s' % (c['_what'], call_desc(c))
        if cid not in errs:
            ctx.obligation('types %d oracle evaluated' % cid, False, 'correspondence', 'no result from Coq')
            continue
        e3, e4 = errs[cid]
        p0 = c['pts_l'][0]
        ok15 = e4 <= 0.015
        okconv = e4 <= max(0.3 * e3, c01.conv_floor(p0, 'sel' in c['_orc']))
        worst_e = max(worst_e, e4)
        ctx.obligation('types %d within 1.5%% of the oracle at 1e-4: %s' % (cid, desc), ok15, 'predicate', 'err %.4g / %.4g' % (e3, e4))
        ctx.obligation('types %d error shrinks with the time step: %s' % (cid, desc), okconv, 'predicate', 'err %.4g / %.4g' % (e3, e4))
        if not ok15:
            violate('oracle', c, 'one-population spectrum is %.2f%% from exact theory at timescale_factor 1e-4 (%.2f%% at 1e-3) when the same values are passed in another type / container (canonical spelling: %s) -- %s' % (
                100 * e4, 100 * e3, ('%.2f%%' % (100 * errs[c['_canon']['id']][1])) if c.get('_canon') and c['_canon']['id'] in errs else 'n/a', desc), {'err': [e3, e4]})
        elif not okconv:
            violate('oracle-conv', c, 'error against exact theory does not shrink with the time step: %.3g at 1e-3, %.3g at 1e-4 -- %s' % (e3, e4, desc), {'err': [e3, e4]})
    if owners:
        ctx.err('typed spectra vs oracle at 1e-4', math.floor(math.log2(worst_e)) if worst_e > 0 else -10000, '1.5% per polymorphic entry')
    # report: the oracle violations first (failing inputs of the property proper)
    order = {'oracle': 0, 'oracle-conv': 1, 'differs from canonical': 2, 'repeat differs': 3, 'argument modified': 4, 'non-finite': 5, 'raises': 6}
    for key in sorted(seen_keys, key=lambda k: (5, k) if isinstance(k, str) else (order.get(k[2], 9), str(k))):
        items = seen_keys[key]
        what, data = items[0]
        if key == KEY_T0:
            items = sorted(items, key=lambda it: 0 if 'modifies' in it[0] else 1)
            what, data = items[0]
            what = ('Integration.one_pop with constant parameters advances the time IN the initial_t object when it is a 0-d float array (current_t = initial_t; current_t += this_dt): '
                    'the caller\'s initial_t ends up equal to T, so a second use of the same object (next grid size of an extrapolation, repeated call) integrates for zero time -- ' + what)
            if len(items) > 1:
                what += '  [+%d more variants / predicates of the same defect]' % (len(items) - 1)
            ctx.violation(what, data=data, key=KEY_T0)
            continue
        if len(items) > 1:
            what += '  [+%d more variants of the same entry point fail the same predicate: %s]' % (len(items) - 1, '; '.join(d['what'] for _, d in items[1:8]))
        ctx.violation(what, data=data)
        nviol[0] += 1
    return nviol[0]
