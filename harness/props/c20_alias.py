"""C20 — aliasing of results: the ALIAS obligation and the mutate-the-result / mutate-the-argument history stream.

An array-like (ndarray, masked array, Spectrum, list / tuple / dict of those) is a bundle of BUFFERS: the data, the mask (when it is an
array: numpy.ma.getmask), and the label lists (pop_ids / extrap_x when they are lists).  "Results are independent of call history" needs
more than "every single call leaves its arguments unchanged": a result that shares a buffer with an argument (or with a module-level /
cached object) makes a LATER, documented in-place operation on one object (fs.mask[1,:] = True, mask_corners(), acc += b) change the other,
after which ll / ll_multinom / S / sum of the untouched object differ from a fresh interpreter.  Props/C20.v: C20_arith_copy_* (frame
property on both buffers), C20_arith_nocopy_refuted.

(1) ALIAS obligation, on EVERY evaluated call of the catalogue (references, histories, near-collision pairs, the directed list below):
    no buffer of the result shares memory (numpy.shares_memory; identity for lists / dicts) with any buffer of any argument or with any
    object held at module level of a dadi module (caches included), except the pairs of ALLOWED below.
(2) mutate stream, per call R = f(A...) of the directed list (every Spectrum operator x operand kind x side, numpy-level operations,
    Spectrum methods, Numerics / Misc / Inference array helpers, PhiManip, integrators d=1..5, from_phi d=1..5, from_demes, low-pass
    wrappers, optimiser helpers, models): in forks of a pristine interpreter
       P_A : g(A)                       (sum, S, ll, ll_multinom, from_phi, value digest)
       P_R : R = f(A), g(R)
       M   : per edit kind (mask: flip one entry; data: x*2+1 in place; list: append) with freshly built arguments:
             R = f(A); edit R;  A must be bit-for-bit what it was (raw bytes of data AND mask, lists), g(A) = its P_A value, f(A) again = P_R value;
             R = f(A); edit A;  R must be bit-for-bit what it was, g(R) = its P_R value.
    A changed buffer is excused exactly when ALLOWED lists it as a documented view for that operation family.

ALLOWED was built from the unchanged tree (C20_ALIAS_DISCOVER=<file> ./check C20 dumps what a tree does) and reviewed entry by entry; an
entry is (set of operation families, result buffer, argument buffer, reason).  Nothing is learnt at run time.
"""
import copy, json, os, re

OPS = ['add', 'sub', 'mul', 'truediv', 'floordiv', 'pow']
BIN = ['Spectrum.__%s__' % o for o in OPS]
RBIN = ['Spectrum.__r%s__' % o for o in OPS]
IBIN = ['Spectrum.__i%s__' % o for o in OPS]

# reasons
R_POPIDS = ('Spectrum carries its label list by reference: Spectrum.__array_finalize__ / __array_wrap__ / _update_from do `self.pop_ids = obj.pop_ids` '
            '(numpy.ma propagates subclass attributes through _update_from / _optinfo without copying) and the constructor stores the list it is given; '
            'the documented way to change labels is the assignment fs.pop_ids = [...], which re-binds')
R_INPLACE = 'the augmented-assignment twin is the documented in-place form (Spectrum_mod.py: "Methods that modify the Spectrum in-place"): it returns self'
R_UNARY = ('numpy.ma unary operations without a domain (_MaskedUnaryOperation.__call__: `masked_result._mask = m`, negative / positive / absolute / exp) '
           'hand the operand\'s mask to the result un-copied and mark it shared (numpy.ma documented "sharedmask"); numpy, not dadi, code')
R_VIEW = 'numpy basic indexing / reshaping / transposition returns a view of data and mask (numpy documentation: "basic slicing returns a view")'
R_REORDER = ('Spectrum.reorder_pops / PhiManip.reorder_pops are `transpose(newaxes)`: a transposed view, as extracted by the translator '
             '(entry_protocol.reorder_descriptor) and exercised by the layout differential')
R_REVERSE = 'Numerics.reverse_array is `arr[(slice(None, None, -1),)*ndim]`: basic slicing, a negatively strided view'
R_PASS = 'documented pass-through: the docstring says the arguments themselves are returned'
R_MEMO = ('memoised accessor: returns the object stored in its module-level dictionary (docstring: "This version uses a cache to speed up repeated evaluations"); '
          'the callers inside dadi only read it - the history differential and the memo machine (stored value = f(key) after every call) watch exactly that')
R_CTOR_LIST = 'Spectrum.__new__ stores the pop_ids list it is given (`subarr.pop_ids = pop_ids`); from_data_dict hands its pop_ids argument to the constructor'
R_NOFIX = 'private optimiser helper: `if fixed_params is None: return pin` - nothing is fixed, the parameter list itself is handed back (it is not modified)'
R_ASARRAY = 'numpy.ma.getdata / getmaskarray / view / asarray are numpy\'s accessors: they return the buffer itself by definition'


def _fam(*groups):
    out = []
    for g in groups:
        out += g if isinstance(g, list) else [g]
    return out

ALLOWED = [
    # ---- label lists carried by reference (observed on every operation that goes through numpy's attribute propagation or hands self.pop_ids to the constructor)
    (_fam(BIN, RBIN, ['Spectrum.fold', 'Spectrum.unfold', 'Spectrum.project', 'Spectrum.log', 'Spectrum.fixed_size_sample', 'Spectrum.sample',
                     'Numerics.apply_anc_state_misid', 'Inference.optimally_scaled_sfs', 'Inference.linear_Poisson_residual', 'Inference.Anscombe_Poisson_residual',
                     'Inference.ll_per_bin', 'Inference.ll_multinom_per_bin',
                     'Spectrum.__neg__', 'Spectrum.__pos__', 'Spectrum.__abs__', 'numpy.ma.exp(Spectrum)', 'numpy.ma.log(Spectrum)', 'numpy.ma.sqrt(Spectrum)',
                     'numpy.sqrt(Spectrum)', 'numpy.exp(Spectrum)', 'numpy.negative(Spectrum)', 'numpy.multiply(Spectrum, float)',
                     'Spectrum.copy', 'Spectrum.flatten', 'Spectrum.astype', 'Spectrum(Spectrum)']),
     'R.pop_ids', '*.pop_ids', R_POPIDS),
    (_fam(['Numerics.intersect_masks(different masks)', 'Numerics.intersect_masks(Spectrum, ndarray)']), 'R[*].pop_ids', '*.pop_ids', R_POPIDS),
    (_fam(['Spectrum(data, mask, pop_ids)']), 'R.pop_ids', 'pop_ids', R_POPIDS),
    # ---- in-place twins: the result IS the left operand (never the other one)
    (IBIN, 'R.data', 'self.data', R_INPLACE), (IBIN, 'R.mask', 'self.mask', R_INPLACE), (IBIN, 'R.pop_ids', 'self.pop_ids', R_INPLACE),
    # ---- numpy's own unary operations share the mask
    (['Spectrum.__neg__', 'Spectrum.__pos__', 'Spectrum.__abs__', 'numpy.ma.exp(Spectrum)', 'numpy.exp(Spectrum)', 'numpy.negative(Spectrum)'],
     'R.mask', 'self.mask', R_UNARY),
    # ---- numpy views
    (['Spectrum[basic slice]', 'Spectrum[...]', 'Spectrum[int]', 'Spectrum.transpose', 'Spectrum.swapaxes', 'Spectrum.view', 'Spectrum.ravel'], 'R.data', 'self.data', R_VIEW),
    (['Spectrum[basic slice]', 'Spectrum[...]', 'Spectrum[int]', 'Spectrum.transpose', 'Spectrum.swapaxes', 'Spectrum.view', 'Spectrum.ravel'], 'R.mask', 'self.mask', R_VIEW),
    (['Spectrum[basic slice]', 'Spectrum[...]', 'Spectrum[int]', 'Spectrum.transpose', 'Spectrum.swapaxes', 'Spectrum.view', 'Spectrum.ravel'], 'R.pop_ids', 'self.pop_ids', R_POPIDS),
    (['numpy.ma.getdata(Spectrum)'], 'R.data', 'self.data', R_ASARRAY), (['numpy.ma.getmaskarray(Spectrum)'], 'R.data', 'self.mask', R_ASARRAY),
    (['Spectrum.reorder_pops'], 'R.data', 'self.data', R_REORDER), (['Spectrum.reorder_pops'], 'R.mask', 'self.mask', R_REORDER),
    (['PhiManip.reorder_pops'], 'R.data', 'phi.data', R_REORDER),
    (['Numerics.reverse_array(Spectrum)'], 'R.data', 'self.data', R_REVERSE), (['Numerics.reverse_array(Spectrum)'], 'R.mask', 'self.mask', R_REVERSE),
    (['Numerics.reverse_array(Spectrum)'], 'R.pop_ids', 'self.pop_ids', R_POPIDS), (['Numerics.reverse_array(ndarray)'], 'R.data', 'arr.data', R_REVERSE),
    # ---- memo accessors hand out the stored object
    (['Numerics._cached_projection'], 'R.data', 'global:Numerics._projection_cache{*}.data', R_MEMO),
    (['Numerics.cached_part', 'LowPass.partitions_and_probabilities'], 'R*', 'global:Numerics._part_cache{*}*', R_MEMO + '; LowPass.partitions_and_probabilities returns cached_part(...) itself'),
    (['Numerics.cached_part_precalc'], 'R*', 'global:Numerics._part_precalc_cache{*}*', R_MEMO),
    (['Spectrum_mod.cached_dbeta'], 'R[*].data', 'global:Spectrum_mod._dbeta_cache{*}[*].data', R_MEMO),
    # ---- lists handed through
    (['Spectrum.from_data_dict'], 'R.pop_ids', 'pop_ids', R_CTOR_LIST),
    (['Inference._project_params_down(fixed_params=None)', 'Inference._project_params_up(fixed_params=None)'], 'R', 'pin', R_NOFIX),
    # ---- documented pass-through
    (['Numerics.intersect_masks(equal masks)'], 'R[*].data', 'm*.data', R_PASS + ' ("If neither m1 or m2 is masked [or the masks are equal], just returns m1 and m2")'),
    (['Numerics.intersect_masks(equal masks)'], 'R[*].mask', 'm*.mask', R_PASS), (['Numerics.intersect_masks(equal masks)'], 'R[*].pop_ids', 'm*.pop_ids', R_PASS),
]


def family(spec, base_family):
    """operation family of a call specification (the catalogue's op_family, refined for the operator / numpy-level specifications)"""
    if spec['op'] == 'ar':
        return 'Spectrum.__%s%s__' % ({'l': '', 'r': 'r', 'i': 'i'}[spec['side']], spec['o'])
    if spec['op'] == 'nx':
        k = spec['k']
        if k == 'intersect_masks':
            if spec.get('plain2'):
                return 'Numerics.intersect_masks(Spectrum, ndarray)'
            same = sorted(spec['fs'].get('mask', [])) == sorted(spec['fs2'].get('mask', [])) and spec['fs'].get('mask_corners', True) == spec['fs2'].get('mask_corners', True)
            return 'Numerics.intersect_masks(%s masks)' % ('equal' if same else 'different')
        return NX_FAMILY[k]
    if spec['op'] == 'sp' and spec['m'] in ('add', 'sub', 'mul', 'div'):
        return 'Spectrum.__%s__' % {'div': 'truediv'}.get(spec['m'], spec['m'])
    return base_family(spec)

NX_FAMILY = {
    'neg': 'Spectrum.__neg__', 'pos': 'Spectrum.__pos__', 'abs': 'Spectrum.__abs__', 'ma_exp': 'numpy.ma.exp(Spectrum)', 'ma_log': 'numpy.ma.log(Spectrum)',
    'ma_sqrt': 'numpy.ma.sqrt(Spectrum)', 'np_sqrt': 'numpy.sqrt(Spectrum)', 'np_exp': 'numpy.exp(Spectrum)', 'np_negative': 'numpy.negative(Spectrum)',
    'np_multiply': 'numpy.multiply(Spectrum, float)', 'slice': 'Spectrum[basic slice]', 'ellipsis': 'Spectrum[...]', 'row': 'Spectrum[int]',
    'transpose': 'Spectrum.transpose', 'swapaxes': 'Spectrum.swapaxes', 'copy': 'Spectrum.copy', 'view': 'Spectrum.view', 'filled': 'Spectrum.filled',
    'ravel': 'Spectrum.ravel', 'flatten': 'Spectrum.flatten', 'cumsum': 'Spectrum.cumsum', 'sum_axis': 'Spectrum.sum(axis)', 'astype': 'Spectrum.astype',
    'reverse_array': 'Numerics.reverse_array(Spectrum)', 'reverse_ndarray': 'Numerics.reverse_array(ndarray)', 'getdata': 'numpy.ma.getdata(Spectrum)',
    'getmaskarray': 'numpy.ma.getmaskarray(Spectrum)', 'deepcopy': 'copy.deepcopy(Spectrum)', 'pickle': 'pickle round trip(Spectrum)', 'construct': 'Spectrum(Spectrum)',
    'construct_parts': 'Spectrum(data, mask, pop_ids)', 'trapz': 'Numerics.trapz', 'misc_combine_pops': 'Misc.combine_pops', 'anc_misid': 'Numerics.apply_anc_state_misid',
}


def _norm(l):
    return re.sub(r'\{[^}]*\}', '{*}', re.sub(r'\[\d+\]', '[*]', l))


def _match(pat, label):
    return re.fullmatch(re.escape(pat).replace('\\*', '.*'), label) is not None


def allowed(fam, rbuf, abuf):
    """the reason (ALLOWED entry) why the result buffer `rbuf` of an operation of family `fam` may share memory with `abuf`, or None"""
    for fams, rp, ap, why in ALLOWED:
        if fam in fams and _match(rp, rbuf) and _match(ap, abuf):
            return why
    return None


def _kind(pat):
    return 'mask' if pat.endswith('.mask') else 'data' if pat.endswith('.data') else 'list'


def excused_arg(fam, kind, label):
    """an edit of kind `kind` on the result may change the argument buffer `label`: ALLOWED has a documented view (result buffer of that kind, label)"""
    return any(fam in fams and _kind(rp) == kind and _match(ap, label) for fams, rp, ap, _ in ALLOWED)


def excused_res(fam, kind, label):
    return any(fam in fams and _kind(ap) == kind and _match(rp, label) for fams, rp, ap, _ in ALLOWED)


def arg_of(label):
    return re.split(r'[.\[{]', label, 1)[0]


def new_pairs(fam, pairs):
    return [p for p in (pairs or []) if allowed(fam, p[0], p[1]) is None]


_DISCOVER = {}

def discover(fam, pairs, extra=None):
    path = os.environ.get('C20_ALIAS_DISCOVER')
    if not path:
        return
    d = _DISCOVER.setdefault(fam, set())
    for p in pairs or []:
        d.add(tuple(p))
    for e in extra or []:
        d.add(('excuse-needed', e))

def discover_flush():
    path = os.environ.get('C20_ALIAS_DISCOVER')
    if path:
        with open(path, 'w') as f:
            json.dump({k: sorted(v) for k, v in sorted(_DISCOVER.items())}, f, indent=1)


# ------------------------------------------------------------------------------------------------------------------
# the directed list of the mutate stream

OTHER_KINDS = ['float', 'int', 'npfloat', 'np0d', 'ndarray', 'ma_nomask', 'ma_mask', 'spectrum', 'spectrum_nomc']

def directed(cat, rng, gen_fs, gen_phi, quick, dy):
    """call specifications of the mutate stream: systematic, the same families on every run (values from the run's PRNG)"""
    def pos(fs):
        fs['vals'] = [v + 0.25 for v in fs['vals']]
        return fs
    out = []
    fs2 = pos(gen_fs(rng, (4, 5)))
    fs2m = pos(gen_fs(rng, (4, 5), extra_mask=True))
    fs1 = pos(gen_fs(rng, (7,)))
    fs3 = pos(gen_fs(rng, (3, 4, 3)))
    fsq = pos(gen_fs(rng, (5, 5)))
    def other(kind, fs, o):
        n = len(fs['vals'])
        d = {'k': kind}
        if kind in ('float', 'npfloat', 'np0d'):
            d['v'] = {'pow': 2.0}.get(o, rng.choice([0.5, 1.5, 2.0, 3.0]))
        elif kind == 'int':
            d['v'] = rng.choice([2, 3])
        else:
            d['vals'] = [dy(rng, 0.5, 3) + 0.25 for _ in range(n)]
            if kind == 'ma_mask':
                d['mask_at'] = rng.randrange(2, n - 2)
            if kind == 'spectrum':
                d['mask'] = [rng.randrange(2, n - 2)]
            if kind.startswith('spectrum'):
                d['pop_ids'] = fs.get('pop_ids')
        return d
    # --- every operator x side (binary, reflected, in-place twin) x kind of the other operand
    for o in OPS:
        for side in 'lri':
            for kind in OTHER_KINDS:
                if side == 'r' and kind.startswith('spectrum'):
                    continue            # Spectrum <op> Spectrum always runs the left operand's method
                fs = copy.deepcopy(fs2m if kind in ('ndarray', 'ma_nomask') else fs2)
                out.append({'op': 'ar', 'o': o, 'side': side, 'fs': fs, 'other': other(kind, fs, o)})
    # the same on other spectra: folded, corners unmasked, 1-D, 3-D
    extra = [('mul', 'l', 'float'), ('mul', 'r', 'float'), ('truediv', 'l', 'npfloat'), ('add', 'r', 'ndarray'), ('sub', 'r', 'int'), ('pow', 'l', 'int'),
             ('mul', 'l', 'spectrum'), ('add', 'i', 'spectrum'), ('mul', 'l', 'ma_nomask')]
    variants = [('fold', fsq), ('nomc', fs2), ('1d', fs1), ('3d', fs3)]
    for vi, (vname, base) in enumerate(variants):
        for ei, (o, side, kind) in enumerate(extra):
            if quick and (ei + vi) % 3:
                continue
            fs = copy.deepcopy(base)
            if vname == 'fold':
                fs['fold'] = True
            if vname == 'nomc':
                fs['mask_corners'] = False
            out.append({'op': 'ar', 'o': o, 'side': side, 'fs': fs, 'other': other(kind, fs, o)})
    # --- numpy-level operations and array helpers
    for k in ['neg', 'pos', 'abs', 'ma_exp', 'ma_log', 'ma_sqrt', 'np_sqrt', 'np_exp', 'np_negative', 'np_multiply', 'slice', 'ellipsis', 'row', 'transpose', 'swapaxes',
              'copy', 'view', 'filled', 'ravel', 'flatten', 'cumsum', 'sum_axis', 'astype', 'reverse_array', 'reverse_ndarray', 'getdata', 'getmaskarray', 'deepcopy',
              'pickle', 'construct', 'construct_parts', 'anc_misid']:
        out.append({'op': 'nx', 'k': k, 'fs': copy.deepcopy(fs2m if k in ('neg', 'abs', 'copy', 'construct') else fs2)})
    out.append({'op': 'nx', 'k': 'misc_combine_pops', 'fs': copy.deepcopy(fs2), 'idx': [0, 1]})
    out.append({'op': 'nx', 'k': 'misc_combine_pops', 'fs': copy.deepcopy(fs3), 'idx': [0, 2]})
    a = copy.deepcopy(fs2); b_ = copy.deepcopy(fs2); b_['vals'] = list(reversed(b_['vals']))
    out.append({'op': 'nx', 'k': 'intersect_masks', 'fs': a, 'fs2': b_})
    am = copy.deepcopy(fs2m); bm = copy.deepcopy(fs2); bm['mask'] = [(fs2m['mask'][0] + 3) % 16 + 2]
    out.append({'op': 'nx', 'k': 'intersect_masks', 'fs': am, 'fs2': bm})
    out.append({'op': 'nx', 'k': 'intersect_masks', 'fs': copy.deepcopy(fs2m), 'fs2': copy.deepcopy(fs2), 'plain2': True})
    yy = {'shape': [4, 6], 'vals': [dy(rng, 0, 4) for _ in range(24)]}
    out.append({'op': 'nx', 'k': 'trapz', 'yy': yy, 'axis': -1})
    out.append({'op': 'nx', 'k': 'trapz', 'yy': copy.deepcopy(yy), 'axis': 0, 'dx': 0.25})
    # --- Spectrum methods
    def sp(m, fs, a=None, **kw):
        out.append(dict({'op': 'sp', 'm': m, 'fs': copy.deepcopy(fs), 'a': a or []}, **kw))
    sp('fold', fsq); sp('fold', fs3)
    f = copy.deepcopy(fsq); f['fold'] = True; sp('unfold', f)
    sp('project', fs2, [[2, 3]]); sp('project', fs1, [[4]]); sp('project', f, [[3, 3]])
    sp('marginalize', fs2, [[0]]); sp('marginalize', fs3, [[0, 2]])
    sp('reorder_pops', fs2, [[2, 1]]); sp('reorder_pops', fs3, [[3, 1, 2]])
    sp('combine_pops', fs2, [[1, 2]]); sp('combine_pops', fs3, [[1, 3]])
    sp('filter_pops', fs2, [[2]]); sp('filter_pops', fs3, [[1, 3]])
    sp('scramble_pop_ids', fs2); sp('scramble_pop_ids', fs3)
    sp('fixed_size_sample', fs2, [40]); sp('sample', fs2m); sp('log', fs2m)
    # --- likelihood-side array results
    model = copy.deepcopy(fs2m); data = copy.deepcopy(fs2); data['vals'] = [float(int(v)) + 1.0 for v in reversed(fs2['vals'])]
    for fn in ['optimally_scaled_sfs', 'll_per_bin', 'll_multinom_per_bin', 'linear_Poisson_residual', 'Anscombe_Poisson_residual']:
        out.append({'op': 'll', 'f': fn, 'model': copy.deepcopy(model), 'data': copy.deepcopy(data)})
    fm = copy.deepcopy(fsq); fd = copy.deepcopy(fsq); fd['fold'] = True; fd['vals'] = [float(int(v)) + 1.0 for v in fd['vals']]
    out.append({'op': 'll', 'f': 'optimally_scaled_sfs', 'model': fm, 'data': fd})        # data folded, model not: optimal_sfs_scaling folds a copy
    # --- PhiManip
    def phi(d, pts):
        return copy.deepcopy(cat.phis[(d, pts)][0])
    pmin = {d: min(p for (dd, p) in cat.phis if dd == d) for d in (1, 2, 3, 4, 5)}
    for k, d, kw in [('to2D', 1, {}), ('split31', 2, {}), ('split32', 2, {}), ('2to3admix', 2, {'f': 0.25}), ('3to4', 3, {'f': [0.25, 0.5]}), ('4to5', 4, {'f': [0.25, 0.5, 0.125]}),
                     ('remove', 2, {'pop': 1}), ('remove', 3, {'pop': 2}), ('reorder', 2, {'order': [2, 1]}), ('reorder', 3, {'order': [3, 1, 2]}),
                     ('filter', 3, {'tokeep': [1, 3]}), ('phi_1D', 1, {'nu': 2.0, 'gamma': 1.0}), ('phi_1D_genic', 1, {'nu': 1.0, 'gamma': 1.0}),
                     ('phi_1D_snm', 1, {}), ('phi_1D_X', 1, {'gamma': 1.0})]:
        out.append(dict({'op': 'pm', 'k': k, 'd': d, 'pts': pmin[d], 'phi': phi(d, pmin[d])}, **kw))
    # --- integrators d = 1..5 (constant and time-dependent parameters, T = 0), from_phi d = 1..5
    for d in (1, 2, 3, 4, 5):
        out.append(cat.g_integ(d=d, nonconst=False, T0=False))
        if d <= 3 or not quick:
            out.append(cat.g_integ(d=d, nonconst=True, T0=False))
        if d in (1, 2, 4) or not quick:
            out.append(cat.g_integ(d=d, nonconst=False, T0=True))
        out.append({'op': 'from_phi', 'd': d, 'pts': pmin[d], 'phi': phi(d, pmin[d]), 'ns': [3 if d <= 3 else 2] * d})
    out.append({'op': 'from_phi', 'd': 2, 'pts': pmin[2], 'phi': phi(2, pmin[2]), 'ns': [3, 3], 'force': True})
    out.append({'op': 'from_phi', 'd': 2, 'pts': pmin[2], 'phi': phi(2, pmin[2]), 'ns': [2, 4], 'inb': True, 'Fs': [0.125, 0.5], 'ploidys': [2, 2]})
    out.append({'op': 'from_phi', 'd': 1, 'pts': pmin[1], 'phi': phi(1, pmin[1]), 'ns': [4], 'grid': 'lin', 'mask_corners': False})
    # --- models, demes, data dictionaries, low-pass wrappers, optimiser helpers
    out.append({'op': 'model', 'kind': 'two_epoch', 'p': [2.0, 0.5], 'ns': [4], 'pts': 8})
    out.append({'op': 'model', 'kind': 'split_mig', 'p': [0.5, 2.0, 0.25, 1.0], 'ns': [3, 3], 'pts': [8, 10]})
    out.append({'op': 'demes', 'yaml': 'two_epoch.yaml', 'sampled': ['deme0'], 'sizes': [4], 'pts': [8]})
    if not quick:
        out.append({'op': 'demes', 'yaml': 'offshoots.yaml', 'sampled': ['ancestral', 'offshoot1'], 'sizes': [3, 3], 'pts': [8]})
    s = cat.g_dd(); s['proj'] = [3] * len(s['pop_ids']); out.append(s)
    cov = cat.covs[0]
    out += [{'op': 'lp', 'f': 'projmat', 'nseq': 6, 'nsub': 4, 'F': 0.25}, {'op': 'lp', 'f': 'partprob', 'n': 4, 'type': 'genotype', 'Fx': 0},
            {'op': 'lp', 'f': 'nocall', 'cov': cov, 'n': 4, 'Fx': 0.25}, {'op': 'lp', 'f': 'cem', 'cov': cov, 'nsub': 4, 'Fx': 0},
            {'op': 'lp', 'f': 'enough', 'cov': cov, 'nseq': 6, 'nsub': 4},
            {'op': 'lp', 'f': 'func', 'kind': 'two_epoch', 'p': [2.0, 0.5], 'pts': 8, 'pops': [{'cov': cov, 'nseq': 6, 'nsub': 4, 'F': 0}]}]
    out += [{'op': 'opt', 'f': 'perturb', 'params': [1.0, 2.0], 'lower': [0.0625, 0.0625], 'upper': [16.0, 16.0], 'seed': 1, 'fold': 1},
            {'op': 'opt', 'f': 'perturb', 'params': [1.0, 2.0, 0.5], 'lower': None, 'upper': None, 'seed': 2, 'fold': 1, 'as_array': False},
            {'op': 'opt', 'f': 'proj_down', 'pin': [1.0, 2.0, 3.0], 'fixed': [None, 2.0, None]}, {'op': 'opt', 'f': 'proj_down', 'pin': [1.0, 2.0, 3.0], 'fixed': None},
            {'op': 'opt', 'f': 'proj_up', 'pin': [1.5, 2.5], 'fixed': [None, 2.0, None]}, {'op': 'opt', 'f': 'proj_up', 'pin': [1.5, 2.5, 3.5], 'fixed': None}]
    return out


# ------------------------------------------------------------------------------------------------------------------
# judgement of one mutate record

def judge(fam, spec, r):
    """findings of one record of the impl's mode 'mutate': list of {'uid', 'what', 'edit', 'observed'}; plus counters"""
    out = []
    stats = {'edits': 0, 'excused': 0, 'followups': 0}
    if any('crash' in (r.get(k) or {}) for k in ('P_A', 'P_R', 'M')):
        return [{'uid': 'crash', 'harness': True, 'what': 'mutate stream crashed: ' + json.dumps({k: (r.get(k) or {}).get('crash') for k in ('P_A', 'P_R', 'M')})[-500:]}], stats
    PA, PR, M = r['P_A'], r['P_R'], r['M']
    if PR.get('error'):
        return [{'uid': 'error-pristine', 'harness': True, 'what': 'the call raises in a pristine interpreter: ' + PR['error']}], stats
    if not PR.get('array_like'):
        return [], stats
    for kind in sorted(M):
        mr, ma = M[kind]['R'], M[kind]['A']
        # ---- edit the result: the arguments must not change, later computations on them must return their pristine values
        if mr.get('error'):
            out.append({'uid': 'error', 'harness': True, 'what': 'the call raises in the mutate stream but not in a pristine interpreter: ' + mr['error']})
        elif not mr.get('skipped'):
            stats['edits'] += 1
            bad = [l for l in mr['changed'] if not excused_arg(fam, kind, _norm(l))]
            exc = [l for l in mr['changed'] if l not in bad]
            stats['excused'] += len(exc)
            discover(fam, [], ['edit %s of R changes %s' % (kind, l) for l in mr['changed']])
            exc_args = set(arg_of(l) for l in exc)
            fdiff = {}
            for lab, want in PA['followups'].items():
                if arg_of(lab) in exc_args:
                    continue
                stats['followups'] += 1
                got = mr['followups'].get(lab)
                if got != want:
                    fdiff[lab] = {g: [want.get(g), (got or {}).get(g)] for g in want if (got or {}).get(g) != want.get(g)}
            again = (not exc) and mr['again'] != PR['digest']
            if bad or fdiff or again:
                lab0 = (bad or sorted(fdiff) or ['?'])[0]
                ex = ''
                if fdiff:
                    l1 = sorted(fdiff)[0]
                    g1 = sorted(g for g in fdiff[l1] if g != 'value') or ['value']
                    ex = '; afterwards %s(%s) = %s instead of its pristine-interpreter value %s' % (g1[0], l1, fdiff[l1][g1[0]][1], fdiff[l1][g1[0]][0])
                out.append({'uid': 'mutR:%s' % kind, 'edit': {'on': 'result', 'kind': kind, 'edits': mr['edits']},
                            'what': 'R = %s(...): the in-place edit %s of the RESULT changes the argument buffer(s) %s%s%s' % (
                                fam, mr['edits'][0], bad or '(none bit-wise)', ex, '; the same call repeated no longer returns its pristine value' if again else ''),
                            'observed': {'changed': mr['changed'], 'not_a_documented_view': bad, 'followups_differing': fdiff, 'same_call_again_differs': again}})
        # ---- the mirror: edit the arguments, the result must not change
        if ma.get('error'):
            out.append({'uid': 'error', 'harness': True, 'what': 'the call raises in the mutate stream but not in a pristine interpreter: ' + ma['error']})
        elif not ma.get('skipped'):
            stats['edits'] += 1
            bad = [l for l in ma['changed'] if not excused_res(fam, kind, _norm(l))]
            exc = [l for l in ma['changed'] if l not in bad]
            stats['excused'] += len(exc)
            discover(fam, [], ['edit %s of A changes %s' % (kind, l) for l in ma['changed']])
            exc_owner = set(re.sub(r'\.(data|mask|pop_ids|extrap_x)$', '', l) for l in exc)
            fdiff = {}
            for lab, want in PR['followups'].items():
                if lab in exc_owner or any(lab.startswith(o + '[') or o.startswith(lab + '[') for o in exc_owner):
                    continue
                stats['followups'] += 1
                got = ma['followups'].get(lab)
                if got != want:
                    fdiff[lab] = {g: [want.get(g), (got or {}).get(g)] for g in want if (got or {}).get(g) != want.get(g)}
            if bad or fdiff:
                out.append({'uid': 'mutA:%s' % kind, 'edit': {'on': 'arguments', 'kind': kind, 'edits': ma['edits']},
                            'what': 'R = %s(...): the in-place edit %s of an ARGUMENT after the call changes the result buffer(s) %s%s' % (
                                fam, ma['edits'][0], bad or '(none bit-wise)', ('; later computations on the result differ from their pristine values: %s' % json.dumps(fdiff)[:160]) if fdiff else ''),
                            'observed': {'changed': ma['changed'], 'not_a_documented_view': bad, 'followups_differing': fdiff}})
    return out, stats
