"""Generators for C16: random demes graphs (as demes.Builder data, all numbers dyadic), their transformations
(rescale, time units, sampled-deme order, explicit frozen branches) and random native dadi programs."""
import copy, math
from fractions import Fraction

INF = float('inf')

def _dy(rng, lo, hi, bits):
    n = 1 << bits
    return rng.randint(int(lo * n), int(hi * n)) / n

def _size(rng):
    return rng.choice([0.5, 0.75, 1.0, 1.25, 1.5, 2.0, 2.5, 3.0, 4.0, 6.0])

def _size_other(rng, s):
    """a size whose ratio to s is at least 1.5 either way (keeps exponential clearly non-linear and non-constant)"""
    for _ in range(50):
        t = _size(rng)
        if t / s >= 1.5 or s / t >= 1.5:
            return t
    return s * 2

class G:
    """forward-in-time construction; demes are dicts in creation order"""
    def __init__(self, rng, maxd):
        self.rng = rng; self.maxd = maxd
        self.demes = []            # {name, start_time, ancestors, proportions, bounds: [epoch end times], end_time}
        self.live = []
        self.n = 0

    def new(self, start, anc, props=None):
        d = {'name': 'd%d' % self.n, 'start_time': start, 'ancestors': list(anc), 'bounds': [], 'end_time': None}
        if props is not None:
            d['proportions'] = list(props)
        self.n += 1
        self.demes.append(d); self.live.append(d)
        return d

    def end(self, d, t):
        d['end_time'] = t; d['bounds'].append(t)
        self.live.remove(d)

def _props(rng, k):
    """k dyadic proportions summing to exactly 1"""
    while True:
        cuts = sorted(rng.sample(range(1, 16), k - 1))
        ps = [(b - a) / 16 for a, b in zip([0] + cuts, cuts + [16])]
        if all(p > 0 for p in ps):
            return ps

def gen_graph(rng, maxd=3, allow=None, nevents=None):
    """returns dict(graph=<Builder data>, info=...)"""
    allow = allow or {'split', 'branch', 'merge', 'admix', 'rename', 'die', 'epoch'}
    K = nevents if nevents is not None else rng.randint(1, 5)
    grid = [k / 2 for k in range(1, 9)]          # 0.5 .. 4.0
    times = sorted(rng.sample(grid, min(K, len(grid))), reverse=True)
    g = G(rng, maxd)
    g.new(INF, [])
    struct_times = []
    for t in times:
        nev = 2 if rng.random() < 0.15 else 1
        used = set()
        for _ in range(nev):
            cand = [d for d in g.live if d['name'] not in used and d['start_time'] > t]
            if not cand:
                break
            c = len(g.live)
            opts = []
            if c < maxd and 'split' in allow: opts += ['split'] * 4
            if c < maxd and 'branch' in allow: opts += ['branch'] * 3
            if len(cand) >= 2 and c < 5 and 'merge' in allow: opts += ['merge'] * 2   # the importer appends the child first: c + 1 <= 5
            if len(cand) >= 2 and c < maxd and 'admix' in allow: opts += ['admix'] * 2
            if 'rename' in allow: opts += ['rename']
            if c >= 2 and 'die' in allow: opts += ['die']
            if 'epoch' in allow: opts += ['epoch'] * 2
            if not opts:
                break
            ev = rng.choice(opts)
            if ev == 'split':
                x = rng.choice(cand); g.end(x, t)
                a = g.new(t, [x['name']]); b = g.new(t, [x['name']])
                used |= {x['name'], a['name'], b['name']}
            elif ev == 'branch':
                x = rng.choice(cand)
                a = g.new(t, [x['name']]); used |= {x['name'], a['name']}
            elif ev in ('merge', 'admix'):
                k = 2 if len(cand) < 3 or rng.random() < 0.7 else 3
                ps = rng.sample(cand, k)
                pr = _props(rng, k)
                if ev == 'merge':
                    for p in ps:
                        g.end(p, t)
                a = g.new(t, [p['name'] for p in ps], pr)
                used |= {p['name'] for p in ps} | {a['name']}
            elif ev == 'rename':
                x = rng.choice(cand); g.end(x, t)
                a = g.new(t, [x['name']]); used |= {x['name'], a['name']}
            elif ev == 'die':
                x = rng.choice(cand); g.end(x, t); used.add(x['name'])
            elif ev == 'epoch':
                x = rng.choice(cand); x['bounds'].append(t); used.add(x['name'])
        struct_times.append(t)
    for d in list(g.live):
        g.end(d, 0.0)
    # extra off-grid epoch boundaries
    offgrid = [k / 8 for k in range(1, 40) if k % 4 != 0]
    for d in g.demes:
        if rng.random() < 0.25:
            hi = min(d['start_time'], 5.0); lo = d['end_time']
            c = [t for t in offgrid if lo < t < hi and t not in d['bounds']]
            if c:
                d['bounds'].append(rng.choice(c)); d['bounds'].sort(reverse=True)
    # epochs
    out_demes = []
    for d in g.demes:
        eps = []
        prev_end_size = None
        for i, e_end in enumerate(d['bounds']):
            first_inf = (i == 0 and d['start_time'] == INF)
            s0 = _size(rng) if prev_end_size is None or rng.random() < 0.6 else prev_end_size
            fn = 'constant' if first_inf else rng.choice(['constant', 'constant', 'exponential', 'linear'])
            if fn == 'constant':
                ep = {'end_time': e_end, 'start_size': s0}
                prev_end_size = s0
            else:
                s1 = _size_other(rng, s0)
                ep = {'end_time': e_end, 'start_size': s0, 'end_size': s1, 'size_function': fn}
                prev_end_size = s1
            eps.append(ep)
        od = {'name': d['name'], 'epochs': eps}
        if d['ancestors']:
            od['ancestors'] = d['ancestors']; od['start_time'] = d['start_time']
            if len(d['ancestors']) > 1:
                od['proportions'] = d['proportions']
        out_demes.append(od)
    life = {d['name']: (d['start_time'], d['end_time']) for d in g.demes}
    # migrations
    migs = []
    names = [d['name'] for d in g.demes]
    cand_times = sorted(set(struct_times + offgrid + [0.0]))
    pairs = [(a, b) for i, a in enumerate(names) for b in names[i + 1:]]
    rng.shuffle(pairs)
    for a, b in pairs:
        hi = min(life[a][0], life[b][0]); lo = max(life[a][1], life[b][1])
        if not hi > lo or rng.random() > 0.45:
            continue
        def interval():
            if rng.random() < 0.4:
                return None
            c = [t for t in cand_times if lo <= t <= hi] + ([hi] if hi != INF else [])
            c = sorted(set(c))
            if len(c) < 2:
                return None
            s, e = sorted(rng.sample(c, 2), reverse=True)
            return (s, e)
        kind = rng.choice(['sym', 'asym', 'both'])
        rate = lambda: rng.choice([1 / 64, 1 / 32, 1 / 16, 3 / 32, 1 / 8, 3 / 16])
        if kind == 'sym':
            m = {'demes': [a, b], 'rate': rate()}
            iv = interval()
            if iv: m['start_time'], m['end_time'] = iv
            migs.append(m)
        else:
            dirs = [(a, b), (b, a)] if kind == 'both' else [rng.choice([(a, b), (b, a)])]
            for s_, d_ in dirs:
                m = {'source': s_, 'dest': d_, 'rate': rate()}
                iv = interval()
                if iv: m['start_time'], m['end_time'] = iv
                migs.append(m)
    # pulses (distinct off-grid times strictly inside the lifetimes)
    pulses = []
    ptimes = [k / 16 for k in range(1, 80) if k % 2 == 1]
    rng.shuffle(ptimes)
    npulse = rng.choice([0, 0, 1, 1, 2])
    for t in ptimes:
        if len(pulses) >= npulse:
            break
        alive = [n for n in names if life[n][1] < t < life[n][0]]
        if len(alive) < 2:
            continue
        dest = rng.choice(alive)
        others = [n for n in alive if n != dest]
        k = rng.choice([1, 1, 1, 2, 3]); k = min(k, len(others))
        srcs = rng.sample(others, k)
        pr = [rng.choice([1 / 16, 1 / 8, 3 / 16, 1 / 4]) for _ in srcs]
        pulses.append({'sources': srcs, 'dest': dest, 'time': t, 'proportions': pr})
    graph = {'time_units': 'generations', 'demes': out_demes}
    if migs: graph['migrations'] = migs
    if pulses: graph['pulses'] = pulses
    return {'graph': graph, 'life': life, 'names': names}

def count_live(life, extra, t):
    """demes alive just after time t going forward, i.e. on the interval (t - eps): start > t - eps >= end"""
    c = 0
    for s, e in list(life.values()) + list(extra):
        if s >= t and e < t:
            c += 1
    return c

def choose_samples(rng, gg, maxd, ancient_prob=0.4, all_ancient_prob=0.08):
    """sampled demes, times (None or list).  Keeps the number of simultaneous demes (incl. frozen branches) <= maxd."""
    life = gg['life']; names = gg['names']
    alive0 = [n for n in names if life[n][1] == 0]
    k = rng.randint(1, len(alive0))
    sampled = rng.sample(alive0, k)
    times = [0.0] * k
    offs = [j / 16 for j in range(1, 80) if j % 2 == 1]
    all_times = sorted({t for s, e in life.values() for t in (s, e) if t not in (INF,)} | set(offs))
    extra = []
    if rng.random() < ancient_prob:
        for _ in range(rng.choice([1, 1, 2])):
            n = rng.choice(names)
            s, e = life[n]
            c = [t for t in offs if e < t < min(s, 4.5)]
            # sampling a deme at the end of its existence is only supported when nothing descends from it at that time
            has_desc = any(n in d.get('ancestors', []) and d.get('start_time') == e for d in gg['graph']['demes'])
            if e > 0 and not has_desc and rng.random() < 0.5:
                c = [e]
            if not c:
                continue
            t = rng.choice(c)
            if (n, t) in zip(sampled, times):
                continue
            ok = all(count_live(life, extra + [(t, 0.0)], u) <= maxd for u in all_times if 0 < u <= t)
            if ok:
                extra.append((t, 0.0)); sampled.append(n); times.append(t)
    if rng.random() < all_ancient_prob:
        # shift: drop the time-0 samples, keep/create ancient ones only
        keep = [(n, t) for n, t in zip(sampled, times) if t > 0]
        if keep:
            sampled = [n for n, t in keep]; times = [t for n, t in keep]
    perm = list(range(len(sampled))); rng.shuffle(perm)
    sampled = [sampled[i] for i in perm]; times = [times[i] for i in perm]
    if all(t == 0 for t in times) and rng.random() < 0.7:
        times = None
    return sampled, times

# ----------------------------------------------------------------------------------------------------------------
# transformations of Builder data

def rescale(graph, c):
    """sizes and times x c, rates / c  (the same demography relative to another reference size)"""
    g = copy.deepcopy(graph)
    for d in g['demes']:
        if 'start_time' in d and d['start_time'] != INF:
            d['start_time'] *= c
        for e in d['epochs']:
            e['end_time'] *= c
            e['start_size'] *= c
            if 'end_size' in e:
                e['end_size'] *= c
    for m in g.get('migrations', []):
        m['rate'] /= c
        for k in ('start_time', 'end_time'):
            if k in m and m[k] != INF:
                m[k] *= c
    for p in g.get('pulses', []):
        p['time'] *= c
    return g

def to_units(graph, gt, units='years'):
    g = copy.deepcopy(graph)
    g['time_units'] = units; g['generation_time'] = gt
    for d in g['demes']:
        if 'start_time' in d and d['start_time'] != INF:
            d['start_time'] *= gt
        for e in d['epochs']:
            e['end_time'] *= gt
    for m in g.get('migrations', []):
        for k in ('start_time', 'end_time'):
            if k in m and m[k] != INF:
                m[k] *= gt
    for p in g.get('pulses', []):
        p['time'] *= gt
    return g

def explicit_frozen(graph, sampled, times, size=1.0):
    """the same demography with every ancient sample written as an explicit branch deme (to be frozen by name).
    Only for min(times) == 0 (no slicing).  Returns (graph, sampled names, frozen names)."""
    g = copy.deepcopy(graph)
    ends = {d['name']: d['epochs'][-1]['end_time'] for d in g['demes']}
    new_s = []; frozen = []
    for i, (n, t) in enumerate(zip(sampled, times)):
        if t > 0:
            nm = '%s_anc%d' % (n, i)
            g['demes'].append({'name': nm, 'ancestors': [n], 'start_time': t, 'epochs': [{'end_time': 0, 'start_size': size}]})
            new_s.append(nm); frozen.append(nm)
        else:
            new_s.append(n)
    return g, new_s, frozen

# ----------------------------------------------------------------------------------------------------------------
# random native programs (for the export round trip)

def gen_program(rng, maxd=3, nsteps=None, pulses5=True):
    """list of ops (see c16_impl.py) for 1..maxd populations; every population is integrated for a positive time between
    structural events so that the exported graph is well formed."""
    ops = [['phi_1D', rng.choice([1.0, 1.0, 2.0, 0.5])]]
    d = 1
    nsteps = nsteps or rng.randint(2, 6)
    def integ():
        T = rng.choice([1 / 16, 1 / 8, 3 / 16, 1 / 4])
        sfs = []
        for _ in range(d):
            k = rng.choice(['c', 'c', 'e', 'l'])
            v0 = _size(rng)
            sfs.append(['c', v0] if k == 'c' else [k, v0, _size_other(rng, v0)])
        M = None
        if d >= 2 and rng.random() < 0.6:
            M = [[0.0 if a == b or rng.random() < 0.4 else rng.choice([0.25, 0.5, 1.0, 2.0]) for b in range(d)] for a in range(d)]
        return ['integrate', T, sfs, M, None]
    if rng.random() < 0.7:
        ops.append(integ())
    for _ in range(nsteps):
        c = []
        if d < maxd: c += ['split'] * 3
        if 2 <= d < maxd: c += ['admix_new'] * 2
        if d >= 2: c += ['pulse'] * 2 + ['remove'] + ['reorder']
        if not c:
            c = ['none']
        ev = rng.choice(c)
        if ev == 'split':
            ops.append(['split', rng.randint(1, d)]); d += 1
        elif ev == 'admix_new':
            k = d - 1
            fs = []
            rest = 1.0
            for _ in range(k):
                f = rng.choice([0.0, 0.125, 0.25, 0.375]); fs.append(f); rest -= f
            ops.append(['admix_new', fs]); d += 1
        elif ev == 'pulse':
            if d == 5 and not pulses5:
                continue
            dest = rng.randint(1, d)
            fs = [rng.choice([0.0, 0.0, 0.125, 0.25]) for _ in range(d - 1)]
            if all(f == 0 for f in fs):
                fs[rng.randrange(d - 1)] = 0.125
            ops.append(['pulse', dest, fs])
        elif ev == 'remove':
            ops.append(['remove', rng.randint(1, d)]); d -= 1
        elif ev == 'reorder':
            o = list(range(1, d + 1)); rng.shuffle(o)
            ops.append(['reorder', o])
        ops.append(integ())
    return ops, d


def normalize_program(ops):
    """the same model with the populations kept in creation order: reorder_pops calls are dropped, the arguments of the
    later calls permuted accordingly, and one reorder at the end restores the order the program ends with"""
    out = []
    pos = []            # pos[i] = physical axis of the program's (virtual) population i
    for op in ops:
        k = op[0]
        d = len(pos)
        if k == 'phi_1D':
            pos = [0]; out.append(list(op))
        elif k == 'integrate':
            T, sfs, M, fr = op[1], op[2], op[3], op[4]
            sp = [None] * d
            for i in range(d):
                sp[pos[i]] = sfs[i]
            Mp = None
            if M is not None:
                Mp = [[0.0] * d for _ in range(d)]
                for i in range(d):
                    for j in range(d):
                        Mp[pos[i]][pos[j]] = M[i][j]
            fp = None
            if fr is not None:
                fp = [None] * d
                for i in range(d):
                    fp[pos[i]] = fr[i]
            out.append(['integrate', T, sp, Mp, fp])
        elif k == 'split':
            out.append(['split', pos[op[1] - 1] + 1]); pos.append(d)
        elif k == 'admix_new':
            full = list(op[1]) + [1 - sum(op[1])]
            fp = [None] * d
            for i in range(d):
                fp[pos[i]] = full[i]
            out.append(['admix_new', fp[:-1]]); pos.append(d)
        elif k == 'pulse':
            dest = op[1] - 1
            fv = {}
            src = [i for i in range(d) if i != dest]
            for i, f in zip(src, op[2]):
                fv[pos[i]] = f
            pd = pos[dest]
            out.append(['pulse', pd + 1, [fv[j] for j in range(d) if j != pd]])
        elif k == 'remove':
            p_ = pos[op[1] - 1]
            out.append(['remove', p_ + 1])
            del pos[op[1] - 1]
            pos = [x - 1 if x > p_ else x for x in pos]
        elif k == 'reorder':
            pos = [pos[o - 1] for o in op[1]]
        else:
            raise ValueError(op)
    if pos != list(range(len(pos))):
        out.append(['reorder', [x + 1 for x in pos]])
    return out
