"""Generators for C16: random demes graphs (as demes.Builder data, all numbers dyadic), their transformations
(rescale, time units, sampled-deme order, explicit frozen branches) and random native dadi programs."""
import copy, math
from fractions import Fraction

INF = float('inf')

def _dy(rng, lo, hi, bits):
    n = 1 << bits
    return rng.randint(int(lo * n), int(hi * n)) / n

def _size(rng):
    return rng.choice([0.5, 0.75, 1.0, 1.25, 1.5, 2.0, 2.5, 3.0, 4.0, 6.0])

def _size_other(rng, s):
    """a size whose ratio to s is at least 1.5 either way (keeps exponential clearly non-linear and non-constant)"""
    for _ in range(50):
        t = _size(rng)
        if t / s >= 1.5 or s / t >= 1.5:
            return t
    return s * 2

class G:
    """forward-in-time construction; demes are dicts in creation order"""
    def __init__(self, rng, maxd):
        self.rng = rng; self.maxd = maxd
        self.demes = []            # {name, start_time, ancestors, proportions, bounds: [epoch end times], end_time}
        self.live = []
        self.n = 0

    def new(self, start, anc, props=None):
        d = {'name': 'd%d' % self.n, 'start_time': start, 'ancestors': list(anc), 'bounds': [], 'end_time': None}
        if props is not None:
            d['proportions'] = list(props)
        self.n += 1
        self.demes.append(d); self.live.append(d)
        return d

    def end(self, d, t):
        d['end_time'] = t; d['bounds'].append(t)
        self.live.remove(d)

def _props(rng, k):
    """k dyadic proportions summing to exactly 1"""
    while True:
        cuts = sorted(rng.sample(range(1, 16), k - 1))
        ps = [(b - a) / 16 for a, b in zip([0] + cuts, cuts + [16])]
        if all(p > 0 for p in ps):
            return ps

def gen_graph(rng, maxd=3, allow=None, nevents=None):
    """returns dict(graph=<Builder data>, info=...)"""
    allow = allow or {'split', 'branch', 'merge', 'admix', 'rename', 'die', 'epoch'}
    K = nevents if nevents is not None else rng.randint(1, 5)
    grid = [k / 2 for k in range(1, 9)]          # 0.5 .. 4.0
    times = sorted(rng.sample(grid, min(K, len(grid))), reverse=True)
    g = G(rng, maxd)
    g.new(INF, [])
    struct_times = []
    for t in times:
        nev = 2 if rng.random() < 0.15 else 1
        used = set()
        for _ in range(nev):
            cand = [d for d in g.live if d['name'] not in used and d['start_time'] > t]
            if not cand:
                break
            c = len(g.live)
            opts = []
            if c < maxd and 'split' in allow: opts += ['split'] * 4
            if c < maxd and 'branch' in allow: opts += ['branch'] * 3
            if len(cand) >= 2 and c < 5 and 'merge' in allow: opts += ['merge'] * 2   # the importer appends the child first: c + 1 <= 5
            if len(cand) >= 2 and c < maxd and 'admix' in allow: opts += ['admix'] * 2
            if 'rename' in allow: opts += ['rename']
            if c >= 2 and 'die' in allow: opts += ['die']
            if 'epoch' in allow: opts += ['epoch'] * 2
            if not opts:
                break
            ev = rng.choice(opts)
            if ev == 'split':
                x = rng.choice(cand); g.end(x, t)
                a = g.new(t, [x['name']]); b = g.new(t, [x['name']])
                used |= {x['name'], a['name'], b['name']}
            elif ev == 'branch':
                x = rng.choice(cand)
                a = g.new(t, [x['name']]); used |= {x['name'], a['name']}
            elif ev in ('merge', 'admix'):
                k = 2 if len(cand) < 3 or rng.random() < 0.7 else 3
                ps = rng.sample(cand, k)
                pr = _props(rng, k)
                if ev == 'merge':
                    for p in ps:
                        g.end(p, t)
                a = g.new(t, [p['name'] for p in ps], pr)
                used |= {p['name'] for p in ps} | {a['name']}
            elif ev == 'rename':
                x = rng.choice(cand); g.end(x, t)
                a = g.new(t, [x['name']]); used |= {x['name'], a['name']}
            elif ev == 'die':
                x = rng.choice(cand); g.end(x, t); used.add(x['name'])
            elif ev == 'epoch':
                x = rng.choice(cand); x['bounds'].append(t); used.add(x['name'])
        struct_times.append(t)
    for d in list(g.live):
        g.end(d, 0.0)
    # extra off-grid epoch boundaries
    offgrid = [k / 8 for k in range(1, 40) if k % 4 != 0]
    for d in g.demes:
        if rng.random() < 0.25:
            hi = min(d['start_time'], 5.0); lo = d['end_time']
            c = [t for t in offgrid if lo < t < hi and t not in d['bounds']]
            if c:
                d['bounds'].append(rng.choice(c)); d['bounds'].sort(reverse=True)
    # epochs
    out_demes = []
    for d in g.demes:
        eps = []
        prev_end_size = None
        for i, e_end in enumerate(d['bounds']):
            first_inf = (i == 0 and d['start_time'] == INF)
            s0 = _size(rng) if prev_end_size is None or rng.random() < 0.6 else prev_end_size
            fn = 'constant' if first_inf else rng.choice(['constant', 'constant', 'exponential', 'linear'])
            if fn == 'constant':
                ep = {'end_time': e_end, 'start_size': s0}
                prev_end_size = s0
            else:
                s1 = _size_other(rng, s0)
                ep = {'end_time': e_end, 'start_size': s0, 'end_size': s1, 'size_function': fn}
                prev_end_size = s1
            eps.append(ep)
        od = {'name': d['name'], 'epochs': eps}
        if d['ancestors']:
            od['ancestors'] = d['ancestors']; od['start_time'] = d['start_time']
            if len(d['ancestors']) > 1:
                od['proportions'] = d['proportions']
        out_demes.append(od)
    life = {d['name']: (d['start_time'], d['end_time']) for d in g.demes}
    # migrations
    migs = []
    names = [d['name'] for d in g.demes]
    cand_times = sorted(set(struct_times + offgrid + [0.0]))
    pairs = [(a, b) for i, a in enumerate(names) for b in names[i + 1:]]
    rng.shuffle(pairs)
    for a, b in pairs:
        hi = min(life[a][0], life[b][0]); lo = max(life[a][1], life[b][1])
        if not hi > lo or rng.random() > 0.45:
            continue
        def interval():
            if rng.random() < 0.4:
                return None
            c = [t for t in cand_times if lo <= t <= hi] + ([hi] if hi != INF else [])
            c = sorted(set(c))
            if len(c) < 2:
                return None
            s, e = sorted(rng.sample(c, 2), reverse=True)
            return (s, e)
        kind = rng.choice(['sym', 'asym', 'both'])
        rate = lambda: rng.choice([1 / 64, 1 / 32, 1 / 16, 3 / 32, 1 / 8, 3 / 16])
        if kind == 'sym':
            m = {'demes': [a, b], 'rate': rate()}
            iv = interval()
            if iv: m['start_time'], m['end_time'] = iv
            migs.append(m)
        else:
            dirs = [(a, b), (b, a)] if kind == 'both' else [rng.choice([(a, b), (b, a)])]
            for s_, d_ in dirs:
                m = {'source': s_, 'dest': d_, 'rate': rate()}
                iv = interval()
                if iv: m['start_time'], m['end_time'] = iv
                migs.append(m)
    # pulses (distinct off-grid times strictly inside the lifetimes)
    pulses = []
    ptimes = [k / 16 for k in range(1, 80) if k % 2 == 1]
    rng.shuffle(ptimes)
    npulse = rng.choice([0, 0, 1, 1, 2])
    for t in ptimes:
        if len(pulses) >= npulse:
            break
        alive = [n for n in names if life[n][1] < t < life[n][0]]
        if len(alive) < 2:
            continue
        dest = rng.choice(alive)
        others = [n for n in alive if n != dest]
        k = rng.choice([1, 1, 1, 2, 3]); k = min(k, len(others))
        srcs = rng.sample(others, k)
        pr = [rng.choice([1 / 16, 1 / 8, 3 / 16, 1 / 4]) for _ in srcs]
        pulses.append({'sources': srcs, 'dest': dest, 'time': t, 'proportions': pr})
    graph = {'time_units': 'generations', 'demes': out_demes}
    if migs: graph['migrations'] = migs
    if pulses: graph['pulses'] = pulses
    return {'graph': graph, 'life': life, 'names': names}

def count_live(life, extra, t):
    """demes alive just after time t going forward, i.e. on the interval (t - eps): start > t - eps >= end"""
    c = 0
    for s, e in list(life.values()) + list(extra):
        if s >= t and e < t:
            c += 1
    return c

def choose_samples(rng, gg, maxd, ancient_prob=0.4, all_ancient_prob=0.08):
    """sampled demes, times (None or list).  Keeps the number of simultaneous demes (incl. frozen branches) <= maxd."""
    life = gg['life']; names = gg['names']
    alive0 = [n for n in names if life[n][1] == 0]
    k = rng.randint(1, len(alive0))
    sampled = rng.sample(alive0, k)
    times = [0.0] * k
    offs = [j / 16 for j in range(1, 80) if j % 2 == 1]
    all_times = sorted({t for s, e in life.values() for t in (s, e) if t not in (INF,)} | set(offs))
    extra = []
    if rng.random() < ancient_prob:
        for _ in range(rng.choice([1, 1, 2])):
            n = rng.choice(names)
            s, e = life[n]
            c = [t for t in offs if e < t < min(s, 4.5)]
            # sampling a deme at the end of its existence is only supported when nothing descends from it at that time
            has_desc = any(n in d.get('ancestors', []) and d.get('start_time') == e for d in gg['graph']['demes'])
            if e > 0 and not has_desc and rng.random() < 0.5:
                c = [e]
            if not c:
                continue
            t = rng.choice(c)
            if (n, t) in zip(sampled, times):
                continue
            ok = all(count_live(life, extra + [(t, 0.0)], u) <= maxd for u in all_times if 0 < u <= t)
            if ok:
                extra.append((t, 0.0)); sampled.append(n); times.append(t)
    if rng.random() < all_ancient_prob:
        # shift: drop the time-0 samples, keep/create ancient ones only
        keep = [(n, t) for n, t in zip(sampled, times) if t > 0]
        if keep:
            sampled = [n for n, t in keep]; times = [t for n, t in keep]
    perm = list(range(len(sampled))); rng.shuffle(perm)
    sampled = [sampled[i] for i in perm]; times = [times[i] for i in perm]
    if all(t == 0 for t in times) and rng.random() < 0.7:
        times = None
    return sampled, times

# ----------------------------------------------------------------------------------------------------------------
# transformations of Builder data

def rescale(graph, c):
    """sizes and times x c, rates / c  (the same demography relative to another reference size)"""
    g = copy.deepcopy(graph)
    for d in g['demes']:
        if 'start_time' in d and d['start_time'] != INF:
            d['start_time'] *= c
        for e in d['epochs']:
            e['end_time'] *= c
            e['start_size'] *= c
            if 'end_size' in e:
                e['end_size'] *= c
    for m in g.get('migrations', []):
        m['rate'] /= c
        for k in ('start_time', 'end_time'):
            if k in m and m[k] != INF:
                m[k] *= c
    for p in g.get('pulses', []):
        p['time'] *= c
    return g

def to_units(graph, gt, units='years'):
    g = copy.deepcopy(graph)
    g['time_units'] = units; g['generation_time'] = gt
    for d in g['demes']:
        if 'start_time' in d and d['start_time'] != INF:
            d['start_time'] *= gt
        for e in d['epochs']:
            e['end_time'] *= gt
    for m in g.get('migrations', []):
        for k in ('start_time', 'end_time'):
            if k in m and m[k] != INF:
                m[k] *= gt
    for p in g.get('pulses', []):
        p['time'] *= gt
    return g

def explicit_frozen(graph, sampled, times, size=1.0):
    """the same demography with every ancient sample written as an explicit branch deme (to be frozen by name).
    Only for min(times) == 0 (no slicing).  Returns (graph, sampled names, frozen names)."""
    g = copy.deepcopy(graph)
    ends = {d['name']: d['epochs'][-1]['end_time'] for d in g['demes']}
    new_s = []; frozen = []
    for i, (n, t) in enumerate(zip(sampled, times)):
        if t > 0:
            nm = '%s_anc%d' % (n, i)
            g['demes'].append({'name': nm, 'ancestors': [n], 'start_time': t, 'epochs': [{'end_time': 0, 'start_size': size}]})
            new_s.append(nm); frozen.append(nm)
        else:
            new_s.append(n)
    return g, new_s, frozen

# ----------------------------------------------------------------------------------------------------------------
# random native programs (for the export round trip)

def gen_program(rng, maxd=3, nsteps=None, pulses5=True):
    """list of ops (see c16_impl.py) for 1..maxd populations; every population is integrated for a positive time between
    structural events so that the exported graph is well formed."""
    ops = [['phi_1D', rng.choice([1.0, 1.0, 2.0, 0.5])]]
    d = 1
    nsteps = nsteps or rng.randint(2, 6)
    def integ():
        T = rng.choice([1 / 16, 1 / 8, 3 / 16, 1 / 4])
        sfs = []
        for _ in range(d):
            k = rng.choice(['c', 'c', 'e', 'l'])
            v0 = _size(rng)
            sfs.append(['c', v0] if k == 'c' else [k, v0, _size_other(rng, v0)])
        M = None
        if d >= 2 and rng.random() < 0.6:
            M = [[0.0 if a == b or rng.random() < 0.4 else rng.choice([0.25, 0.5, 1.0, 2.0]) for b in range(d)] for a in range(d)]
        return ['integrate', T, sfs, M, None]
    if rng.random() < 0.7:
        ops.append(integ())
    for _ in range(nsteps):
        c = []
        if d < maxd: c += ['split'] * 3
        if 2 <= d < maxd: c += ['admix_new'] * 2
        if d >= 2: c += ['pulse'] * 2 + ['remove'] + ['reorder']
        if not c:
            c = ['none']
        ev = rng.choice(c)
        if ev == 'split':
            ops.append(['split', rng.randint(1, d)]); d += 1
        elif ev == 'admix_new':
            k = d - 1
            fs = []
            rest = 1.0
            for _ in range(k):
                f = rng.choice([0.0, 0.125, 0.25, 0.375]); fs.append(f); rest -= f
            ops.append(['admix_new', fs]); d += 1
        elif ev == 'pulse':
            if d == 5 and not pulses5:
                continue
            dest = rng.randint(1, d)
            fs = [rng.choice([0.0, 0.0, 0.125, 0.25]) for _ in range(d - 1)]
            if all(f == 0 for f in fs):
                fs[rng.randrange(d - 1)] = 0.125
            ops.append(['pulse', dest, fs])
        elif ev == 'remove':
            ops.append(['remove', rng.randint(1, d)]); d -= 1
        elif ev == 'reorder':
            o = list(range(1, d + 1)); rng.shuffle(o)
            ops.append(['reorder', o])
        ops.append(integ())
    return ops, d


def normalize_program(ops):
    """the same model with the populations kept in creation order: reorder_pops calls are dropped, the arguments of the
    later calls permuted accordingly, and one reorder at the end restores the order the program ends with"""
    out = []
    pos = []            # pos[i] = physical axis of the program's (virtual) population i
    for op in ops:
        k = op[0]
        d = len(pos)
        if k == 'phi_1D':
            pos = [0]; out.append(list(op))
        elif k == 'integrate':
            T, sfs, M, fr = op[1], op[2], op[3], op[4]
            sp = [None] * d
            for i in range(d):
                sp[pos[i]] = sfs[i]
            Mp = None
            if M is not None:
                Mp = [[0.0] * d for _ in range(d)]
                for i in range(d):
                    for j in range(d):
                        Mp[pos[i]][pos[j]] = M[i][j]
            fp = None
            if fr is not None:
                fp = [None] * d
                for i in range(d):
                    fp[pos[i]] = fr[i]
            out.append(['integrate', T, sp, Mp, fp])
        elif k == 'split':
            out.append(['split', pos[op[1] - 1] + 1]); pos.append(d)
        elif k == 'admix_new':
            full = list(op[1]) + [1 - sum(op[1])]
            fp = [None] * d
            for i in range(d):
                fp[pos[i]] = full[i]
            out.append(['admix_new', fp[:-1]]); pos.append(d)
        elif k == 'pulse':
            dest = op[1] - 1
            fv = {}
            src = [i for i in range(d) if i != dest]
            for i, f in zip(src, op[2]):
                fv[pos[i]] = f
            pd = pos[dest]
            out.append(['pulse', pd + 1, [fv[j] for j in range(d) if j != pd]])
        elif k == 'remove':
            p_ = pos[op[1] - 1]
            out.append(['remove', p_ + 1])
            del pos[op[1] - 1]
            pos = [x - 1 if x > p_ else x for x in pos]
        elif k == 'reorder':
            pos = [pos[o - 1] for o in op[1]]
        else:
            raise ValueError(op)
    if pos != list(range(len(pos))):
        out.append(['reorder', [x + 1 for x in pos]])
    return out

# ----------------------------------------------------------------------------------------------------------------
# systematic families around DemesUtil.slice (every sample ancient) and around coinciding event times
#
# A family graph is written as a `spec`: demes in graph order, each {name, parent (None for the root), start (INF for
# the root), epochs: [(end_time, start_size, end_size, size_function)]}, migrations and pulses as Builder data.  From a
# spec both the Builder data (spec_graph) and a hand-written native dadi program for a given sampling (family_native)
# are derived; the native program is written from the definition of the demography (sizes by the closed formulas,
# durations, 2*Ne*m), it does not go through dadi.Demes.

def growth_val(fn, s0, s1, ts, te, u):
    """size at time u of an epoch [ts, te) that changes from s0 to s1"""
    if fn == 'constant':
        return s0
    if u == ts:
        return s0
    if u == te:
        return s1
    frac = (ts - u) / (ts - te)
    if fn == 'exponential':
        return s0 * (s1 / s0) ** frac
    if fn == 'linear':
        return s0 + frac * (s1 - s0)
    raise ValueError(fn)

def spec_graph(spec):
    demes = []
    for d in spec['demes']:
        eps = []
        for (end, s0, s1, fn) in d['epochs']:
            e = {'end_time': end, 'start_size': s0}
            if fn != 'constant':
                e['end_size'] = s1; e['size_function'] = fn
            eps.append(e)
        od = {'name': d['name'], 'epochs': eps}
        if d.get('parent'):
            od['ancestors'] = [d['parent']]; od['start_time'] = d['start']
        demes.append(od)
    g = {'time_units': 'generations', 'demes': demes}
    if spec.get('migs'):
        g['migrations'] = [dict(m) for m in spec['migs']]
    if spec.get('pulses'):
        g['pulses'] = [dict(p) for p in spec['pulses']]
    return g

def spec_epochs(d):
    out = []; ts = d['start']
    for (end, s0, s1, fn) in d['epochs']:
        out.append((ts, end, s0, s1, fn)); ts = end
    return out

def spec_size(d, u):
    for (ts, te, s0, s1, fn) in spec_epochs(d):
        if ts > u >= te:
            return growth_val(fn, s0, s1, ts, te, u)
    raise ValueError('deme %s does not exist at %r' % (d['name'], u))

def spec_migs(spec):
    """asymmetric migrations with explicit intervals: [(source, dest, start, end, rate)]"""
    D = {d['name']: d for d in spec['demes']}
    out = []
    for m in spec.get('migs', []):
        names = m['demes'] if 'demes' in m else [m['source'], m['dest']]
        st = m.get('start_time', min(D[n]['start'] for n in names))
        en = m.get('end_time', max(D[n]['epochs'][-1][0] for n in names))
        if 'demes' in m:
            a, b = names
            out += [(a, b, st, en, m['rate']), (b, a, st, en, m['rate'])]
        else:
            out.append((m['source'], m['dest'], st, en, m['rate']))
    return out

def family_native(spec, samples, Ne=None):
    """hand-written dadi program (ops of c16_impl.run_native) for the spec sampled at samples = [(deme, time)]: the
    demography more ancient than the most recent sample time, one integration per stretch between two consecutive
    events, populations in order of appearance; a pulse replaces, in its destination, the listed proportion of
    ancestry by each of its sources (proportions paired with the sources as LISTED; populations that are not sources
    contribute 0), simultaneous pulses are applied in the order of the graph's list.  None when the shape is outside
    what is written out here (several structural events at the same time, a structural event at the time of a pulse,
    demes ending inside the window other than by a split)."""
    t = min(tt for _, tt in samples)
    pulses = [p for p in spec.get('pulses', []) if p['time'] > t]
    root = spec['demes'][0]
    NeV = Ne if Ne is not None else root['epochs'][0][1]
    D = {d['name']: dict(d) for d in spec['demes']}
    order = [d['name'] for d in spec['demes']]
    frozen = {}
    for i, (n, tt) in enumerate(samples):
        if tt > t:
            nm = '%s@%d' % (n, i)
            sz = spec_size(D[n], tt)
            D[nm] = {'name': nm, 'parent': n, 'start': tt, 'epochs': [(0.0, sz, sz, 'constant')]}
            order.append(nm); frozen[nm] = True
    alive = [n for n in order if D[n]['start'] > t]
    migs = spec_migs(spec)
    # events by time
    ev = {}
    for n in alive:
        d = D[n]
        if d['parent'] is None:
            continue
        p = D[d['parent']]
        pend = p['epochs'][-1][0]
        if pend == d['start'] and n not in frozen:
            ev.setdefault(d['start'], {}).setdefault(('split', d['parent']), []).append(n)
        else:
            ev.setdefault(d['start'], {})[('branch', d['parent'], n)] = [n]
    if any(len(v) > 1 for v in ev.values()):
        return None
    if any(p['time'] in ev or len(p['sources']) != len(p['proportions']) or len(set(p['sources'])) != len(p['sources'])
           for p in pulses):
        return None
    for n in alive:
        e = D[n]['epochs'][-1][0]
        if e > t and not any(k[0] == 'split' and k[1] == n for v in ev.values() for k in v):
            return None          # a deme that ends inside the window without a split: not written out
    bps = {t}
    for n in alive:
        if D[n]['start'] != INF:
            bps.add(D[n]['start'])
        for (ts, te, s0, s1, fn) in spec_epochs(D[n]):
            if te > t:
                bps.add(te)
    for (s_, d_, st, en, r) in migs:
        if s_ in alive and d_ in alive:
            for x in (st, en):
                if x != INF and x > t:
                    bps.add(x)
    for p in pulses:
        bps.add(p['time'])
    bps = sorted(bps, reverse=True)
    pops = [root['name']]
    ops = [['phi_1D', root['epochs'][0][1] / NeV]]
    def seg(n, a, b):
        for (ts, te, s0, s1, fn) in spec_epochs(D[n]):
            if ts >= a and te <= b:
                if fn == 'constant':
                    return ['c', s0 / NeV]
                return ['e' if fn == 'exponential' else 'l', growth_val(fn, s0, s1, ts, te, a) / NeV, growth_val(fn, s0, s1, ts, te, b) / NeV]
        raise ValueError('no epoch of %s covers [%r, %r]' % (n, a, b))
    for i, bp in enumerate(bps):
        for p in pulses:
            if p['time'] == bp:
                if p['dest'] not in pops or any(x not in pops for x in p['sources']) or p['dest'] in p['sources']:
                    return None
                frac = dict(zip(p['sources'], p['proportions']))
                ops.append(['pulse', pops.index(p['dest']) + 1, [frac.get(x, 0.0) for x in pops if x != p['dest']]])
        for k, ch in ev.get(bp, {}).items():
            if k[0] == 'split':
                ip = pops.index(k[1])
                if len(ch) == 1:
                    pops[ip] = ch[0]
                elif len(ch) == 2:
                    ops.append(['split', ip + 1]); pops[ip] = ch[0]; pops.append(ch[1])
                else:
                    return None
            else:
                ops.append(['split', pops.index(k[1]) + 1]); pops.append(k[2])
        if bp == t:
            break
        a, b = bp, bps[i + 1]
        d = len(pops)
        M = [[0.0] * d for _ in range(d)]
        for (s_, d_, st, en, r) in migs:
            if s_ in pops and d_ in pops and st >= a and max(en, t) <= b:
                M[pops.index(d_)][pops.index(s_)] = 2 * NeV * r
        if all(x == 0 for row in M for x in row):
            M = None
        fr = [p in frozen for p in pops]
        ops.append(['integrate', (a - b) / 2 / NeV, [seg(p, a, b) for p in pops], M, fr if any(fr) else None])
    target = []
    for i, (n, tt) in enumerate(samples):
        target.append(n if tt == t else '%s@%d' % (n, i))
    if len(set(target)) != len(target) or any(x not in pops for x in target):
        return None
    for n in order:
        if n in pops and n not in target:
            ops.append(['remove', pops.index(n) + 1]); pops.remove(n)
    if pops != target:
        ops.append(['reorder', [pops.index(x) + 1 for x in target]])
    return ops

def _fam_case(rng, spec, samples, tag, units=False, Ne=None, native=True):
    graph = spec_graph(spec)
    sampled = [n for n, _ in samples]; times = [tt for _, tt in samples]
    t = min(times)
    nfrozen = sum(1 for tt in times if tt > t)
    # largest number of simultaneous populations (incl. frozen branches) in the retained window
    life = {d['name']: (d['start'], d['epochs'][-1][0]) for d in spec['demes']}
    cuts = sorted({x for s, e in life.values() for x in (s, e) if x != INF and x > t} | {tt for tt in times if tt > t} | {t})
    maxd = 1
    for u in cuts:
        c = sum(1 for s, e in life.values() if s > u >= e or (u == t and s > u and e <= u)) + sum(1 for tt in times if tt > u)
        maxd = max(maxd, c)
    maxd = max(maxd, sum(1 for s, e in life.values() if s > t and e <= t) + nfrozen)
    ops = family_native(spec, samples, Ne) if native else None
    if units:
        gt = rng.choice([25.0, 2.0, 29.0, 0.5])
        graph = to_units(graph, gt); times = [tt * gt for tt in times]
    c = {'graph': graph, 'sampled': sampled, 'times': times, 'Ne': Ne, 'tag': tag, 'maxd': min(max(maxd, len(sampled)), 5)}
    if ops is not None:
        c['native_ops'] = ops
    return c

def _other_fn(fn):
    return 'linear' if fn == 'exponential' else 'exponential'

def slice_family(rng):
    """every sample ancient, a non-constant epoch alive at the slice time that ends BEFORE the present:
    {exponential, linear} x {slice strictly inside the epoch, exactly at its end} x {followed by another epoch, by
    extinction, by a split} x {1, 2, 3 demes}; around that the rest varies (other demes constant or growing through the
    slice time, sampled or not, migrations, a second earlier sample, years, explicit Ne)."""
    out = []
    for ni, n in enumerate((1, 2, 3)):
        for fi, fn in enumerate(('exponential', 'linear')):
            for pi, pos in enumerate(('inside', 'end')):
                for wi, follow in enumerate(('epoch', 'extinct', 'split')):
                    idx = len(out)
                    T0 = rng.choice([2.0, 2.5, 3.0]); Te = rng.choice([0.5, 0.75, 1.0])
                    t = Te if pos == 'end' else Te + rng.choice([0.125, 0.25, 0.375, 0.5, 0.625])
                    N0 = _size(rng); s0 = _size(rng); s1 = _size_other(rng, s0)
                    A_eps = [(Te, s0, s1, fn)]
                    if follow == 'epoch':
                        k2 = ['constant', 'exponential', 'linear'][(fi + pi + ni) % 3]
                        x0 = s1 if rng.random() < 0.5 else _size(rng)
                        A_eps.append((0.0, x0, x0 if k2 == 'constant' else _size_other(rng, x0), k2))
                    demes = []
                    if n == 1:
                        demes.append({'name': 'A', 'parent': None, 'start': INF, 'epochs': [(T0, N0, N0, 'constant')] + A_eps})
                    else:
                        demes.append({'name': 'R', 'parent': None, 'start': INF, 'epochs': [(T0, N0, N0, 'constant')]})
                        demes.append({'name': 'A', 'parent': 'R', 'start': T0, 'epochs': A_eps})
                        kb = (wi + 2 * pi + fi) % 4
                        b0 = _size(rng); b1 = _size_other(rng, b0); fb = rng.choice(['exponential', 'linear'])
                        B_eps = [[(0.0, b0, b0, 'constant')], [(0.0, b0, b1, fb)], [(t / 2, b0, b1, fb), (0.0, b1, b1, 'constant')],
                                 [(t, b0, b1, fb), (0.0, b1, b1, 'constant')]][kb]
                        demes.append({'name': 'B', 'parent': 'R', 'start': T0, 'epochs': B_eps})
                        if n == 3:
                            Tc = t + (T0 - t) / 2
                            c0 = _size(rng)
                            C_eps = [(0.0, c0, c0, 'constant')] if (wi + fi) % 2 == 0 else [(0.0, c0, _size_other(rng, c0), _other_fn(fb))]
                            demes.append({'name': 'C', 'parent': 'B', 'start': Tc, 'epochs': C_eps})
                    if follow == 'split':
                        demes.append({'name': 'A1', 'parent': 'A', 'start': Te, 'epochs': [(0.0, _size(rng), 0, 'constant')]})
                        demes.append({'name': 'A2', 'parent': 'A', 'start': Te, 'epochs': [(0.0, _size(rng), 0, 'constant')]})
                        for d in demes[-2:]:
                            s = d['epochs'][0][1]; d['epochs'] = [(0.0, s, s, 'constant')]
                    migs = []
                    rate = lambda: rng.choice([1 / 32, 1 / 16, 3 / 32, 1 / 8])
                    if n >= 2:
                        km = (wi + pi + ni + fi) % 3
                        if km == 1:
                            migs.append({'demes': ['A', 'B'], 'rate': rate()})
                        elif km == 2:
                            migs.append({'source': 'A', 'dest': 'B', 'rate': rate()})
                            if n == 3:
                                migs.append({'source': 'C', 'dest': 'B', 'rate': rate()})
                                migs.append({'source': 'B', 'dest': 'A', 'rate': rate(), 'start_time': T0, 'end_time': t})
                    spec = {'demes': demes, 'migs': migs}
                    var = (wi + pi + 2 * fi) % 3
                    t2 = t + (T0 - t) / 2
                    if n == 1:
                        samples = [('A', t)] + ([('A', t2)] if var == 1 else [])
                    elif n == 2:
                        samples = [[('A', t), ('B', t)], [('A', t)], [('B', t), ('A', t2)]][var]
                    else:
                        tc2 = t + (T0 - t) / 4
                        samples = [[('A', t), ('B', t), ('C', t)], [('C', t), ('A', t)], [('A', t), ('C', tc2)]][var]
                    c = _fam_case(rng, spec, samples, 'slice-family:%d-%s-%s-%s' % (n, fn, pos, follow), units=(idx % 4 == 3),
                                  Ne=rng.choice([2.0, 3.0, 1.5]) if idx % 5 == 2 else None)
                    out.append(c)
    return out

def boundary_family(rng):
    """sample / slice times that coincide with other times of the graph (epoch boundaries of sampled and of non-sampled
    demes, start and end of other demes, pulses, migration intervals starting / ending at, inside, across and after the
    slice time), growth epochs of non-sampled ancestors through the slice time, and frozen branches created exactly at
    an epoch boundary / pulse time / migration boundary / start of another deme."""
    out = []
    T0 = 3.0
    sz = lambda: _size(rng)
    fnr = lambda: rng.choice(['exponential', 'linear'])
    rate = lambda: rng.choice([1 / 32, 1 / 16, 3 / 32, 1 / 8])
    def grow(end, fn=None, s0=None):
        s0 = sz() if s0 is None else s0
        return (end, s0, _size_other(rng, s0), fn or fnr())
    def const(end, s=None):
        s = sz() if s is None else s
        return (end, s, s, 'constant')
    def base(A_eps, B_eps, extra=(), migs=(), pulses=()):
        N0 = sz()
        demes = [{'name': 'R', 'parent': None, 'start': INF, 'epochs': [(T0, N0, N0, 'constant')]},
                 {'name': 'A', 'parent': 'R', 'start': T0, 'epochs': list(A_eps)},
                 {'name': 'B', 'parent': 'R', 'start': T0, 'epochs': list(B_eps)}] + list(extra)
        return {'demes': demes, 'migs': list(migs), 'pulses': list(pulses)}
    def add(tag, spec, samples, **kw):
        k = len(out)
        out.append(_fam_case(rng, spec, samples, 'boundary:' + tag, units=(k % 5 == 4), Ne=rng.choice([2.0, 1.5]) if k % 6 == 3 else None, **kw))
    t = rng.choice([0.75, 1.0, 1.25])
    both = [('A', t), ('B', t)]
    g1 = grow(t)
    # slice exactly at epoch boundaries of the sampled deme
    add('slice-at-start-of-growth-epoch', base([const(t), grow(0.0)], [const(0.0)]), both)
    add('slice-between-two-growth-epochs', base([g1, (0.0, g1[2], _size_other(rng, g1[2]), _other_fn(g1[3]))], [grow(0.0)]), both)
    # ... of a deme that is not sampled
    gb = grow(t)
    add('unsampled-deme-epoch-boundary-at-slice', base([grow(t / 2), const(0.0)], [gb, const(0.0, gb[2])], migs=[{'demes': ['A', 'B'], 'rate': rate()}]), [('A', t)])
    gb = grow(t)
    add('unsampled-deme-extinct-at-slice', base([grow(t / 2), const(0.0)], [gb], migs=[{'source': 'B', 'dest': 'A', 'rate': rate()}]), [('A', t)])
    # another deme starts exactly at the slice time
    add('branch-at-slice-time', base([grow(t / 2), const(0.0)], [grow(0.0)],
                                     extra=[{'name': 'C', 'parent': 'B', 'start': t, 'epochs': [const(0.0)]}]), both)
    gb = grow(t)
    add('split-at-slice-time', base([grow(t / 2), const(0.0)], [gb],
                                    extra=[{'name': 'B1', 'parent': 'B', 'start': t, 'epochs': [const(0.0)]},
                                           {'name': 'B2', 'parent': 'B', 'start': t, 'epochs': [const(0.0)]}]), both)
    # pulses at / around the slice time
    add('pulse-at-slice-time', base([grow(t / 2), const(0.0)], [grow(0.0)],
                                    pulses=[{'sources': ['A'], 'dest': 'B', 'time': t, 'proportions': [0.125]},
                                            {'sources': ['B'], 'dest': 'A', 'time': t + 0.25, 'proportions': [0.25]},
                                            {'sources': ['B'], 'dest': 'A', 'time': t - 0.25, 'proportions': [0.375]}]), both)
    # migration intervals relative to the slice time
    add('migration-starts-at-slice', base([grow(t / 2), const(0.0)], [const(0.0)],
                                          migs=[{'source': 'A', 'dest': 'B', 'rate': rate(), 'start_time': t, 'end_time': 0.0},
                                                {'source': 'B', 'dest': 'A', 'rate': rate()}]), both)
    add('migration-ends-at-slice', base([grow(t / 2), const(0.0)], [grow(0.0)],
                                        migs=[{'source': 'A', 'dest': 'B', 'rate': rate(), 'start_time': T0, 'end_time': t}]), both)
    add('migration-crosses-slice', base([grow(t / 2), const(0.0)], [const(0.0)],
                                        migs=[{'source': 'A', 'dest': 'B', 'rate': rate(), 'start_time': t + 0.5, 'end_time': t - 0.25},
                                              {'source': 'B', 'dest': 'A', 'rate': rate(), 'start_time': T0, 'end_time': t + 0.5}]), both)
    add('migration-inside-window', base([grow(t / 2), const(0.0)], [grow(t - 0.25), const(0.0)],
                                        migs=[{'source': 'A', 'dest': 'B', 'rate': rate(), 'start_time': t + 1.0, 'end_time': t + 0.25},
                                              {'demes': ['A', 'B'], 'rate': rate(), 'start_time': t + 0.25, 'end_time': 0.0}]), both)
    add('migration-after-slice', base([grow(t / 2), const(0.0)], [const(0.0)],
                                      migs=[{'source': 'A', 'dest': 'B', 'rate': rate(), 'start_time': t - 0.25, 'end_time': 0.0},
                                            {'source': 'B', 'dest': 'A', 'rate': rate(), 'start_time': T0 - 0.5}]), both)
    # growth epochs of non-sampled ancestors through the slice time
    gb = grow(t / 2)
    add('unsampled-ancestor-growth-crosses-slice', base([grow(t - 0.25), const(0.0)], [gb, const(0.0, gb[2])],
                                                        extra=[{'name': 'C', 'parent': 'B', 'start': t + 0.5, 'epochs': [grow(0.0)]}]),
        [('A', t), ('C', t)])
    gb = grow(t)
    add('unsampled-ancestor-growth-ends-at-slice', base([const(0.0)], [gb, const(0.0, gb[2])],
                                                        extra=[{'name': 'C', 'parent': 'B', 'start': t + 0.5, 'epochs': [const(0.0)]}],
                                                        migs=[{'demes': ['B', 'C'], 'rate': rate()}]),
        [('C', t), ('A', t)])
    ga = grow(t / 2); gb = grow(t - 0.25)
    add('two-growth-epochs-cut', base([ga, const(0.0, ga[2])], [gb, grow(0.0, s0=gb[2])], migs=[{'demes': ['A', 'B'], 'rate': rate()}]), both)
    # slice plus a frozen branch created exactly at an epoch boundary
    gb = grow(t + 0.5)
    add('slice-plus-frozen-at-epoch-boundary', base([grow(t / 2), const(0.0)], [gb, grow(0.0, s0=gb[2])]), [('A', t), ('B', t + 0.5)])
    add('slice-plus-frozen-same-deme', base([grow(t / 2), const(0.0)], [const(0.0)]), [('A', t), ('A', t + 0.5), ('B', t)])
    # no slice (a present-day sample): frozen branches created exactly at other events
    ga = grow(1.0)
    add('frozen-at-epoch-boundary', base([ga, const(0.0, ga[2])], [grow(0.0)]), [('A', 0.0), ('A', 1.0), ('B', 0.0)])
    add('frozen-at-pulse-time', base([const(0.0)], [grow(0.0)], pulses=[{'sources': ['A'], 'dest': 'B', 'time': 1.0, 'proportions': [0.25]}]),
        [('A', 0.0), ('B', 0.0), ('B', 1.0)])
    add('frozen-at-migration-boundary', base([grow(0.0)], [const(0.0)],
                                             migs=[{'source': 'A', 'dest': 'B', 'rate': rate(), 'start_time': T0, 'end_time': 1.0},
                                                   {'source': 'B', 'dest': 'A', 'rate': rate(), 'start_time': 1.0, 'end_time': 0.0}]),
        [('A', 0.0), ('B', 0.0), ('A', 1.0)])
    add('frozen-at-other-deme-start', base([const(0.0)], [grow(0.0)], extra=[{'name': 'C', 'parent': 'B', 'start': 1.0, 'epochs': [const(0.0)]}]),
        [('A', 0.0), ('C', 0.0), ('B', 1.0)])
    add('frozen-at-deme-end', base([grow(1.0)], [grow(0.0)]), [('B', 0.0), ('A', 1.0)])
    return out

# ----------------------------------------------------------------------------------------------------------------
# systematic family around multi-source pulses: which proportion goes with which source

def listing_of(kind, xs):
    """a list in population order -> the order in which it is LISTED in the graph"""
    xs = list(xs)
    if kind == 'pop':
        return xs
    if kind == 'reverse':
        return xs[::-1]
    if kind == 'rotated':
        return xs[1:] + xs[:1]
    raise ValueError(kind)

def pulse_family(rng, rep=0):
    """one pulse with 2 or 3 sources and pairwise different proportions, 3 or 4 demes alive (population order = order of
    appearance A, B, C, D): {destination oldest / in the middle / youngest} x {sources listed in population order,
    in reverse order, rotated (3 sources)} x {nothing else at the pulse time, an epoch boundary of a source, migrations
    starting and ending, a branch, a second multi-source pulse at that very time}; with a bystander deme that is neither
    source nor destination; the destination's parent among the sources (whenever the destination is C or D).  Each with
    a hand-written native program (family_native: proportions paired with the sources as listed) except where a
    structural event coincides with the pulse."""
    out = []
    sz = lambda: _size(rng)
    rate = lambda: rng.choice([1 / 32, 1 / 16, 3 / 32, 1 / 8])
    T0, T1, T2 = 3.0, 2.0, 1.5
    def const(end, s=None):
        s = sz() if s is None else s
        return (end, s, s, 'constant')
    def grow(end, fn=None, s0=None):
        s0 = sz() if s0 is None else s0
        return (end, s0, _size_other(rng, s0), fn or rng.choice(['exponential', 'linear']))
    def build(nd, dest_k, src_ks, listing, variant):
        P = ['A', 'B', 'C', 'D'][:nd]
        tp = rng.choice([0.5, 0.75, 1.0])
        dest = P[dest_k]; srcs_pop = [P[k] for k in sorted(src_ks)]
        # the destination's parent is one of the sources whenever the destination is a branch (C, D)
        parC = 'A' if (dest == 'C' and 'A' in srcs_pop) or (dest != 'C' and rng.random() < 0.5) else 'B'
        if dest == 'C' and parC not in srcs_pop:
            parC = 'B'
        parD = rng.choice([x for x in srcs_pop if x != 'D'] if dest == 'D' else ['A', 'B', 'C'])
        start = {'A': T0, 'B': T0, 'C': T1, 'D': T2}
        parent = {'A': 'R', 'B': 'R', 'C': parC, 'D': parD}
        N0 = sz()
        eps = {}
        growing = rng.choice(P)                      # one deme changes size through the pulse time
        for n in P:
            eps[n] = [grow(0.0)] if n == growing else [const(0.0)]
        migs = []; extra = []
        props = rng.sample([1 / 16, 1 / 8, 3 / 16, 1 / 4], len(srcs_pop))          # pairwise different, sum < 1
        frac = dict(zip(srcs_pop, props))
        lst = listing_of(listing, srcs_pop)
        pulses = [{'sources': lst, 'dest': dest, 'time': tp, 'proportions': [frac[x] for x in lst]}]
        if variant == 'epoch':
            n = srcs_pop[-1]
            g1 = grow(tp)
            eps[n] = [g1, const(0.0, g1[2] if rng.random() < 0.5 else None)]
        elif variant == 'mig':
            a, b = srcs_pop[0], dest
            migs.append({'source': a, 'dest': b, 'rate': rate(), 'start_time': tp, 'end_time': 0.0})
            migs.append({'source': b, 'dest': srcs_pop[-1], 'rate': rate(), 'start_time': min(start[b], start[srcs_pop[-1]]), 'end_time': tp})
        elif variant == 'branch':
            par = dest if (dest_k + rep) % 2 == 0 else srcs_pop[0]
            extra.append({'name': 'E', 'parent': par, 'start': tp, 'epochs': [const(0.0)]})
        elif variant == 'pulse2':
            d2 = srcs_pop[0]
            s2 = [x for x in P if x != d2][:2]           # includes the first pulse's destination whenever it is among the first
            if dest not in s2:
                s2[-1] = dest
            s2 = sorted(s2)
            pr2 = rng.sample([1 / 16, 1 / 8, 3 / 16], len(s2))
            l2 = listing_of('reverse', s2)
            f2 = dict(zip(s2, pr2))
            pulses.append({'sources': l2, 'dest': d2, 'time': tp, 'proportions': [f2[x] for x in l2]})
        elif variant != 'none':
            raise ValueError(variant)
        demes = [{'name': 'R', 'parent': None, 'start': INF, 'epochs': [(T0, N0, N0, 'constant')]}]
        for n in P:
            demes.append({'name': n, 'parent': parent[n], 'start': start[n], 'epochs': eps[n]})
        demes += extra
        spec = {'demes': demes, 'migs': migs, 'pulses': pulses}
        alive = P + [d['name'] for d in extra]
        k = len(out)
        mode = (k + rep) % 3
        if mode == 1:
            alive = alive[1:] + alive[:1]
        elif mode == 2 and len(alive) > 3:
            alive = [x for x in alive[::-1] if x != ([x for x in P if x != dest and x not in srcs_pop] + [alive[-1]])[0]]
        samples = [(n, 0.0) for n in alive]
        tag = 'pulse-family:%d-demes-%d-sources-dest-%s-listed-%s-%s' % (nd, len(srcs_pop), dest, listing, variant)
        c = _fam_case(rng, spec, samples, tag, units=(k % 7 == 5), Ne=rng.choice([2.0, 1.5]) if k % 6 == 4 else None)
        if mode != 0 or k % 2 == 0:
            c['times'] = None                    # sampled at the end of the demes (the default)
        out.append(c)
    # three demes, two sources
    V4 = ['epoch', 'mig', 'branch', 'pulse2']
    i = 0
    for dest_k in (0, 1, 2):
        for listing in ('pop', 'reverse'):
            src = [k for k in range(3) if k != dest_k]
            build(3, dest_k, src, listing, 'none')
            build(3, dest_k, src, listing, V4[(i + rep) % 4])
            i += 1
    # four demes, three sources
    V5 = ['none', 'epoch', 'mig', 'pulse2', 'branch']
    j = 0
    for dest_k in (0, 1, 2, 3):
        for listing in ('pop', 'reverse', 'rotated'):
            build(4, dest_k, [k for k in range(4) if k != dest_k], listing, V5[(j + rep) % 5])
            j += 1
    # four demes, two sources and a bystander
    for dest_k in (0, 1, 2, 3):
        by = (dest_k + 1 + rep % 3) % 4
        build(4, dest_k, [k for k in range(4) if k not in (dest_k, by)], 'reverse' if dest_k % 2 == 0 else 'pop',
              ['none', 'pulse2'][dest_k % 2])
    return out

# ----------------------------------------------------------------------------------------------------------------
# systematic family around integration epochs in which SEVERAL contemporaneous demes change size, each with its own
# parameters: the importer builds one size function per deme and per integration epoch (closures over the start / end
# sizes of that deme); a slip that lets two of them share a parameter - a value hoisted out of the closure and bound late,
# the sizes of the wrong deme, the duration of another epoch - is invisible when only one deme of the epoch changes size
# and when a graph is compared with transformed copies of itself.

SIZEFN_2 = [('linear', 'linear'), ('linear', 'exponential'), ('exponential', 'linear'), ('exponential', 'exponential'),
            ('linear', 'constant'), ('constant', 'linear')]
SIZEFN_3 = [('linear', 'linear', 'linear'), ('linear', 'exponential', 'linear'), ('exponential', 'linear', 'exponential'),
            ('exponential', 'exponential', 'exponential'), ('linear', 'constant', 'linear'), ('constant', 'linear', 'linear'),
            ('linear', 'linear', 'constant'), ('exponential', 'constant', 'linear')]

def _distinct_growths(rng, fns, k0):
    """[(s0, s1)] per deme: directions alternate (down, up, down, ... starting with k0's parity), the absolute changes s1 - s0
    and the ratios s1 / s0 are pairwise different; constant demes get (s, s)"""
    lo = [0.5, 0.75, 1.0, 1.25, 1.5]; hi = [2.0, 2.5, 3.0, 4.0, 6.0]
    for _ in range(200):
        out = []
        for i, fn in enumerate(fns):
            if fn == 'constant':
                s = _size(rng); out.append((s, s)); continue
            a, b = rng.choice(lo), rng.choice(hi)
            out.append((b, a) if (i + k0) % 2 == 0 else (a, b))
        ch = [(s1 - s0, s1 / s0) for (s0, s1), fn in zip(out, fns) if fn != 'constant']
        if len({c[0] for c in ch}) == len(ch) and len({c[1] for c in ch}) == len(ch):
            return out
    raise ValueError('no distinct growth parameters found')

def sizefn_family(rng, rep=0):
    """2 and 3 demes alive whose size functions over one integration epoch are ALL non-constant with pairwise different
    parameters (every combination of SIZEFN_2 / SIZEFN_3: linear/linear, linear/exponential, exponential/exponential, ...,
    and linear next to constant), directions alternating (the first deme shrinks while the last grows and the other way
    round), in two layouts: `aligned` (every deme has one epoch from its start to the present) and `staggered` (the
    second deme changes to another growth epoch half way, so that the integration epochs cut the first deme's epoch and
    every piece has its own start / end sizes); with and without migration, sampled in rotating orders and as a subset,
    in generations and years, Ne given or not.  Each with a hand-written native program (family_native)."""
    out = []
    rate = lambda: rng.choice([1 / 32, 1 / 16, 3 / 32, 1 / 8])
    def finish(nd, fns, layout, demes, k):
        migs = []
        if k % 3 == 1:
            migs.append({'demes': ['A', 'B'], 'rate': rate()})
        elif k % 3 == 2:
            migs.append({'source': 'A', 'dest': 'B', 'rate': rate()})
            if nd == 3:
                migs.append({'source': 'C', 'dest': 'A', 'rate': rate()})
        spec = {'demes': demes, 'migs': migs}
        alive = ['A', 'B', 'C'][:nd]
        mode = (k + rep) % 4
        if mode == 1:
            alive = alive[::-1]
        elif mode == 2:
            alive = alive[1:] + alive[:1]
        elif mode == 3:
            alive = alive[:1] if nd == 2 else [alive[2], alive[0]]          # a subset: the others are integrated, then removed
        samples = [(n, 0.0) for n in alive]
        tag = 'sizefn-family:%d-%s-%s' % (nd, '/'.join(fns), layout)
        c = _fam_case(rng, spec, samples, tag, units=(k % 4 == 3), Ne=rng.choice([2.0, 1.5, 3.0]) if k % 5 == 2 else None)
        if k % 2 == 0:
            c['times'] = None
        out.append(c)
    k = 0
    for fns in SIZEFN_2:
        for layout in ('aligned', 'staggered'):
            T0 = rng.choice([1.0, 1.5, 2.0]); N0 = _size(rng)
            (a0, a1), (b0, b1) = _distinct_growths(rng, fns, k + rep)
            A = [(0.0, a0, a1, fns[0])]
            if layout == 'aligned':
                B = [(0.0, b0, b1, fns[1])]
            else:
                Tb = T0 / 2
                f2 = fns[1] if fns[1] != 'constant' else 'linear'
                b2 = _size_other(rng, b1)
                B = [(Tb, b0, b1, fns[1]), (0.0, b1, b2, f2)]
            demes = [{'name': 'R', 'parent': None, 'start': INF, 'epochs': [(T0, N0, N0, 'constant')]},
                     {'name': 'A', 'parent': 'R', 'start': T0, 'epochs': A},
                     {'name': 'B', 'parent': 'R', 'start': T0, 'epochs': B}]
            finish(2, fns, layout, demes, k); k += 1
    for fns in SIZEFN_3:
        layout = 'aligned' if (SIZEFN_3.index(fns) + rep) % 2 == 0 else 'staggered'
        T0 = rng.choice([1.5, 2.0]); Tc = T0 / 2; N0 = _size(rng)
        (a0, a1), (b0, b1), (c0, c1) = _distinct_growths(rng, fns, k + rep)
        A = [(0.0, a0, a1, fns[0])]
        B = [(0.0, b0, b1, fns[1])]
        if layout == 'aligned':
            C = [(0.0, c0, c1, fns[2])]
        else:
            f2 = fns[2] if fns[2] != 'constant' else 'exponential'
            C = [(Tc / 2, c0, c1, fns[2]), (0.0, c1, _size_other(rng, c1), f2)]
        demes = [{'name': 'R', 'parent': None, 'start': INF, 'epochs': [(T0, N0, N0, 'constant')]},
                 {'name': 'A', 'parent': 'R', 'start': T0, 'epochs': A},
                 {'name': 'B', 'parent': 'R', 'start': T0, 'epochs': B},
                 {'name': 'C', 'parent': 'B', 'start': Tc, 'epochs': C}]
        finish(3, fns, layout, demes, k); k += 1
    return out

def sizefn_epoch_classes(orig, tmin=0.0):
    """for a RESOLVED graph: the integration epochs (stretches between consecutive times of the graph, more ancient than tmin) in
    which at least two demes are alive, as (number alive, sorted size-function kinds, all parameters pairwise different?,
    a linear deme listed before another linear deme with a different slope?)"""
    times = set()
    for d in orig['demes']:
        for e in d['epochs']:
            for x in (e['start_time'], e['end_time']):
                if x != INF:
                    times.add(x)
    for m in orig['migrations']:
        for x in (m['start_time'], m['end_time']):
            if x != INF:
                times.add(x)
    for p in orig['pulses']:
        times.add(p['time'])
    ts = sorted(t for t in times if t >= tmin)
    if tmin not in ts:
        ts = [tmin] + ts
    out = []
    for lo, hi in zip(ts[:-1], ts[1:]):
        mid = (lo + hi) / 2
        live = []
        for d in orig['demes']:
            for e in d['epochs']:
                if e['start_time'] > mid >= e['end_time']:
                    fn = e['size_function']
                    if fn == 'constant' or e['start_size'] == e['end_size']:
                        live.append(('constant', 0.0, 1.0))
                    else:
                        span = e['start_time'] - e['end_time']
                        live.append((fn, (e['end_size'] - e['start_size']) / span, (e['end_size'] / e['start_size']) ** (1 / span)))
        if len(live) < 2:
            continue
        kinds = tuple(sorted(x[0] for x in live))
        nonc = [x for x in live if x[0] != 'constant']
        distinct = len({x[1] for x in nonc}) == len(nonc) and len({x[2] for x in nonc}) == len(nonc)
        lin = [x[1] for x in live if x[0] == 'linear']
        out.append((len(live), kinds, distinct, len(lin) >= 2 and len(set(lin)) >= 2))
    return out
