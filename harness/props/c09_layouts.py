"""C09 -- stream 'layouts': argument types, containers and memory layouts.

Folding, unfolding, ancestral misidentification, the operator overloads, slicing and the likelihood auto-fold are
statements about the LOGICAL array (entry [i,j,..] and its mirror [n-i, m-j, ..]).  Nothing in them may depend on how the
same numbers lie in memory or in which numeric type / container they are handed over.  The random generator of c09.py builds
every Spectrum from a C-contiguous float64 array, so a mirror that is only right for C-ordered memory went unnoticed
(seed C09h: Numerics.reverse_array = arr.ravel(order='K')[::-1].reshape(arr.shape)).

Every run (quick tier included) this stream takes a SYSTEMATIC list of base inputs (d = 1..5, even and odd total sample size,
all axis lengths different where possible so that no layout is accidentally palindromic; only data values and mask
positions come from the PRNG) and hands each to every entry point C09 covers in every spelling of the tables below:

  Spectrum     C (canonical) / Fortran-ordered data and mask / only data / only mask / rotated axes / copy=False /
               .transpose() / .T / swapaxes / reorder_pops (reversed, first two swapped) / strided view ([::2] of a larger
               Spectrum) / negative strides (all axes, last axis, of Fortran memory) / nested lists / int64, int32, float32 data /
               int8 mask / data given as a numpy.ma.MaskedArray (C, F) / no mask argument at all (C, F) / Spectrum of a Spectrum
  p_misid      python float, int, bool, numpy float64 / float32 / float16 / int64 / int8 / bool_, 0-d arrays, 1-element array
  params       (make_anc_state_misid_func) ndarray, list, tuple, strided / negative-stride view, float32, object array,
               list of numpy scalars, integer list / array
  operands     scalars as above; ndarray / masked array in the layouts above, as int64 / float32, nested list / tuple;
               Spectrum operand in the Spectrum spellings
  reverse_array on plain ndarray / MaskedArray in each layout.

Each variant is an ordinary C09 case: the property predicates of c09.py are evaluated on it, a fixed subset also goes to the
Coq model, and here
   * every output is compared with the output of the canonical spelling (masks / flags / labels exactly, values bitwise where
     unmasked; likelihoods at 1e-11 because the summation order follows the layout),
   * the second call on the same objects must repeat the first, and the caller's objects (values, masks, flags, labels,
     strides) must be unchanged afterwards,
   * reverse_array(x) must be the logical mirror of x.
What the unchanged library accepts was established once on the unchanged tree (table EXPECTED: anything not listed is
'same'); a spelling listed as 'rejected' / 'differs' is only counted; a spelling listed (by default) as 'same' that now
raises is a violation.  A spelling that does not apply to a base (integer spelling of fractional data, 2-D layout of a
1-D spectrum) is 'n/a' and counted.
"""
from harness import lib

SPECTRUM_SPELLINGS = ['F', 'Fdata', 'Fmask', 'rot', 'nocopyF', 'transpose', 'dotT', 'swapaxes', 'reorder_rev', 'reorder_swap12',
                      'strided', 'neg', 'neg_last', 'negF', 'list', 'int', 'intF', 'int32', 'f32', 'f32F', 'mask_int',
                      'mask_intF', 'ma_in', 'ma_inF', 'nomask', 'nomaskF', 'spec_in_F']
# layouts in which the memory order is not the C order of the logical array (the regime of seed C09h)
NON_C = ['F', 'Fdata', 'Fmask', 'rot', 'nocopyF', 'transpose', 'dotT', 'swapaxes', 'reorder_rev', 'reorder_swap12', 'strided',
         'neg', 'neg_last', 'negF', 'intF', 'f32F', 'mask_intF', 'ma_inF', 'nomaskF', 'spec_in_F']
MAIN = ['F', 'transpose', 'reorder_rev', 'strided', 'neg', 'negF', 'rot', 'swapaxes', 'Fdata', 'Fmask', 'list', 'ma_inF']
COQ_TOO = {'F', 'transpose', 'reorder_rev'}          # spellings whose results also go to the Coq model
P_SPELLINGS = ['np.float64', 'np.float32', 'np.float16', '0d', '1elem', 'ma0d', 'int', 'bool', 'np.int64', 'np.int8', 'np.bool_', '0d_int']
PARAM_SPELLINGS = ['list', 'tuple', 'strided', 'neg', 'f32', 'object', 'list_np', 'int_list', 'int_array']
ARRAY_LAYOUTS = ['F', 'rot', 'swap', 'strided', 'neg', 'neg_last', 'negF']
ARRAY_SPELLINGS = ARRAY_LAYOUTS + ['list', 'tuple', 'int', 'intF', 'f32']
SCALAR_SPELLINGS = ['np.float64', 'np.float32', '0d', '1elem', 'int', 'np.int64', '0d_int', 'bool']

# (entry, which argument, spelling) -> 'rejected' | 'differs'   -- established on the unchanged tree (numpy 2.x); default 'same'
# Reviewed 2026-09-30 against /repo (numpy 2.x) with  C09_LAYOUTS_DISCOVER=<file> ./check C09 : EVERY spelling listed above is
# accepted by every entry point and gives the canonical result (bitwise; likelihoods within 1e-11); none is rejected, none is
# treated differently -- hence the table is empty.  (Spectrum(<Spectrum>) does not inherit extrap_x: the 'spec_in_F' builder of
# the driver passes it explicitly.)  Integer spellings of fractional data and 2-D layouts of 1-D inputs are 'n/a'.
EXPECTED = {
}

FOLD_SHAPES = [(6,), (7,), (3, 4), (3, 5), (2, 3, 4), (2, 3, 5), (2, 3, 2, 4), (2, 3, 4, 3), (2, 3, 2, 3, 2), (2, 3, 2, 3, 3)]
NOMASK_SHAPES = [(5,), (3, 4), (2, 4, 3)]
SMALL_SHAPES = [(6,), (3, 4), (2, 3, 4), (2, 3, 2, 3), (2, 3, 2, 2, 3)]


def _spec(c09, rng, shape, style, folded=False, empty_mask=False, consistent=None):
    s = c09.rand_spec(rng, list(shape), folded=folded, style=style, consistent=consistent)
    n = c09.size(shape)
    if empty_mask:
        s['mask'] = [False] * n
        s['ctor'] = 'explicit'
    else:
        # a mask that is not mirror-symmetric and neither empty nor full
        for _ in range(50):
            m = [rng.random() < 0.25 for _ in range(n)]
            if any(m) and not all(m) and m != m[::-1]:
                break
        if folded and (consistent is None or consistent):
            N = c09.nsamples(shape); t = c09.totals(shape)
            m = [m[i] or t[i] > N // 2 for i in range(n)]
        s['mask'] = m
    if s['pop_ids'] is None:
        s['pop_ids'] = ['p%d' % k for k in range(len(shape))]
    if s['extrap_x'] is None:
        s['extrap_x'] = 0.125
    return s


def _rand_shape(rng, d):
    for _ in range(100):
        shape = tuple(rng.randint(4 if d == 1 else 2, {1: 9, 2: 6, 3: 5, 4: 4, 5: 3}[d]) for _ in range(d))
        if d == 1 or len(set(shape)) > 1:
            return shape
    return shape


def gen(ctx, c09, first_id, reps=1, random_shapes=False):
    """list of cases; each carries 'stream': 'layouts', 'group' (id of the canonical case), 'entry', 'argspell'"""
    rng = ctx.rng
    cases = []
    def add(c, group, entry, arg, spell):
        c['id'] = first_id + len(cases)
        c['stream'] = 'layouts'; c['entry'] = entry; c['argspell'] = [arg, spell]
        c['group'] = c['id'] if group is None else group
        c['nocoq'] = not ((spell in COQ_TOO and arg == 'spectrum' and entry != 'op') or (c['id'] % 16 == 0))
        cases.append(c)
        return c['id']
    import copy
    cp = copy.deepcopy
    for rep in range(reps):
        shapes = list(FOLD_SHAPES)
        if random_shapes or rep > 0:
            shapes = [_rand_shape(rng, d) for d in range(1, 6) for _ in (0, 1)]
        # ---- fold chain (fold, unfold of the result, fold again, fold of the mirror, reverse_array, second call)
        bases = [(_spec(c09, rng, sh, 'counts' if k % 2 == 0 else 'dyadic'), False) for k, sh in enumerate(shapes)]
        bases += [(_spec(c09, rng, sh, 'counts', empty_mask=True), True) for sh in NOMASK_SHAPES]
        for s, nm in bases:
            g = add({'kind': 'fold', 'a': cp(s), 'sp': 'C'}, None, 'fold', 'spectrum', 'C')
            for sp in SPECTRUM_SPELLINGS:
                if sp.startswith('nomask') and not nm:
                    continue
                add({'kind': 'fold', 'a': cp(s), 'sp': sp}, g, 'fold', 'spectrum', sp)
        # ---- unfold of hand-made folded spectra
        sm = list(SMALL_SHAPES) if not (random_shapes or rep > 0) else [_rand_shape(rng, d) for d in range(1, 6)]
        for k, sh in enumerate(sm):
            s = _spec(c09, rng, sh, 'counts' if k % 2 else 'dyadic', folded=True, consistent=(k % 2 == 0))
            g = add({'kind': 'unfold', 'a': cp(s), 'sp': 'C'}, None, 'unfold', 'spectrum', 'C')
            for sp in SPECTRUM_SPELLINGS:
                if not sp.startswith('nomask'):
                    add({'kind': 'unfold', 'a': cp(s), 'sp': sp}, g, 'unfold', 'spectrum', sp)
        # ---- misidentification
        for k, sh in enumerate(sm):
            s = _spec(c09, rng, sh, 'counts' if k % 2 == 0 else 'dyadic', folded=(k == 3))
            pd = lib.dyadic(rng, 0.0625, 0.9375, 4)
            for p in (pd, 0.0, 1.0):
                g = add({'kind': 'misid', 'a': cp(s), 'p': p, 'via': 'apply', 'sp': 'C', 'psp': 'float'}, None, 'misid', 'spectrum', 'C')
                for sp in (SPECTRUM_SPELLINGS if p == pd else MAIN[:4]):
                    if not sp.startswith('nomask'):
                        add({'kind': 'misid', 'a': cp(s), 'p': p, 'via': 'apply', 'sp': sp, 'psp': 'float'}, g, 'misid', 'spectrum', sp)
                gf = add({'kind': 'misid', 'a': cp(s), 'p': p, 'via': 'func', 'sp': 'C', 'parsp': 'ndarray'}, None, 'misid_func', 'spectrum', 'C')
                for sp in (MAIN if p == pd else MAIN[:2]):
                    add({'kind': 'misid', 'a': cp(s), 'p': p, 'via': 'func', 'sp': sp, 'parsp': 'ndarray'}, gf, 'misid_func', 'spectrum', sp)
                if k in (1, 2):        # the 2-D and the 3-D base: every spelling of p / of the parameter vector
                    for asp in ('C', 'F' if k == 1 else 'reorder_rev'):
                        for psp in P_SPELLINGS:
                            add({'kind': 'misid', 'a': cp(s), 'p': p, 'via': 'apply', 'sp': asp, 'psp': psp}, g, 'misid', 'p_misid', psp)
                    for asp in ('C', 'transpose'):
                        for parsp in PARAM_SPELLINGS:
                            add({'kind': 'misid', 'a': cp(s), 'p': p, 'via': 'func', 'sp': asp, 'parsp': parsp}, gf, 'misid_func', 'params', parsp)
        # ---- reverse_array on plain arrays
        for k, sh in enumerate(sm):
            s = _spec(c09, rng, sh, 'dyadic')
            g = add({'kind': 'unary', 'op': 'reverse_ndarray', 'a': cp(s), 'sp': 'C', 'lay': 'C'}, None, 'reverse_array', 'array', 'C')
            for lay in ARRAY_LAYOUTS:
                add({'kind': 'unary', 'op': 'reverse_ndarray', 'a': cp(s), 'sp': 'C', 'lay': lay}, g, 'reverse_array', 'array', lay)
        # ---- slicing
        for k, sh in enumerate(sm[1:4]):
            s = _spec(c09, rng, sh, 'counts' if k == 0 else 'dyadic', folded=(k == 1))
            sel = [{'s': [None, None, -1]}, {'s': [1, None, None]}, {'i': 1}, {'s': [None, None, 2]}][:len(sh)]
            g = add({'kind': 'slice', 'a': cp(s), 'sel': sel, 'sp': 'C'}, None, 'slice', 'spectrum', 'C')
            for sp in SPECTRUM_SPELLINGS:
                if not sp.startswith('nomask'):
                    add({'kind': 'slice', 'a': cp(s), 'sel': sel, 'sp': sp}, g, 'slice', 'spectrum', sp)
        # ---- likelihoods (auto-fold of the model against folded data, and the plain combinations)
        llcnt = {}
        for k, sh in enumerate(sm[:4]):
            for combo in ('uf', 'ff', 'uu'):
                for multinom in (False, True):
                    model = _spec(c09, rng, sh, 'positive', folded=combo[0] == 'f', consistent=False)
                    data = _spec(c09, rng, sh, 'counts', folded=combo[1] == 'f', consistent=True)
                    n = c09.size(sh); N = c09.nsamples(sh); t = c09.totals(sh)
                    data['data'] = [0.0 if (combo[1] == 'f' and t[i] > N // 2) else float(rng.randint(1, 6)) for i in range(n)]
                    model['mask'] = [rng.random() < 0.1 for _ in range(n)]
                    data['mask'] = [(combo[1] == 'f' and t[i] > N // 2) or rng.random() < 0.1 for i in range(n)]
                    model['ctor'] = 'default'; data['ctor'] = 'default'
                    # keep at least one comparable entry (a comparison with everything masked is outside C09; same rule as
                    # the random likelihood cases of c09.gen_cases)
                    def comparable(i):
                        if i == 0 or i == n - 1 or data['mask'][i] or model['mask'][i] or data['data'][i] <= 0:
                            return False
                        if combo == 'uf':
                            return t[i] <= N // 2 and not model['mask'][n - 1 - i]
                        return True
                    if not any(comparable(i) for i in range(n)):
                        model['mask'] = [False] * n
                        data['mask'] = [combo[1] == 'f' and t[i] > N // 2 for i in range(n)]
                    if not any(comparable(i) for i in range(n)):
                        continue
                    base = {'kind': 'll', 'multinom': multinom, 'model': model, 'data': data}
                    g = add(dict(cp(base), msp='C', dsp='C'), None, 'll', 'both', 'C')
                    k0 = llcnt.get(combo, 0); llcnt[combo] = k0 + 4       # 8 bases per combination x 4 = every spelling 2-3 times
                    for sp in [MAIN[(k0 + j) % len(MAIN)] for j in range(4)]:
                        add(dict(cp(base), msp=sp, dsp='C'), g, 'll', 'model', sp)
                        add(dict(cp(base), msp='C', dsp=sp), g, 'll', 'data', sp)
                        add(dict(cp(base), msp=sp, dsp=sp), g, 'll', 'both', sp)
        # ---- operators: every method, every operand kind, operand and Spectrum spellings in rotation (all covered)
        rot = 0; cnt = {}; acnt = 0
        for name in c09.BINOPS + c09.IOPS:
            kind = 'iop' if name in c09.IOPS else 'bin'
            powlike = name in ('__pow__', '__ipow__'); rpow = name == '__rpow__'
            for otype in ('scalar', 'array', 'masked', 'spec'):
                sh = sm[1 + rot % 3]
                n = c09.size(sh)
                a = _spec(c09, rng, sh, 'positive', folded=(rot % 4 == 1))
                if rpow:
                    a['data'] = [float(rng.randint(0, 4)) for _ in range(n)]
                if otype == 'scalar':
                    o = {'t': 'scalar', 'v': float(rng.randint(1, 3))}
                    spells = SCALAR_SPELLINGS
                else:
                    od = [float(rng.randint(1, 3)) for _ in range(n)]
                    if otype == 'array':
                        o = {'t': 'array', 'shape': list(sh), 'data': od}; spells = ARRAY_SPELLINGS
                    elif otype == 'masked':
                        o = {'t': 'masked', 'shape': list(sh), 'data': od, 'mask': [rng.random() < 0.2 for _ in range(n)]}
                        spells = ARRAY_LAYOUTS + ['int', 'f32']
                    else:
                        o = _spec(c09, rng, sh, 'positive', folded=a['folded'])
                        o['data'] = od; o['t'] = 'spec'; o['pop_ids'] = a['pop_ids']; o['extrap_x'] = a['extrap_x']
                        spells = [x for x in SPECTRUM_SPELLINGS if not x.startswith('nomask')]
                k0 = cnt.get(otype, 0); cnt[otype] = k0 + 3
                pick = [spells[(k0 + j) % len(spells)] for j in range(3)]
                if otype == 'scalar' and 'bool' in pick:
                    o['v'] = 1.0            # the only value with a bool spelling (coverage must not depend on the PRNG)
                call = 'method' if (name in c09.DEAD or (otype == 'spec' and name.startswith('__r')) or rot % 3 == 0) else 'syntax'
                base = {'kind': kind, 'op': name, 'call': call, 'a': a, 'b': o}
                g = add(dict(cp(base), sp='C', bsp='C'), None, 'op', 'both', 'C')
                for j, bsp in enumerate(dict.fromkeys(pick)):
                    asp = MAIN[acnt % len(MAIN)]; acnt += 1
                    add(dict(cp(base), sp='C', bsp=bsp), g, 'op', 'operand:' + otype, bsp)
                    add(dict(cp(base), sp=asp, bsp=bsp), g, 'op', 'spectrum', asp)
                rot += 1
    return cases


# ------------------------------------------------------------------------------------------------

DUMP_KEYS = ['in', 'f', 'u', 'f2', 'fr', 'rev', 'r', 'r2', 'b_in', 'a_after', 'model_in', 'data_in', 'model_after']
AGAIN = [('f_again', 'f'), ('u_again', 'u'), ('r_again', 'r')]
UNCHANGED = [('in_after', 'in'), ('b_after', 'b_before'), ('data_after', 'data_in'), ('model_after', 'model_in')]


def _same_dump(x, y, full=False):
    """None or why two dumps differ (values only where unmasked unless full)"""
    if (x is None) != (y is None):
        return 'one is missing'
    if x is None:
        return None
    if ('raised' in x) or ('raised' in y):
        return None if x.get('raised') == y.get('raised') else 'raised %r vs %r' % (x.get('raised'), y.get('raised'))
    for k in ('type', 'shape', 'folded', 'pop_ids', 'extrap_x'):
        if x.get(k) != y.get(k):
            return '%s %r vs %r' % (k, x.get(k), y.get(k))
    if x.get('mask') != y.get('mask'):
        xm, ym = x.get('mask'), y.get('mask')
        if xm is None or ym is None:
            return 'mask present vs absent'
        bad = [i for i in range(len(xm)) if xm[i] != ym[i]]
        return 'mask differs at flat (C-order) indices %r' % bad[:6]
    xd, yd = x.get('data'), y.get('data')
    if xd is None or yd is None:
        return None if x.get('scalar') == y.get('scalar') else 'scalar %r vs %r' % (x.get('scalar'), y.get('scalar'))
    m = x.get('mask') or [False] * len(xd)
    for i in range(len(xd)):
        if (full or not m[i]) and xd[i] != yd[i]:
            return 'value at flat (C-order) index %d: %r vs %r' % (i, xd[i], yd[i])
    return None


def expected(c):
    arg, spell = c['argspell']
    return EXPECTED.get((c['entry'], arg, spell), EXPECTED.get(('*', arg, spell), 'same'))


def compare(ctx, cases, byid, fail, discover=None):
    """variant vs canonical, repeat calls, frame condition, mirror predicate.  fail(case, rec, msg) reports a violation.
    Returns the set of case ids that ran (to be processed by the ordinary predicates / Coq model)."""
    ran = set()
    exercised = set()
    for c in cases:
        if c.get('stream') != 'layouts':
            continue
        r = byid[c['id']]
        arg, spell = c['argspell']
        label = '%s/%s=%s' % (c['entry'], arg, spell)
        exp = expected(c)
        if r.get('na'):
            ctx.count('layouts n/a'); continue
        if 'crash' in r:
            ctx.count('layouts rejected: ' + label)
            if discover is not None:
                discover.setdefault((c['entry'], arg, spell), set()).add('rejected: ' + r['crash'][:80])
            if exp == 'same':
                fail(c, r, 'spelling %s is accepted by the unchanged library but now raises: %s' % (label, r['crash']))
            continue
        base = byid.get(c['group'])
        if base is None or 'crash' in base or base.get('na'):
            ctx.obligation('layouts: canonical case of group %d ran' % c['group'], False, 'harness', str(base)[:200])
            continue
        # ---- frame condition and repeatability (every spelling, the canonical one included)
        for k2, k1 in AGAIN:
            if k2 in r:
                w = _same_dump(r[k1], r[k2])
                if w:
                    fail(c, r, '%s: the second call on the same object gives another result (%s): %s' % (label, k1, w))
        if r.get('ll_again', r.get('ll')) != r.get('ll'):
            fail(c, r, '%s: the second likelihood call on the same objects gives %r, the first %r' % (label, r.get('ll_again'), r.get('ll')))
        for k2, k1 in UNCHANGED:
            if k2 in r and k1 in r and c['kind'] != 'iop':
                w = _same_dump(r[k1], r[k2], full=True)
                if w:
                    fail(c, r, '%s: the caller\'s object was modified by the call (%s): %s' % (label, k1, w))
                if r.get(k2 + '_strides_same') is False:
                    fail(c, r, '%s: the caller\'s object changed its memory layout during the call' % label)
        if r.get('p_after') is False:
            fail(c, r, '%s: the parameter object was modified by the call' % label)
        # ---- reverse_array is the logical mirror
        for key in ('rev', 'r', 'r2') if c['entry'] in ('fold', 'reverse_array') else ():
            if key == 'r' and c['entry'] != 'reverse_array':
                continue
            o = r.get(key); x = r['in']
            if o is None:
                continue
            if o.get('shape') != x['shape'] or o.get('data') != x['data'][::-1] or (o.get('mask') is not None and o['mask'] != x['mask'][::-1]):
                fail(c, r, '%s: Numerics.reverse_array(x) is not the mirror of x along every axis (x in layout %s)' % (label, spell))
        # ---- the variant must be the same logical input as the canonical one
        same_in = True
        for k in ('in', 'model_in', 'data_in', 'b_in'):
            if k in base or k in r:
                w = _same_dump(base.get(k), r.get(k))
                if w:
                    same_in = False
                    if discover is not None:
                        discover.setdefault((c['entry'], arg, spell), set()).add('differs: input ' + w[:60])
                    if exp == 'same':
                        fail(c, r, '%s: the library builds another object from this spelling than on the unchanged tree (%s): %s' % (label, k, w))
        if not same_in:
            ctx.count('layouts differs: ' + label)
            continue
        ran.add(c['id'])
        exercised.add((c['entry'], arg, spell))
        ctx.count('layouts ' + c['entry'] + ' ' + arg + '=' + spell)
        if exp != 'same':
            continue
        if c['id'] == c['group']:
            continue
        # ---- outputs equal to the canonical spelling
        for k in DUMP_KEYS:
            if k in ('in', 'model_in', 'data_in', 'b_in'):
                continue
            if c['kind'] == 'unary' and k in ('r', 'r2') and c['entry'] == 'reverse_array':
                pass
            if k in base or k in r:
                w = _same_dump(base.get(k), r.get(k))
                if w:
                    if discover is not None:
                        discover.setdefault((c['entry'], arg, spell), set()).add('differs: output %s %s' % (k, w[:60]))
                    fail(c, r, '%s: result %s differs from the result of the canonical (C-ordered float64) spelling of the same input: %s'
                         % (label, k, w))
                    break
        for k in ('ll', 'll_prefolded'):
            if k in base or k in r:
                a_, b_ = base.get(k), r.get(k)
                if (a_ is None) != (b_ is None) or (a_ is not None and abs(a_ - b_) > 1e-11 * max(abs(a_), 1.0)):
                    fail(c, r, '%s: %s = %r, with the canonical spelling %r' % (label, k, b_, a_))
        if base.get('raised') != r.get('raised'):
            fail(c, r, '%s: raised %r, canonical spelling %r' % (label, r.get('raised'), base.get('raised')))
        if base.get('name') != r.get('name'):
            fail(c, r, '%s: wrapped function name %r vs %r' % (label, r.get('name'), base.get('name')))
    return ran, exercised


def coverage(ctx, exercised):
    """every spelling expected to be accepted was really exercised, per entry point (fail closed)"""
    need = set()
    for e in ('fold', 'unfold', 'misid', 'slice'):
        for sp in SPECTRUM_SPELLINGS:
            if sp.startswith('nomask') and e != 'fold':
                continue
            need.add((e, 'spectrum', sp))
    for sp in MAIN:
        need |= {('misid_func', 'spectrum', sp), ('ll', 'model', sp), ('ll', 'data', sp), ('ll', 'both', sp), ('op', 'spectrum', sp)}
    need |= {('misid', 'p_misid', s) for s in P_SPELLINGS}
    need |= {('misid_func', 'params', s) for s in PARAM_SPELLINGS}
    need |= {('reverse_array', 'array', s) for s in ARRAY_LAYOUTS}
    need |= {('op', 'operand:scalar', s) for s in SCALAR_SPELLINGS}
    need |= {('op', 'operand:array', s) for s in ARRAY_SPELLINGS}
    need |= {('op', 'operand:masked', s) for s in ARRAY_LAYOUTS + ['int', 'f32']}
    need |= {('op', 'operand:spec', s) for s in SPECTRUM_SPELLINGS if not s.startswith('nomask')}
    need = {k for k in need if EXPECTED.get(k, EXPECTED.get(('*', k[1], k[2]), 'same')) == 'same'}
    miss = sorted(need - exercised)
    ctx.obligation('layouts stream: every accepted spelling of every argument reached every entry point (%d combinations)' % len(need),
                   not miss, 'harness', ', '.join('%s/%s=%s' % k for k in miss[:12]))
