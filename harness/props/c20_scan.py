"""C20 — fail-closed enumeration of every piece of memo-like state in the dadi source tree (Python `ast`).

`memo_state(root)` walks every .py file under dadi/ and lists, per file (path relative to dadi/):

  modlist:<name>           a module-level name bound to an EMPTY list / set (an accumulator: dadi.Demes.cache)
  module:<name>            a module-level name bound to an (empty or not) dict display, dict(), defaultdict(..), OrderedDict(),
                           WeakValueDictionary() ...  (a dictionary that outlives a call)
  closure:<func>.<name>    a function-local dictionary that a nested def / lambda of that function refers to (it outlives the
                           call that made it for as long as the returned closure lives)
  decorator:<func>:<name>  a memoising decorator (lru_cache, cache, cached_property, memoize ...)
  default:<func>.<param>   a mutable default argument that the function body stores into (the classic hidden cache)
  funcattr:<func>.<attr>   `f.attr = {}`-style state hung on a function object at module level
  global:<func>.<name>     a `global` declaration (module-level re-binding from inside a function)

The list is compared with the table in c20.py; ANY difference (new dictionary, dictionary moved from a closure to the
module, renamed, removed) is a broken obligation and sends the check to the near-collision search of the family the file
belongs to.  Nothing here guesses: a file that does not parse raises Refuse.

`signature(path, qualname)` returns the parameter names of a (possibly nested / method) function, used to check that the
near-collision table names EVERY argument of every public entry point.
"""
import ast, os
from harness.translate.entry_protocol import Refuse, _parse, _walk_no_nested

DICT_CALLS = {'dict', 'defaultdict', 'OrderedDict', 'WeakValueDictionary', 'WeakKeyDictionary', 'Counter', 'ChainMap', 'LRUCache'}
MEMO_DECORATORS = ('lru_cache', 'cache', 'cached_property', 'memoize', 'memoized', 'memo', 'cached')


def _is_dict_value(v):
    if isinstance(v, (ast.Dict, ast.DictComp)):
        return True
    if isinstance(v, ast.Call):
        f = v.func
        name = f.id if isinstance(f, ast.Name) else f.attr if isinstance(f, ast.Attribute) else None
        return name in DICT_CALLS
    return False


def _is_empty_seq(v):
    if isinstance(v, (ast.List, ast.Set)) and not v.elts:
        return True
    return isinstance(v, ast.Call) and isinstance(v.func, ast.Name) and v.func.id in ('list', 'set', 'deque') and not v.args and not v.keywords


def _targets(node):
    if isinstance(node, ast.Assign):
        return node.targets
    if isinstance(node, ast.AnnAssign) and node.value is not None:
        return [node.target]
    return []


def _nested_funcs(fn):
    """function / lambda nodes nested (at any depth) in fn"""
    out = []
    for n in ast.walk(fn):
        if n is not fn and isinstance(n, (ast.FunctionDef, ast.AsyncFunctionDef, ast.Lambda)):
            out.append(n)
    return out


def _decorator_name(d):
    if isinstance(d, ast.Call):
        d = d.func
    if isinstance(d, ast.Name):
        return d.id
    if isinstance(d, ast.Attribute):
        return d.attr
    return ast.unparse(d)


def _parse_quiet(path):
    import warnings
    with warnings.catch_warnings():
        warnings.simplefilter('ignore')         # invalid escape sequences in docstrings of the scanned source
        return _parse(path)


def scan_file(path):
    tree = _parse_quiet(path)
    found = []
    # module level (also inside module-level if / try / with blocks)
    def module_stmts(body):
        for n in body:
            if isinstance(n, (ast.If, ast.Try, ast.With, ast.For, ast.While)):
                for fld in ('body', 'orelse', 'finalbody'):
                    for m in module_stmts(getattr(n, fld, []) or []):
                        yield m
                for h in getattr(n, 'handlers', []) or []:
                    for m in module_stmts(h.body):
                        yield m
            else:
                yield n
    for n in module_stmts(tree.body):
        for t in _targets(n):
            if _is_dict_value(n.value):
                if isinstance(t, ast.Name):
                    found.append('module:' + t.id)
                elif isinstance(t, ast.Attribute) and isinstance(t.value, ast.Name):
                    found.append('funcattr:%s.%s' % (t.value.id, t.attr))
            elif _is_empty_seq(n.value) and isinstance(t, ast.Name) and not (t.id.startswith('__') and t.id.endswith('__')):
                found.append('modlist:' + t.id)
    # functions, all nesting levels
    def rec(node, qual):
        for c in ast.iter_child_nodes(node):
            if isinstance(c, (ast.FunctionDef, ast.AsyncFunctionDef)):
                q = (qual + '.' if qual else '') + c.name
                for d in c.decorator_list:
                    dn = _decorator_name(d)
                    if dn in MEMO_DECORATORS or 'cache' in dn.lower() or 'memo' in dn.lower():
                        found.append('decorator:%s:%s' % (q, dn))
                # local dictionaries referred to by a nested function
                local = {}
                for n in _walk_no_nested(c):
                    for t in _targets(n):
                        if isinstance(t, ast.Name) and _is_dict_value(n.value):
                            local[t.id] = n.lineno
                if local:
                    used = set()
                    for nf in _nested_funcs(c):
                        for m in ast.walk(nf):
                            if isinstance(m, ast.Name) and m.id in local:
                                used.add(m.id)
                    for name in sorted(used):
                        found.append('closure:%s.%s' % (q, name))
                # mutable defaults the body stores into
                args = c.args
                pos = args.posonlyargs + args.args
                pairs = list(zip(pos[len(pos) - len(args.defaults):], args.defaults)) + [(a, d) for a, d in zip(args.kwonlyargs, args.kw_defaults) if d is not None]
                for a, d in pairs:
                    if isinstance(d, (ast.Dict, ast.List, ast.Set)) or _is_dict_value(d):
                        stores = False
                        for m in ast.walk(c):
                            if isinstance(m, ast.Subscript) and isinstance(m.ctx, ast.Store) and isinstance(m.value, ast.Name) and m.value.id == a.arg:
                                stores = True
                            if isinstance(m, ast.Call) and isinstance(m.func, ast.Attribute) and isinstance(m.func.value, ast.Name) and m.func.value.id == a.arg \
                                    and m.func.attr in ('append', 'update', 'setdefault', 'extend', 'add', 'insert'):
                                stores = True
                        if stores:
                            found.append('default:%s.%s' % (q, a.arg))
                for n in _walk_no_nested(c):
                    if isinstance(n, ast.Global):
                        for name in n.names:
                            found.append('global:%s.%s' % (q, name))
                    # state hung on a function / class object from inside a function:  f.cache = {}
                    for t in _targets(n):
                        if isinstance(t, ast.Attribute) and isinstance(t.value, ast.Name) and t.value.id != 'self' and _is_dict_value(n.value):
                            found.append('funcattr:%s.%s(in %s)' % (t.value.id, t.attr, q))
                rec(c, q)
            elif isinstance(c, ast.ClassDef):
                q = (qual + '.' if qual else '') + c.name
                for n in c.body:
                    for t in _targets(n):
                        if isinstance(t, ast.Name) and _is_dict_value(n.value):
                            found.append('classattr:%s.%s' % (q, t.id))
                rec(c, q)
            else:
                rec(c, qual)
    rec(tree, '')
    return sorted(set(found))


def memo_state(root):
    """{relative path: [state items]} for every .py under root that has any"""
    out = {}
    for dp, dn, fn in os.walk(root):
        dn[:] = sorted(d for d in dn if d not in ('__pycache__',))
        for f in sorted(fn):
            if not f.endswith('.py'):
                continue
            p = os.path.join(dp, f)
            items = scan_file(p)
            if items:
                out[os.path.relpath(p, root)] = items
    return out


def signature(path, qualname):
    """parameter names (positional, keyword-only, *args as '*name', **kwargs as '**name') of Class.method / func / outer.inner"""
    tree = _parse_quiet(path)
    node = tree
    for part in qualname.split('.'):
        cands = [n for n in ast.walk(node) if isinstance(n, (ast.FunctionDef, ast.ClassDef)) and n.name == part and n is not node]
        # nearest first: direct children preferred
        direct = [n for n in ast.iter_child_nodes(node) if isinstance(n, (ast.FunctionDef, ast.ClassDef)) and n.name == part]
        pick = direct or cands
        if len(pick) != 1:
            raise Refuse('%s: %s not found (or ambiguous: %d)' % (path, qualname, len(pick)))
        node = pick[0]
    if not isinstance(node, ast.FunctionDef):
        raise Refuse('%s: %s is not a function' % (path, qualname))
    a = node.args
    names = [x.arg for x in a.posonlyargs + a.args + a.kwonlyargs]
    if a.vararg:
        names.append('*' + a.vararg.arg)
    if a.kwarg:
        names.append('**' + a.kwarg.arg)
    return [n for n in names if n not in ('self', 'cls')]
