"""C20 — fail-closed enumeration of every piece of memo-like state in the dadi source tree (Python `ast`).

`memo_state(root)` walks every .py file under dadi/ and lists, per file (path relative to dadi/):

  modlist:<name>           a module-level name bound to an EMPTY list / set (an accumulator: dadi.Demes.cache)
  module:<name>            a module-level name bound to an (empty or not) dict display, dict(), defaultdict(..), OrderedDict(),
                           WeakValueDictionary() ...  (a dictionary that outlives a call)
  closure:<func>.<name>    a function-local dictionary that a nested def / lambda of that function refers to (it outlives the
                           call that made it for as long as the returned closure lives)
  decorator:<func>:<name>  a memoising decorator (lru_cache, cache, cached_property, memoize ...)
  default:<func>.<param>   a mutable default argument that the function body stores into (the classic hidden cache)
  funcattr:<func>.<attr>   `f.attr = {}`-style state hung on a function object at module level
  global:<func>.<name>     a `global` declaration (module-level re-binding from inside a function)

The list is compared with the table in c20.py; ANY difference (new dictionary, dictionary moved from a closure to the
module, renamed, removed) is a broken obligation and sends the check to the near-collision search of the family the file
belongs to.  Nothing here guesses: a file that does not parse raises Refuse.

`signature(path, qualname)` returns the parameter names of a (possibly nested / method) function, used to check that the
near-collision table names EVERY argument of every public entry point.
"""
import ast, os
from harness.translate.entry_protocol import Refuse, _parse, _walk_no_nested

DICT_CALLS = {'dict', 'defaultdict', 'OrderedDict', 'WeakValueDictionary', 'WeakKeyDictionary', 'Counter', 'ChainMap', 'LRUCache'}
MEMO_DECORATORS = ('lru_cache', 'cache', 'cached_property', 'memoize', 'memoized', 'memo', 'cached')


def _is_dict_value(v):
    if isinstance(v, (ast.Dict, ast.DictComp)):
        return True
    if isinstance(v, ast.Call):
        f = v.func
        name = f.id if isinstance(f, ast.Name) else f.attr if isinstance(f, ast.Attribute) else None
        return name in DICT_CALLS
    return False


def _is_empty_seq(v):
    if isinstance(v, (ast.List, ast.Set)) and not v.elts:
        return True
    return isinstance(v, ast.Call) and isinstance(v.func, ast.Name) and v.func.id in ('list', 'set', 'deque') and not v.args and not v.keywords


def _targets(node):
    if isinstance(node, ast.Assign):
        return node.targets
    if isinstance(node, ast.AnnAssign) and node.value is not None:
        return [node.target]
    return []


def _nested_funcs(fn):
    """function / lambda nodes nested (at any depth) in fn"""
    out = []
    for n in ast.walk(fn):
        if n is not fn and isinstance(n, (ast.FunctionDef, ast.AsyncFunctionDef, ast.Lambda)):
            out.append(n)
    return out


def _decorator_name(d):
    if isinstance(d, ast.Call):
        d = d.func
    if isinstance(d, ast.Name):
        return d.id
    if isinstance(d, ast.Attribute):
        return d.attr
    return ast.unparse(d)


def _parse_quiet(path):
    import warnings
    with warnings.catch_warnings():
        warnings.simplefilter('ignore')         # invalid escape sequences in docstrings of the scanned source
        return _parse(path)


def scan_file(path):
    tree = _parse_quiet(path)
    found = []
    # module level (also inside module-level if / try / with blocks)
    def module_stmts(body):
        for n in body:
            if isinstance(n, (ast.If, ast.Try, ast.With, ast.For, ast.While)):
                for fld in ('body', 'orelse', 'finalbody'):
                    for m in module_stmts(getattr(n, fld, []) or []):
                        yield m
                for h in getattr(n, 'handlers', []) or []:
                    for m in module_stmts(h.body):
                        yield m
            else:
                yield n
    for n in module_stmts(tree.body):
        for t in _targets(n):
            if _is_dict_value(n.value):
                if isinstance(t, ast.Name):
                    found.append('module:' + t.id)
                elif isinstance(t, ast.Attribute) and isinstance(t.value, ast.Name):
                    found.append('funcattr:%s.%s' % (t.value.id, t.attr))
            elif _is_empty_seq(n.value) and isinstance(t, ast.Name) and not (t.id.startswith('__') and t.id.endswith('__')):
                found.append('modlist:' + t.id)
    # functions, all nesting levels
    def rec(node, qual):
        for c in ast.iter_child_nodes(node):
            if isinstance(c, (ast.FunctionDef, ast.AsyncFunctionDef)):
                q = (qual + '.' if qual else '') + c.name
                for d in c.decorator_list:
                    dn = _decorator_name(d)
                    if dn in MEMO_DECORATORS or 'cache' in dn.lower() or 'memo' in dn.lower():
                        found.append('decorator:%s:%s' % (q, dn))
                # local dictionaries referred to by a nested function
                local = {}
                for n in _walk_no_nested(c):
                    for t in _targets(n):
                        if isinstance(t, ast.Name) and _is_dict_value(n.value):
                            local[t.id] = n.lineno
                if local:
                    used = set()
                    for nf in _nested_funcs(c):
                        for m in ast.walk(nf):
                            if isinstance(m, ast.Name) and m.id in local:
                                used.add(m.id)
                    for name in sorted(used):
                        found.append('closure:%s.%s' % (q, name))
                # mutable defaults the body stores into
                args = c.args
                pos = args.posonlyargs + args.args
                pairs = list(zip(pos[len(pos) - len(args.defaults):], args.defaults)) + [(a, d) for a, d in zip(args.kwonlyargs, args.kw_defaults) if d is not None]
                for a, d in pairs:
                    if isinstance(d, (ast.Dict, ast.List, ast.Set)) or _is_dict_value(d):
                        stores = False
                        for m in ast.walk(c):
                            if isinstance(m, ast.Subscript) and isinstance(m.ctx, ast.Store) and isinstance(m.value, ast.Name) and m.value.id == a.arg:
                                stores = True
                            if isinstance(m, ast.Call) and isinstance(m.func, ast.Attribute) and isinstance(m.func.value, ast.Name) and m.func.value.id == a.arg \
                                    and m.func.attr in ('append', 'update', 'setdefault', 'extend', 'add', 'insert'):
                                stores = True
                        if stores:
                            found.append('default:%s.%s' % (q, a.arg))
                for n in _walk_no_nested(c):
                    if isinstance(n, ast.Global):
                        for name in n.names:
                            found.append('global:%s.%s' % (q, name))
                    # state hung on a function / class object from inside a function:  f.cache = {}
                    for t in _targets(n):
                        if isinstance(t, ast.Attribute) and isinstance(t.value, ast.Name) and t.value.id != 'self' and _is_dict_value(n.value):
                            found.append('funcattr:%s.%s(in %s)' % (t.value.id, t.attr, q))
                rec(c, q)
            elif isinstance(c, ast.ClassDef):
                q = (qual + '.' if qual else '') + c.name
                for n in c.body:
                    for t in _targets(n):
                        if isinstance(t, ast.Name) and _is_dict_value(n.value):
                            found.append('classattr:%s.%s' % (q, t.id))
                rec(c, q)
            else:
                rec(c, qual)
    rec(tree, '')
    return sorted(set(found))


def memo_state(root):
    """{relative path: [state items]} for every .py under root that has any"""
    out = {}
    for dp, dn, fn in os.walk(root):
        dn[:] = sorted(d for d in dn if d not in ('__pycache__',))
        for f in sorted(fn):
            if not f.endswith('.py'):
                continue
            p = os.path.join(dp, f)
            items = scan_file(p)
            if items:
                out[os.path.relpath(p, root)] = items
    return out


def signature(path, qualname):
    """parameter names (positional, keyword-only, *args as '*name', **kwargs as '**name') of Class.method / func / outer.inner"""
    tree = _parse_quiet(path)
    node = tree
    for part in qualname.split('.'):
        cands = [n for n in ast.walk(node) if isinstance(n, (ast.FunctionDef, ast.ClassDef)) and n.name == part and n is not node]
        # nearest first: direct children preferred
        direct = [n for n in ast.iter_child_nodes(node) if isinstance(n, (ast.FunctionDef, ast.ClassDef)) and n.name == part]
        pick = direct or cands
        if len(pick) != 1:
            raise Refuse('%s: %s not found (or ambiguous: %d)' % (path, qualname, len(pick)))
        node = pick[0]
    if not isinstance(node, ast.FunctionDef):
        raise Refuse('%s: %s is not a function' % (path, qualname))
    a = node.args
    names = [x.arg for x in a.posonlyargs + a.args + a.kwonlyargs]
    if a.vararg:
        names.append('*' + a.vararg.arg)
    if a.kwarg:
        names.append('**' + a.kwarg.arg)
    return [n for n in names if n not in ('self', 'cls')]


# ----------------------------------------------------------------------------------------------------------------------
# module-level SETTINGS: scalars (and random generators) that functions read without being handed them.
# A setting read by a memoised function is part of the call (Model/Memo.v, section SettingMemo): a memo keyed on the
# arguments only answers the call made after `dadi.<Module>.<setting> = x` with the value stored under the old setting.

RNG_CALLS = {'default_rng', 'RandomState', 'Random', 'Generator', 'SystemRandom'}


def _scalar_literal(v):
    """(True, python value) for a literal bool / int / float / str / None (also with a sign), else (False, None)"""
    if isinstance(v, ast.Constant) and isinstance(v.value, (bool, int, float, str, type(None))):
        return True, v.value
    if isinstance(v, ast.UnaryOp) and isinstance(v.op, (ast.USub, ast.UAdd)) and isinstance(v.operand, ast.Constant) \
            and isinstance(v.operand.value, (int, float)) and not isinstance(v.operand.value, bool):
        return True, (-v.operand.value if isinstance(v.op, ast.USub) else v.operand.value)
    return False, None


def _module_stmts(body):
    for n in body:
        if isinstance(n, (ast.If, ast.Try, ast.With, ast.For, ast.While)):
            for fld in ('body', 'orelse', 'finalbody'):
                for m in _module_stmts(getattr(n, fld, []) or []):
                    yield m
            for h in getattr(n, 'handlers', []) or []:
                for m in _module_stmts(h.body):
                    yield m
        else:
            yield n


def _module_level(tree):
    """(scalars {name: [values in order of assignment]}, rngs [names], dicts [names], funcs {name: node}) of a module"""
    scalars, rngs, dicts, funcs = {}, [], [], {}
    for n in _module_stmts(tree.body):
        if isinstance(n, (ast.FunctionDef, ast.AsyncFunctionDef)):
            funcs[n.name] = n
        for t in _targets(n):
            if not isinstance(t, ast.Name) or (t.id.startswith('__') and t.id.endswith('__')):
                continue
            ok, val = _scalar_literal(n.value)
            if ok:
                scalars.setdefault(t.id, []).append(val)
            elif isinstance(n.value, ast.Call) and _decorator_name(n.value) in RNG_CALLS:
                rngs.append(t.id)
            elif _is_dict_value(n.value):
                dicts.append(t.id)
    return scalars, rngs, dicts, funcs


def _local_bindings(fn):
    """names bound inside fn itself (parameters, assignments, loop / with / comprehension-free targets) that are not declared global"""
    a = fn.args
    bound = set(x.arg for x in a.posonlyargs + a.args + a.kwonlyargs)
    if a.vararg:
        bound.add(a.vararg.arg)
    if a.kwarg:
        bound.add(a.kwarg.arg)
    glob = set()
    if isinstance(fn, ast.Lambda):
        return bound, glob
    for n in _walk_no_nested(fn):
        if isinstance(n, ast.Global):
            glob.update(n.names)
        elif isinstance(n, ast.Name) and isinstance(n.ctx, (ast.Store, ast.Del)):
            bound.add(n.id)
        elif isinstance(n, (ast.Import, ast.ImportFrom)):
            for al in n.names:
                bound.add((al.asname or al.name).split('.')[0])
    return bound - glob, glob


def _function_reads(tree, names):
    """{qualified function name: (set of `names` the function itself loads as a free (module-level) name, set of other free names it loads)}
    for every def / lambda-free function, all nesting levels; a nested function inherits the shadowing of the enclosing ones"""
    out = {}
    def rec(node, qual, shadow):
        for c in ast.iter_child_nodes(node):
            if isinstance(c, (ast.FunctionDef, ast.AsyncFunctionDef)):
                q = (qual + '.' if qual else '') + c.name
                bound, glob = _local_bindings(c)
                sh = (shadow | bound) - glob
                reads, free = set(), set()
                for n in ast.walk(c):
                    if isinstance(n, ast.Name) and isinstance(n.ctx, ast.Load) and n.id not in sh:
                        (reads if n.id in names else free).add(n.id)
                # (ast.walk includes nested defs: a read by a nested def / lambda is attributed to the enclosing function too - conservative)
                reads |= (glob & set(names))
                out[q] = (reads, free)
                rec(c, q, sh)
            elif isinstance(c, ast.ClassDef):
                rec(c, (qual + '.' if qual else '') + c.name, shadow)
            else:
                rec(c, qual, shadow)
    rec(tree, '', set())
    return out


def _modname(rel):
    """'Integration.py' -> 'Integration'; 'Demes/Inference.py' -> 'Demes.Inference'; 'Demes/__init__.py' -> 'Demes'"""
    p = rel[:-3].split(os.sep)
    if p[-1] == '__init__':
        p = p[:-1]
    return '.'.join(p)


def settings_state(root):
    """fail-closed enumeration of the module-level settings of dadi/**/*.py.

    returns (items, defaults, memo_reads):
      items      {relative path: ['setting:<name>' | 'rng:<name>', ...]}   module-level names bound to a scalar literal that some
                 function reads as a free name (or re-binds with `global`), or that ANY dadi file reads as `<Module>.<name>`; module-level
                 random generators
      defaults   {(relative path, name): last literal value assigned at module level}
      memo_reads {relative path: ['<memoised function>:<setting>', ...]}   memoised functions (memoising decorator, or a function that stores into
                 a module-level dictionary) that read a setting of their module, directly or through functions of the same file they refer to
    """
    trees = {}
    for dp, dn, fn in os.walk(root):
        dn[:] = sorted(d for d in dn if d not in ('__pycache__',))
        for f in sorted(fn):
            if f.endswith('.py'):
                p = os.path.join(dp, f)
                trees[os.path.relpath(p, root)] = _parse_quiet(p)
    level = {rel: _module_level(t) for rel, t in trees.items()}
    # attribute reads `<Module>.<name>` anywhere in the tree
    attr_reads = set()
    for rel, t in trees.items():
        for n in ast.walk(t):
            if isinstance(n, ast.Attribute) and isinstance(n.ctx, ast.Load):
                base = n.value
                bname = base.id if isinstance(base, ast.Name) else base.attr if isinstance(base, ast.Attribute) else None
                if bname:
                    attr_reads.add((bname, n.attr))
    items, defaults, memo_reads = {}, {}, {}
    for rel, t in sorted(trees.items()):
        scalars, rngs, dicts, funcs = level[rel]
        reads = _function_reads(t, set(scalars) | set(rngs))
        mod_last = _modname(rel).split('.')[-1] if _modname(rel) else 'dadi'
        used = set()
        for q, (r, _) in reads.items():
            used |= r
        for name in scalars:
            if (mod_last, name) in attr_reads:
                used.add(name)
        found = ['setting:' + n for n in sorted(scalars) if n in used] + ['rng:' + n for n in sorted(set(rngs))]
        if found:
            items[rel] = found
        for n in scalars:
            if n in used:
                defaults[(rel, n)] = scalars[n][-1]
        # memoised functions and the settings they (transitively, inside this file) read
        setting_names = set(n for n in scalars if n in used) | set(rngs)
        if not setting_names:
            continue
        free_of = {q: fr for q, (_, fr) in reads.items()}
        direct = {q: r for q, (r, _) in reads.items()}
        def closure(q0):
            seen, todo, got = set(), [q0], set()
            while todo:
                q = todo.pop()
                if q in seen:
                    continue
                seen.add(q)
                got |= direct.get(q, set())
                for fr in free_of.get(q, ()):
                    if fr in funcs and fr not in seen:      # a module-level function of this file referred to by name
                        todo.append(fr)
            return got
        memoised = set()
        def rec(node, qual):
            for c in ast.iter_child_nodes(node):
                if isinstance(c, (ast.FunctionDef, ast.AsyncFunctionDef)):
                    q = (qual + '.' if qual else '') + c.name
                    for d in c.decorator_list:
                        dn_ = _decorator_name(d)
                        if dn_ in MEMO_DECORATORS or 'cache' in dn_.lower() or 'memo' in dn_.lower():
                            memoised.add(q)
                    for n in _walk_no_nested(c):
                        if isinstance(n, ast.Subscript) and isinstance(n.ctx, ast.Store) and isinstance(n.value, ast.Name) and n.value.id in dicts:
                            memoised.add(q)
                        if isinstance(n, ast.Call) and isinstance(n.func, ast.Attribute) and isinstance(n.func.value, ast.Name) and n.func.value.id in dicts \
                                and n.func.attr in ('setdefault', 'update'):
                            memoised.add(q)
                    rec(c, q)
                elif isinstance(c, ast.ClassDef):
                    rec(c, (qual + '.' if qual else '') + c.name)
                else:
                    rec(c, qual)
        rec(t, '')
        mr = sorted('%s:%s' % (q, s) for q in memoised for s in closure(q))
        if mr:
            memo_reads[rel] = mr
    return items, defaults, memo_reads
