"""C05 — call SEQUENCES in one process, colliding on every memo key behind from_phi / from_phi_inbreeding.

Spectrum.from_phi / from_phi_inbreeding are specified (Model/FromPhi.v) as FUNCTIONS of their arguments; the code keeps
module-level memos behind several paths (Spectrum_mod._dbeta_cache behind the 2-D..5-D semi-analytic paths; Numerics.
_BetaBinomln_cache / _part_cache / _part_precalc_cache / _multinomln_cache behind BetaBinomConvolution, i.e. every inbreeding
path; Numerics._projection_cache behind Spectrum.project) and per-call tables (factorx_cache ...) that an optimisation may
hoist.  A memo is invisible to single calls on unrelated random inputs, so this stream runs, on every run and in the quick
tier, systematic SESSIONS: each session is a list of calls executed in list order in ONE interpreter that starts with empty
memos (harness/impl/c05_impl.py forks it right after `import dadi`); consecutive calls agree on what a memo could be keyed by
(sample size, grid, grid length, ploidy, F, position of the population) and differ in everything else (density,
het_ascertained, mask_corners, admix_props, order of the populations, dimension, memory layout).

  * every call is compared with the Coq model (same check functions and tolerance as the single calls), and
  * the property predicates are evaluated on the calls of the session, in particular on the LATER ones: total = trapezoid
    mass of the (ascertainment-weighted) density on every call; sampling probabilities sum to one (unit-spike densities);
    linearity in phi across interleaved calls; sample n+k then project = sample n; marginalise before = after; admix_props =
    identity equals the direct path; a repeated call returns what it returned the first time.
  * a violation's replay input is the failing call TOGETHER WITH ITS PREDECESSORS (`sequence`); `./check C05 --replay f`
    re-runs the whole sequence in a fresh process.

Families (one session each unless said otherwise):
  dbeta/d      d = 1..5   semi-analytic path, shared (n, grid): other phi / mask / other grid of the SAME LENGTH / permuted ns /
                          +-1e-16 end points / other length / project / marginalise
  direct/d     d = 1..4   ALL populations identical (n, grid): het xx,yy,zz <-> force_direct interleaved, admix_props (two random
                          matrices, identity), analytic, other grid of the same length
  directid/d-h d = 2..4   ONE call with all populations identical for each het choice (first call of its process), then direct
  inb1/*       d = 1      non-ascertained first / ascertained first; other grid same length, other ploidy, other n, other F;
                          unit spikes (sums to one); F = 0; F -> 0
  inb2/h inb3/h           ONE call with two / three IDENTICAL populations (n, ploidy, F, grid) for each het choice (first call of
                          its process), then the non-ascertained and ascertained calls interleaved
  inb3p/*                 two of three populations identical, every arrangement x every ascertained axis
  inbx                    distinct populations: F / ploidy order swapped, 1-D <-> 2-D <-> 3-D sharing one population
  bbconv                  Numerics.BetaBinomConvolution colliding on part of (i, n, ploidy, alpha, beta), then inbreeding calls
  layout/d     d = 1..5   Fortran-ordered / transposed-view / strided / negative-stride phi and strided / reversed grid views on
                          every path
"""
import json, math
from fractions import Fraction
from concurrent.futures import ThreadPoolExecutor
from harness import lib
from harness.props import c05 as B

HETS = B.HETS
MAXV = 2                       # printed violations per kind (every failing obligation is still recorded)
_nviol = {}

# ------------------------------------------------------------------------------------------------
# call constructors

def fp(ns, gs, phi, **kw):
    c = {'fn': 'from_phi', 'shape': [len(g) for g in gs], 'phi': list(phi), 'ns': list(ns), 'xxs': [list(g) for g in gs], 'admix': None,
         'het': None, 'force': False, 'mask_corners': False, 'pop_ids': None, 'd': len(ns)}
    c.update(kw)
    return c

def ib(pops, phi, **kw):
    """pops: [(n, ploidy, F, grid)...]"""
    c = {'fn': 'from_phi_inbreeding', 'shape': [len(p[3]) for p in pops], 'phi': list(phi), 'ns': [p[0] for p in pops],
         'xxs': [list(p[3]) for p in pops], 'Fs': [p[2] for p in pops], 'ploidys': [p[1] for p in pops], 'admix': None, 'het': None,
         'force': None, 'mask_corners': False, 'pop_ids': None, 'd': len(pops)}
    c.update(kw)
    return c

def mix(a, p1, b, p2):
    return [a * x + b * y for x, y in zip(p1, p2)]

def spike(shape, idx):
    v = [0.0] * B.prod(shape)
    k = 0
    for n, i in zip(shape, idx):
        k = k * n + i
    v[k] = 1.0
    return v

class Session:
    def __init__(self, sid, family):
        self.id, self.family, self.calls, self.preds = sid, family, [], []

    def add(self, c, label, compare=True):
        c = dict(c)
        c['branch'] = 'seq:%s:%s' % (self.family, label)
        c['_compare'] = bool(compare) and not c.get('pre') and not c.get('post')
        c['_sid'] = self.id; c['_pos'] = len(self.calls)
        self.calls.append(c)
        return c['_pos']

    def lin(self, i0, i1, i2, a, b, what):
        self.preds.append({'kind': 'lin', 'at': [i0, i1, i2], 'a': a, 'b': b, 'name': 'linearity %s' % what, 'tol': 1e-11})

    def eq(self, i, j, name, tol):
        """result i (the later / derived call) must equal result j"""
        self.preds.append({'kind': 'eq', 'at': [j, i], 'name': name, 'tol': tol})

    def to_replay(self, upto):
        return [public(c) for c in self.calls[:upto + 1]]

def public(c):
    return {k: v for k, v in c.items() if not k.startswith('_')}

def two_grids(rng, L, ends=None):
    g1, _ = B.mk_grid(rng, L, 'random', ends)
    for kind in ('quad', 'random', 'random', 'random', 'random', 'random', 'uniform', 'dadi'):
        g2, _ = B.mk_grid(rng, L, kind, ends)
        if max(abs(x - y) for x, y in zip(g1[1:-1], g2[1:-1])) > 1 / 256:       # far from numpy.allclose
            return g1, g2
    raise RuntimeError('no second grid of length %d' % L)

def dy(rng):
    return lib.dyadic(rng, -2, 2, 3) or 0.5, lib.dyadic(rng, 0.25, 3, 3)

def pos_phi(rng, size):
    return B.mk_phi(rng, size, 'random')

# ------------------------------------------------------------------------------------------------
# families

def fam_dbeta(ctx, d):
    rng = ctx.rng
    L = {1: 6, 2: 5, 3: 4, 4: 3, 5: 3}[d]
    nmax = {1: 8, 2: 5, 3: 3, 4: 2, 5: 2}[d]
    ns = [rng.randint(1, nmax) for _ in range(d)]
    if d >= 2 and len(set(ns)) == 1:
        ns[0] = ns[0] % nmax + 1                              # permuting ns must change the call
    G, G2 = two_grids(rng, L, 'exact')
    Gp = B.perturb_like(rng, G)
    G3, _ = B.mk_grid(rng, L + 1, 'random', 'exact')
    size = L ** d
    p1, p2, p3 = pos_phi(rng, size), pos_phi(rng, size), B.mk_phi(rng, size, 'signed')
    a, b = dy(rng)
    s = Session('dbeta/%d' % d, 'dbeta')
    i0 = s.add(fp(ns, [G] * d, p1, mask_corners=True), 'first')
    i1 = s.add(fp(ns, [G] * d, p2), 'other-phi')
    i2 = s.add(fp(ns, [G2] * d, p1), 'other-grid-same-length')
    i3 = s.add(fp(ns, [G] * d, mix(a, p1, b, p2), mask_corners=True), 'mix')
    s.lin(i0, i1, i3, a, b, 'analytic d=%d (memo shared, other grid in between)' % d)
    ns2 = ns[1:] + ns[:1] if d >= 2 else [ns[0] + 1]
    s.add(fp(ns2, [G] * d, p3), 'permuted-ns')
    if d <= 3:
        s.add(fp(ns, [Gp] * d, p2, mask_corners=True), 'ends+-1e-16')
        s.add(fp(ns, [G3] * d, pos_phi(rng, (L + 1) ** d)), 'other-length')
    if d >= 2:
        # one axis on the other grid is refused (xx != yy) and must stay refused whatever the memo holds
        s.add(fp(ns, [G] * (d - 1) + [G2], p1), 'refuse:xx!=yy')
    i7 = s.add(fp(ns, [G] * d, p1, mask_corners=True), 'first-again')
    s.eq(i7, i0, 'repeat=first analytic d=%d' % d, 1e-12)
    i8 = s.add(fp(ns, [G2] * d, p1), 'other-grid-again')
    s.eq(i8, i2, 'repeat=first analytic other grid d=%d' % d, 1e-12)
    # Spectrum.project behind _projection_cache: keys (n, n+2, hits), (n, n+3, hits) on both grids
    j = s.add(fp([n + 2 for n in ns], [G] * d, p1, post=[['project', list(ns)]]), 'n+2-project')
    s.eq(j, i0, 'project-of-sample analytic d=%d (in sequence)' % d, 1e-10)
    j = s.add(fp([n + 2 for n in ns], [G2] * d, p1, post=[['project', list(ns)]]), 'n+2-project-other-grid')      # same keys again
    s.eq(j, i2, 'project-of-sample analytic other grid d=%d (in sequence, projection memo reused)' % d, 1e-10)
    j = s.add(fp([n + 3 for n in ns], [G] * d, p2, post=[['project', list(ns)]]), 'n+3-project')
    s.eq(j, i1, 'project-of-sample analytic n+3 d=%d (in sequence)' % d, 1e-10)
    if d >= 2:
        k = rng.randrange(d)
        jm = s.add(fp(ns, [G] * d, p2, post=[['marginalize', [k]]]), 'marginalize')
        jr = s.add(fp([n for t, n in enumerate(ns) if t != k], [G] * d, p2, pre=[['remove_pop', k + 1]]), 'remove_pop')
        s.eq(jm, jr, 'marginalise-commutes analytic d=%d axis=%d (in sequence)' % (d, k), 1e-11)
    return [s]

def fam_direct(ctx, d):
    rng = ctx.rng
    L = {1: 7, 2: 5, 3: 4, 4: 3}[d]
    n = rng.randint(2, {1: 8, 2: 4, 3: 3, 4: 2}[d])
    ns = [n] * d
    G, G2 = two_grids(rng, L)
    size = L ** d
    p1, p2 = pos_phi(rng, size), pos_phi(rng, size)
    a, b = dy(rng)
    s = Session('direct/%d' % d, 'direct')
    hx = s.add(fp(ns, [G] * d, p1, het='xx'), 'het-xx-first')                 # identical populations, ascertained, first call
    d1 = s.add(fp(ns, [G] * d, p1, force=True, mask_corners=True), 'direct-after-het')
    s.add(fp(ns, [G] * d, p2, het='yy'), 'het-yy')                            # d = 1: accepted, no factor
    d2 = s.add(fp(ns, [G] * d, p2, force=True), 'direct')
    if d >= 3:
        s.add(fp(ns, [G] * d, p1, het='zz', mask_corners=True), 'het-zz')
    d3 = s.add(fp(ns, [G] * d, mix(a, p1, b, p2), force=True), 'direct-mix')
    s.lin(d1, d2, d3, a, b, 'direct d=%d (ascertained calls in between)' % d)
    s.add(fp(ns, [G2] * d, p1, force=True), 'other-grid-same-length')
    s.add(fp(ns, [G2] * d, p2, het='xx'), 'het-xx-other-grid')
    if d >= 2:
        A1, A2 = B.mk_admix(rng, d, 'random')[0], B.mk_admix(rng, d, 'one-row')[0]
        s.add(fp(ns, [G] * d, p1, admix=A1), 'admix-1')
        s.add(fp(ns, [G] * d, p2, admix=A2, mask_corners=True), 'admix-2')
        ai = s.add(fp(ns, [G] * d, p1, admix=B.mk_admix(rng, d, 'identity')[0]), 'admix-identity')
        s.eq(ai, d1, 'admix-identity=direct d=%d (in sequence)' % d, 1e-11)
        s.add(fp(ns, [G] * d, p1, admix=A1, het='xx'), 'refuse:admix+het')
    s.add(fp(ns, [G] * d, p1), 'analytic')
    r1 = s.add(fp(ns, [G] * d, p1, force=True, mask_corners=True), 'direct-again')
    s.eq(r1, d1, 'repeat=first direct d=%d' % d, 1e-12)
    rx = s.add(fp(ns, [G] * d, p1, het='xx'), 'het-xx-again')
    s.eq(rx, hx, 'repeat=first het-xx d=%d' % d, 1e-12)
    for h in HETS[:min(d, 3)]:                                                # sampling probabilities sum to one under ascertainment
        idx = [rng.randrange(1, L - 1) for _ in range(d)]
        s.add(fp(ns, [G] * d, spike([L] * d, idx), het=h), 'spike-het-' + h, compare=(d <= 2))
    j = s.add(fp([n + 2] * d, [G] * d, p1, force=True, post=[['project', ns]]), 'n+2-project')
    s.eq(j, d1, 'project-of-sample direct d=%d (in sequence)' % d, 1e-10)
    if d >= 2:
        jm = s.add(fp(ns, [G] * d, p2, het='xx', post=[['marginalize', [1]]]), 'het-marginalize')
        jr = s.add(fp(ns[1:], [G] * d, p2, het='xx', pre=[['remove_pop', 2]]), 'het-remove_pop')
        s.eq(jm, jr, 'marginalise-commutes het-xx d=%d axis=1 (in sequence)' % d, 1e-11)
    return [s]

def fam_direct_identical(ctx, d):
    """from_phi direct path: ONE call with all populations identical (n, grid) for each het choice, first call of its process"""
    rng = ctx.rng
    out = []
    L = {2: 5, 3: 4, 4: 3}[d]
    for h in HETS[:min(d, 3)]:
        n = rng.randint(1, {2: 4, 3: 3, 4: 2}[d])
        G, _ = B.mk_grid(rng, L)
        p1 = pos_phi(rng, L ** d)
        s = Session('directid/%d-%s' % (d, h), 'directid')
        s.add(fp([n] * d, [G] * d, p1, het=h), 'identical-first')
        s.add(fp([n] * d, [G] * d, p1, force=True, mask_corners=True), 'plain-after')
        out.append(s)
    return out

def pick_F(rng, avoid=()):
    while True:
        F = rng.choice([1 / 16, 0.125, 0.25, 0.375, 0.5, 0.75, 0.875, lib.dyadic(rng, 0.05, 0.95, 7)])
        if F not in avoid and 0 < F < 1:
            return F

def fam_inb1(ctx):
    rng = ctx.rng
    out = []
    L = 6
    G, G2 = two_grids(rng, L)
    n, p = rng.choice([(4, 2), (6, 2), (6, 3), (8, 4), (4, 4)])
    F = pick_F(rng)
    A = (n, p, F, G)
    p1, p2 = pos_phi(rng, L), pos_phi(rng, L)
    a, b = dy(rng)
    # --- non-ascertained first
    s = Session('inb1/plain-first', 'inb1')
    i0 = s.add(ib([A], p1, mask_corners=True), 'first')
    s.add(ib([A], p2, het='xx'), 'het')
    i1 = s.add(ib([A], p2), 'after-het')
    hx = s.add(ib([A], p1, het='xx', mask_corners=True), 'het-2')
    i2 = s.add(ib([A], mix(a, p1, b, p2)), 'mix')
    s.lin(i0, i1, i2, a, b, 'inbreeding d=1 (ascertained calls in between)')
    i3 = s.add(ib([A], p1, mask_corners=True), 'first-again')
    s.eq(i3, i0, 'repeat=first inbreeding d=1', 1e-12)
    s.add(ib([A], p1, het='yy'), 'het-yy-no-factor')
    s.add(ib([(n, p, F, G2)], p1), 'other-grid-same-length')
    s.add(ib([(n, p, F, G2)], p2, het='xx'), 'het-other-grid')
    p_other = [t for t in (2, 3, 4, 6, 8) if n % t == 0 and t != p][0]
    s.add(ib([(n, p_other, F, G)], p1), 'other-ploidy')
    s.add(ib([(n + p, p, F, G)], p2), 'other-n')
    s.add(ib([(n, p, pick_F(rng, [F]), G)], p2), 'other-F')
    s.add(ib([(n, p, 0.0, G)], p1), 'F=0')
    s.add(ib([(n, p, 0.0, G)], p1, het='xx'), 'F=0-het')
    for jx in range(L):                                                         # sums to one at every grid point, late in the session
        s.add(ib([A], spike([L], [jx])), 'spike', compare=(jx in (0, 2, L - 1)))
    jz = s.add(ib([(n, p, 1e-9, G)], p1, het='xx'), 'F->0-het', compare=False)
    jz = s.add(ib([(n, p, 1e-9, G)], p1), 'F->0', compare=False)
    jd = s.add(fp([n], [G], p1, force=True), 'direct')
    s.eq(jz, jd, 'inbreeding(F=1e-9)~direct d=1 (after an ascertained call)', 1e-3)
    out.append(s)
    # --- ascertained first
    n, p = rng.choice([(4, 2), (6, 3), (6, 2)])
    A = (n, p, pick_F(rng), G2)
    s = Session('inb1/het-first', 'inb1')
    h0 = s.add(ib([A], p1, het='xx'), 'het-first')
    i0 = s.add(ib([A], p1, mask_corners=True), 'after-het')
    s.add(ib([A], p2, het='xx', mask_corners=True), 'het-2')
    i1 = s.add(ib([A], p2), 'after-het-2')
    i2 = s.add(ib([A], mix(a, p1, b, p2)), 'mix')
    s.lin(i0, i1, i2, a, b, 'inbreeding d=1 (ascertained first)')
    h1 = s.add(ib([A], p1, het='xx'), 'het-again')
    s.eq(h1, h0, 'repeat=first inbreeding het d=1', 1e-12)
    for jx in (1, L - 2):
        s.add(ib([A], spike([L], [jx]), het='xx'), 'spike-het')
        s.add(ib([A], spike([L], [jx])), 'spike')
    out.append(s)
    return out

def fam_inb_identical(ctx, d):
    """one call in which ALL populations have the same (n, ploidy, F, grid), for each het choice, as the first call of a process"""
    rng = ctx.rng
    out = []
    L = {2: 5, 3: 4}[d]
    for h in [None] + HETS[:d]:
        n, p = rng.choice({2: [(4, 2), (3, 3), (2, 2), (4, 4)], 3: [(2, 2), (3, 3)]}[d])
        G, _ = B.mk_grid(rng, L)
        A = (n, p, pick_F(rng), G)
        size = L ** d
        p1, p2 = pos_phi(rng, size), pos_phi(rng, size)
        a, b = dy(rng)
        s = Session('inb%d/identical-%s' % (d, h or 'none'), 'inb%d' % d)
        f0 = s.add(ib([A] * d, p1, het=h, mask_corners=True), 'identical-first')
        i0 = s.add(ib([A] * d, p1), 'plain')
        other = HETS[(HETS.index(h) + 1) % d] if h else HETS[rng.randrange(d)]
        s.add(ib([A] * d, p2, het=other), 'het-' + other)
        i1 = s.add(ib([A] * d, p2, mask_corners=True), 'plain-2')
        if h:
            s.add(ib([A] * d, p2, het=h), 'het-' + h)
        i2 = s.add(ib([A] * d, mix(a, p1, b, p2)), 'mix')
        s.lin(i0, i1, i2, a, b, 'inbreeding d=%d identical populations' % d)
        _, Gb = two_grids(rng, L); Gb = Gb if max(abs(x - y) for x, y in zip(G, Gb)) > 1 / 256 else two_grids(rng, L)[0]
        s.add(ib([(n, p, A[2], Gb)] * d, p2, het=h), 'other-grid-same-length')
        f1 = s.add(ib([A] * d, p1, het=h, mask_corners=True), 'identical-again')
        s.eq(f1, f0, 'repeat=first inbreeding d=%d identical het=%s' % (d, h), 1e-12)
        idx = [rng.randrange(1, L - 1) for _ in range(d)]
        s.add(ib([A] * d, spike([L] * d, idx), het=h), 'spike', compare=(d == 2))
        k = rng.randrange(d)
        jm = s.add(ib([A] * d, p1, post=[['marginalize', [k]]]), 'marginalize')
        jr = s.add(ib([A] * (d - 1), p1, pre=[['remove_pop', k + 1]], shape=[L] * d, xxs=[list(G)] * d), 'remove_pop')
        s.eq(jm, jr, 'marginalise-commutes inbreeding d=%d axis=%d (after ascertained calls)' % (d, k), 1e-11)
        out.append(s)
    return out

def fam_inb_pairs(ctx):
    """3-D: two of the three populations identical, every arrangement x every ascertained axis (each the first call of its process)"""
    rng = ctx.rng
    out = []
    L = 4
    for arr in ('AAB', 'ABA', 'BAA'):
        for h in HETS[:3]:
            G, G2 = two_grids(rng, L)
            FA = pick_F(rng)
            A = (2, 2, FA, G)
            Bp = rng.choice([(2, 2, pick_F(rng, [FA]), G), (4, 2, FA, G), (3, 3, FA, G), (2, 2, FA, G2)])      # differs from A in ONE component
            pops = [A if t == 'A' else Bp for t in arr]
            p1 = pos_phi(rng, L ** 3)
            s = Session('inb3p/%s-%s' % (arr, h), 'inb3p')
            s.add(ib(pops, p1, het=h), 'pair-first')
            s.add(ib(pops, p1, mask_corners=True), 'plain-after')
            out.append(s)
    return out

def fam_inb_cross(ctx):
    """distinct populations A, B, C: order of F / ploidy swapped; a population met in 1-D, 2-D and 3-D calls and at every axis"""
    rng = ctx.rng
    L = 4
    G, G2 = two_grids(rng, L)
    FA = pick_F(rng); FB = pick_F(rng, [FA]); FC = pick_F(rng, [FA, FB])
    A, Bq, C = (4, 2, FA, G), (3, 3, FB, G), (2, 2, FC, G2)
    ph = lambda k: pos_phi(rng, L ** k)
    s = Session('inbx/cross', 'inbx')
    s.add(ib([A], ph(1), het='xx'), '1D-A-het')
    s.add(ib([Bq, A, C], ph(3)), '3D-BAC')
    s.add(ib([C, A], ph(2), het='xx'), '2D-CA-het-xx')
    q1 = ph(2)
    i_ab = s.add(ib([A, Bq], q1), '2D-AB')
    s.add(ib([Bq, A], q1, mask_corners=True), '2D-BA-swapped-F-ploidy')
    s.add(ib([A, Bq], ph(2), het='yy'), '2D-AB-het-yy')
    s.add(ib([Bq], ph(1)), '1D-B-after-het-yy')
    s.add(ib([A, Bq, C], ph(3), het='zz', mask_corners=True), '3D-ABC-het-zz')
    s.add(ib([C], ph(1)), '1D-C-after-het-zz')
    s.add(ib([Bq, C, A], ph(3), het='yy'), '3D-BCA-het-yy')
    s.add(ib([C, C], ph(2)), '2D-CC')
    s.add(ib([A], ph(1)), '1D-A')
    j = s.add(ib([A, Bq], q1), '2D-AB-again')
    s.eq(j, i_ab, 'repeat=first inbreeding 2D-AB', 1e-12)
    # swapping the populations = transposing phi and the result
    return [s]

def fam_bbconv(ctx):
    """BetaBinomConvolution memo keys: (i, ploidy, alpha, beta), (i, n, 0, ploidy), tuple(counts)"""
    rng = ctx.rng
    s = Session('bbconv/keys', 'bbconv')
    a0 = max(lib.dyadic(rng, 1 / 8, 4, 3), 1 / 8); b0 = max(lib.dyadic(rng, 1 / 8, 4, 3), 1 / 8)
    a1 = a0 + 0.5; b1 = b0 + 0.25
    base = (2, 2, a0, b0)
    seqs = [base, (3, 2, a0, b0), (2, 3, a0, b0), (2, 2, a1, b0), (2, 2, a0, b1), (2, 2, b0, a0), (1, 4, a0, b0), (2, 4, a1, b1),
            (3, 3, a0, b0), (2, 2, a0, b0)]
    for k, (n, p, a, b) in enumerate(seqs):
        s.add({'fn': 'bbconv', 'n': n, 'p': p, 'a': a, 'b': b, 'n_float': (k % 3 != 1), 'exact': True}, 'n=%d-p=%d' % (n, p))
    G, _ = B.mk_grid(rng, 5)
    F = 0.5
    s.add(ib([(4, 2, F, G)], pos_phi(rng, 5)), 'inb-after-bbconv')
    s.add(ib([(4, 2, F, G)], pos_phi(rng, 5), het='xx'), 'inb-het-after-bbconv')
    x = G[2]; c = (1 - F) / F                                               # the very alpha, beta the calls above memoised
    s.add({'fn': 'bbconv', 'n': 2, 'p': 2, 'a': x * c, 'b': (1 - x) * c, 'n_float': True, 'exact': False}, 'bbconv-after-inb')
    return [s]

LAYOUTS = ['F', 'T', 'swap', 'strided', 'neg']

def fam_layout(ctx, d):
    """non-C-contiguous phi (Fortran order, transposed / swapped-axes views, strided, negative strides) and grid views"""
    rng = ctx.rng
    L = {1: 6, 2: 5, 3: 4, 4: 3, 5: 3}[d]
    nmax = {1: 6, 2: 4, 3: 3, 4: 2, 5: 2}[d]
    G, _ = B.mk_grid(rng, L)
    ns = [rng.randint(1, nmax) for _ in range(d)]
    size = L ** d
    ph = lambda: B.mk_phi(rng, size, rng.choice(['random', 'random', 'signed']))
    s = Session('layout/%d' % d, 'layout')
    p0 = ph()
    c0 = s.add(fp(ns, [G] * d, p0), 'analytic-C')
    j = s.add(fp(ns, [G] * d, p0, phi_layout='F' if d >= 2 else 'neg', grid_layout='strided'), 'analytic-same-values')
    s.eq(j, c0, 'layout-independence analytic d=%d' % d, 1e-12)
    lays = ['F', 'swap' if d >= 3 else 'T', 'strided']
    if d == 1:
        lays = ['neg', 'strided']
    for k, lay in enumerate(lays):
        s.add(fp(ns, [G] * d, ph(), phi_layout=lay, grid_layout=['C', 'strided', 'neg'][k % 3]), 'analytic-' + lay)
    if d <= 4:
        s.add(fp(ns, [G] * d, ph(), force=True, phi_layout=lays[0], grid_layout='neg'), 'direct-' + lays[0])
        h = HETS[rng.randrange(min(d, 3))]
        s.add(fp(ns, [G] * d, ph(), het=h, phi_layout=lays[1 % len(lays)], grid_layout='strided'), 'het-%s-%s' % (h, lays[1 % len(lays)]))
    if 2 <= d <= 4:
        s.add(fp(ns, [G] * d, ph(), admix=B.mk_admix(rng, d, 'random')[0], phi_layout=lays[-1], grid_layout='strided'), 'admix-' + lays[-1])
        s.add(fp(ns, [G] * d, ph(), admix=B.mk_admix(rng, d, 'one-row')[0], phi_layout=lays[0]), 'admix-' + lays[0])
    if d <= 3:
        pls = [rng.choice([2, 3]) for _ in range(d)]
        pops = [(pl * rng.randint(1, 2), pl, pick_F(rng), G) for pl in pls]
        for k, lay in enumerate(lays):
            h = [None, HETS[rng.randrange(d)], None][k % 3]
            s.add(ib(pops, ph(), het=h, phi_layout=lay, grid_layout=['neg', 'strided', 'C'][k % 3]), 'inbreeding-%s%s' % (lay, '-het' if h else ''))
    if d >= 2:
        k = rng.randrange(d)
        p1 = ph()
        jm = s.add(fp(ns, [G] * d, p1, phi_layout=lays[0], post=[['marginalize', [k]]]), 'marginalize-' + lays[0])
        jr = s.add(fp([n for t, n in enumerate(ns) if t != k], [G] * d, p1, phi_layout=lays[0], pre=[['remove_pop', k + 1]]), 'remove_pop-' + lays[0])
        s.eq(jm, jr, 'marginalise-commutes analytic d=%d axis=%d (%s-ordered phi)' % (d, k, lays[0]), 1e-11)
    return [s]

def gen_sessions(ctx):
    out = []
    for d in range(1, 6):
        out += fam_dbeta(ctx, d)
    for d in range(1, 5):
        out += fam_direct(ctx, d)
    for d in range(2, 5):
        out += fam_direct_identical(ctx, d)
    out += fam_inb1(ctx)
    out += fam_inb_identical(ctx, 2) + fam_inb_identical(ctx, 3)
    out += fam_inb_pairs(ctx)
    out += fam_inb_cross(ctx)
    out += fam_bbconv(ctx)
    for d in range(1, 6):
        out += fam_layout(ctx, d)
    if not ctx.quick:                     # thorough: the same families twice more with fresh values
        for rep in range(2):
            for d in range(1, 6):
                for s in fam_dbeta(ctx, d) + fam_layout(ctx, d) + (fam_direct(ctx, d) if d <= 4 else []):
                    s.id += '#%d' % (rep + 2); out.append(s)
            for s in fam_inb1(ctx) + fam_inb_identical(ctx, 2) + fam_inb_identical(ctx, 3) + fam_inb_cross(ctx) + fam_bbconv(ctx):
                s.id += '#%d' % (rep + 2); out.append(s)
        for s in out:
            for c in s.calls:
                c['_sid'] = s.id
    return out

# ------------------------------------------------------------------------------------------------
# running

STRIP = ('branch', 'd', 'kind', 'admix_model', 'exact')

def run_sessions(ctx, sessions, par=4):
    """-> {session id: [result per call]}; every session in its own process, calls in list order (checked)"""
    if not sessions:
        return {}
    cost = lambda s: sum(B.prod(c.get('shape', [1])) * B.prod([n + 1 for n in c.get('ns', [1])]) for c in s.calls) + 2000
    order = sorted(range(len(sessions)), key=lambda k: -cost(sessions[k]))
    par = max(1, min(par, len(sessions)))
    bins = [[] for _ in range(par)]; load = [0] * par
    for k in order:
        t = load.index(min(load)); bins[t].append(k); load[t] += cost(sessions[k])
    payloads = [{'sessions': [{'id': sessions[k].id, 'calls': [{kk: v for kk, v in c.items() if kk not in STRIP and not kk.startswith('_')}
                                                                for c in sessions[k].calls]} for k in sorted(bn)]} for bn in bins]
    with ThreadPoolExecutor(max_workers=par) as ex:
        outs = list(ex.map(lambda pl: lib.run_impl('c05_impl.py', pl, 1800), payloads))
    res = {}
    bad = []
    for pl, o in zip(payloads, outs):
        got = o.get('sessions', [])
        if [g.get('id') for g in got] != [s['id'] for s in pl['sessions']]:
            bad.append('sessions returned out of order: %r' % [g.get('id') for g in got][:4])
        for sp, g in zip(pl['sessions'], got):
            rs = g['results']
            if len(rs) != len(sp['calls']) or [r.get('pos') for r in rs] != list(range(len(rs))):
                bad.append('%s: positions %r' % (sp['id'], [r.get('pos') for r in rs][:8]))
            if len({r.get('pid') for r in rs}) != 1 or rs[0].get('pid') == o.get('parent'):
                bad.append('%s: not one process of its own (pids %r, parent %r)' % (sp['id'], sorted({r.get('pid') for r in rs}), o.get('parent')))
            res[sp['id']] = rs
    pids = [rs[0].get('pid') for rs in res.values() if rs]
    if len(set(pids)) != len(pids):
        bad.append('two sessions shared a process')
    ctx.obligation('sequence runner: one fresh process per session, calls executed and recorded in list order (%d sessions)' % len(sessions),
                   not bad and len(res) == len(sessions), 'predicate', '; '.join(bad[:4]))
    return res

# ------------------------------------------------------------------------------------------------
# predicates on the calls of a session

def weights(c):
    """per-axis ascertainment weight (True = x(1-x)) applied by the call"""
    d = len(c['shape'])
    w = [False] * d
    h = c.get('het')
    if h in HETS and HETS.index(h) < d and not c.get('admix'):
        w[HETS.index(h)] = True
    return w

def wmass(c, absolute=False):
    """exact trapezoid mass of the ascertainment-weighted density of call c"""
    shape, xxs = c['shape'], [[Fraction(x) for x in g] for g in c['xxs']]
    w = weights(c)
    vals = [Fraction(v) for v in c['phi']]
    if absolute:
        vals = [abs(v) for v in vals]
    # multiply in the weights
    strides = [B.prod(shape[k + 1:]) for k in range(len(shape))]
    for ax, on in enumerate(w):
        if on:
            ww = [x * (1 - x) for x in xxs[ax]]
            if absolute:
                ww = [abs(t) for t in ww]
            for k in range(len(vals)):
                vals[k] *= ww[(k // strides[ax]) % shape[ax]]
    return B.fmass(xxs, shape, vals)

def seq_violation(ctx, kind, what, sess, upto, extra):
    _nviol[kind] = _nviol.get(kind, 0) + 1
    if _nviol[kind] > MAXV:
        return
    data = {'sequence': sess.to_replay(upto), 'failing_index': upto, 'session': sess.id, 'preds': [p for p in sess.preds if max(p['at']) <= upto]}
    data.update(extra)
    ctx.violation(what, data=data)

def check_close(ctx, sess, name, got, want, tol, scale, upto, extra, kind):
    if got is None or want is None or len(got) != len(want):
        ok, err = False, float('inf')
    else:
        sc = scale if scale else max(B.maxabs(got), B.maxabs(want), 1e-300)
        err = max([abs(x - y) for x, y in zip(got, want)] + [0.0]) / sc
        ok = err <= tol
    ctx.obligation('%s [%s #%d]' % (name, sess.id, upto), ok, 'predicate', '' if ok else 'relative difference %.3g > %.1g' % (err, tol))
    ctx.case()
    if ok and err > 0:
        ctx.err('predicate:seq-' + kind, int(math.floor(math.log2(err))), 'tol %.0e' % tol)
    if not ok:
        pre = ', '.join(c['branch'].split(':', 2)[2] for c in sess.calls[:upto])
        seq_violation(ctx, kind, '%s fails on the implementation at call #%d (%s) of session %s after [%s]: relative difference %.3g (tolerance %.1g)'
                      % (name, upto, sess.calls[upto]['branch'], sess.id, pre[:160], err, tol), sess, upto, dict(extra, predicate=name, rel_err=repr(err)))
    return ok

def usable(r):
    return r is not None and 'data' in r and B.finite(r['data'])

def eval_session(ctx, sess, res):
    # total = trapezoid mass of the (weighted) density, on EVERY call (spikes: the sampling probabilities sum to one)
    for k, (c, r) in enumerate(zip(sess.calls, res)):
        if c['fn'] not in ('from_phi', 'from_phi_inbreeding') or c.get('pre') or c.get('post') or not usable(r):
            continue
        m = float(wmass(c)); sc = float(wmass(c, absolute=True))
        is_spike = sum(1 for v in c['phi'] if v != 0) == 1
        name = ('sampling-probabilities-sum-to-one' if is_spike else 'total=trapz-mass') + (' (x(1-x)-weighted)' if any(weights(c)) else '')
        # F -> 0: exp(betaln - betaln) cancels ~ F * 1e-16 / F^2; same tolerance as the existing F -> 0 predicate
        tol = 1e-3 if c['fn'] == 'from_phi_inbreeding' and any(0 < f < 1e-6 for f in c['Fs']) else 1e-11
        check_close(ctx, sess, '%s %s d=%d' % (name, c['branch'], c['d']), [math.fsum(r['data'])], [m], tol, sc or None, k,
                    {'mass': m}, 'mass')
    for p in sess.preds:
        rs = [res[i] if i < len(res) else None for i in p['at']]
        upto = max(p['at'])
        if not all(usable(r) for r in rs):
            ctx.obligation('%s [%s] ran' % (p['name'], sess.id), False, 'predicate', ' / '.join(repr({k: v for k, v in (r or {}).items() if k != 'data'})[:90] for r in rs))
            seq_violation(ctx, 'ran', '%s: a call of session %s did not return a finite spectrum: %s' % (p['name'], sess.id,
                          [(r or {}).get('error') or (r or {}).get('refused') or 'non-finite' for r in rs if not usable(r)][:2]), sess, upto, {'predicate': p['name']})
            continue
        if p['kind'] == 'lin':
            r0, r1, r2 = rs
            comb = [p['a'] * x + p['b'] * y for x, y in zip(r0['data'], r1['data'])]
            sc = max(abs(p['a']) * B.maxabs(r0['data']), abs(p['b']) * B.maxabs(r1['data']))
            check_close(ctx, sess, p['name'], r2['data'], comb, p['tol'], sc, upto, {'a': p['a'], 'b': p['b'], 'calls': p['at']}, 'lin')
        else:
            want, got = rs
            check_close(ctx, sess, p['name'], got['data'], want['data'], p['tol'], None, upto, {'calls': p['at']}, p['name'].split(' ')[0])

def seq_data(c, r, rr, sessions_by_id):
    """replay input of a failed model comparison of a call that belongs to a session: the call with its predecessors"""
    s = sessions_by_id.get(c.get('_sid'))
    if s is None:
        return None
    k = c['_pos']
    return {'sequence': s.to_replay(k), 'failing_index': k, 'session': s.id, 'preds': [p for p in s.preds if max(p['at']) <= k],
            'impl': {kk: v for kk, v in r.items()}, 'coq': rr}

SESSIONS = {}

def session_from_replay(inp):
    s = Session(inp.get('session', 'replay'), 'replay')
    for c in inp['sequence']:
        c = dict(c)
        br = c.get('branch', 'replay')
        c.setdefault('d', len(c.get('shape', [])))
        c['_compare'] = not c.get('pre') and not c.get('post') and not (c['fn'] == 'from_phi_inbreeding' and any(0 < f < 1e-6 for f in c.get('Fs', [])))
        c['_sid'] = s.id; c['_pos'] = len(s.calls); c['branch'] = br
        s.calls.append(c)
    s.preds = [p for p in inp.get('preds', []) if max(p['at']) < len(s.calls)]
    return s

def run(ctx, groups, sessions=None):
    """runs the sessions, evaluates the predicates, appends the (call, result) pairs to the correspondence groups of c05.run"""
    sessions = gen_sessions(ctx) if sessions is None else sessions
    SESSIONS.clear(); SESSIONS.update({s.id: s for s in sessions})
    assert len(SESSIONS) == len(sessions), 'session ids must be unique'
    res = run_sessions(ctx, sessions)
    ncalls = 0
    for s in sessions:
        rs = res.get(s.id) or [{'error': 'session did not run'}] * len(s.calls)
        ctx.count('session family=' + s.family)
        for c, r in zip(s.calls, rs):
            ncalls += 1
            ctx.count('%s d=%s' % (c['branch'], c.get('d', '-')))
            if c.get('phi_layout') or c.get('grid_layout'):
                ctx.count('layout phi=%s grid=%s' % (c.get('phi_layout', 'C'), c.get('grid_layout', 'C')))
                lay = (r.get('layout') or {}).get('phi')
                if lay and c.get('phi_layout') in ('F', 'T', 'swap', 'strided') and B.prod(c['shape']) > 1 and len(c['shape']) >= (1 if c['phi_layout'] == 'strided' else 2):
                    ctx.obligation('layout %s really is non-C-contiguous [%s #%d]' % (c['phi_layout'], s.id, c['_pos']), lay[0] is False, 'predicate', repr(lay))
            if c['fn'] == 'bbconv':
                ok = 'data' in r and B.finite(r['data'])
                if not ok:
                    seq_violation(ctx, 'bb', 'BetaBinomConvolution failed in session %s: %r' % (s.id, r), s, c['_pos'], {'impl': r}); continue
                ctx.case(signature=('seq', s.id, c['_pos']), sample={'call': public(c), 'impl': r['data'][:4]})
                check_close(ctx, s, 'betabinom-convolution-sums-to-one %s' % c['branch'], [math.fsum(r['data'])], [1.0], 1e-11, None, c['_pos'], {}, 'bbsum')
                groups['bb' if c.get('exact', True) else 'bd'][1].append((c, r))
                continue
            if 'error' in r or ('data' in r and not B.finite(r['data'])):
                ctx.obligation('call returns a spectrum or a documented refusal [%s #%d %s]' % (s.id, c['_pos'], c['branch']), False, 'predicate', repr(r.get('error'))[:200])
                seq_violation(ctx, 'crash', '%s %s in session %s at call #%d (%s): not a finite spectrum and not a documented refusal'
                              % (c['fn'], r.get('error') or 'returned non-finite entries', s.id, c['_pos'], c['branch']), s, c['_pos'],
                              {'impl': {k: v for k, v in r.items() if k != 'data'}})
                continue
            if c.get('pre') or c.get('post'):
                continue
            ctx.case(signature=('seq', s.id, c['_pos'], c['fn'], c['shape'], c['ns'], c['phi'][:8], c.get('het'), c.get('phi_layout')),
                     sample={'session': s.id, 'pos': c['_pos'], 'call': B.describe(c), 'impl': (r.get('data') or [r.get('refused')])[:4]})
            if 'data' in r:
                B.bookkeeping(ctx, c, r)
            if c['_compare']:
                groups['fp' if c['fn'] == 'from_phi' else 'ib'][1].append((c, r))
        eval_session(ctx, s, rs)
    ctx.count('sequence_sessions', len(sessions)); ctx.count('sequence_calls', ncalls)
