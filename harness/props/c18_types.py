"""C18 -- argument types, containers and memory layouts (stream 'types', every run, enumerated not sampled).

Seed C18h: lowpass_func zeroed the to-be-simulated entries through `analytic.ravel()[...] = 0`; ravel() of a spectrum that
is not C-contiguous is a copy, so for a model finished with reorder_pops / transpose / swapaxes every simulated-regime
entry was counted twice.  Every model spectrum of the other streams is a fresh C-contiguous dadi.Spectrum, every size a
python int, every list a list.

The property quantifies over INPUTS, not over their spelling: on every run a systematic list of base cases (1-3
populations x sim_threshold 0 / 1e-2 / 1 x low / deep coverage x F = 0 / > 0) is handed to every entry point C18 covers
   make_low_pass_func_GATK_multisample (+ the wrapped function), partitions_and_probabilities (both flavours),
   projection_matrix, calling_error_matrix, probability_of_no_call_1D_GATK_multisample,
   probability_enough_individuals_covered, projection_inbreeding, subsample_genotypes_1D, simulate_GATK_multisample_calling
once in the canonical spelling (what harness/impl/c18_impl.py does) and once per (argument, spelling) of the lists below,
ONE argument changed at a time: the model Spectrum handed back by the demographic function as Fortran-ordered /
transposed view / reorder_pops / swapaxes / moveaxis / strided / negatively strided / float32 / longdouble / built from a
list / without a mask / hard mask / read-only / garbage under the masked corners / the SAME object on every call; sizes as
python int / float / numpy integer and float scalars / 0-d arrays in list / tuple / ndarray (int64, int32, uint8, float,
strided, reversed view); Fx and sim_threshold as float / int / bool / numpy scalars / 0-d arrays / None; coverage
distributions as float64 / float32 / longdouble arrays, Fortran-ordered, transposed, strided, reversed views, read-only,
lists / tuples of lists / arrays, masked arrays, the output of compute_cov_dist, one array object shared by all populations,
dict / OrderedDict / other keys; the same argument objects re-used for a second wrapped function and a repeated call.
For every variant the unchanged library accepts (reviewed table ACCEPTED, established on the unchanged tree):
   - outputs == outputs of the canonical call (TOL_SAME of the largest entry; the simulated arrays come from the same seed,
     so this includes the simulated regime), same mask / shape / folded / extrap_x / class, same precalculated matrices;
   - the property predicates of c18 (corrected total <= model total, no negative entry, simulated regime only redistributes,
     deep coverage == plain projection, row-stochastic matrices, ...) evaluated on the variant's outputs;
   - the Coq model (Model/LowPassCheck.lcheck) on the variant's outputs for every model-layout variant;
   - the caller's objects are bit-for-bit and layout-for-layout what they were before the call.
A spelling the unchanged library rejects or treats differently is not a violation: it is counted; if it now is accepted
the evidence says so.  A spelling missing from the table fails an obligation (fail-closed).
Rebuild aid:  C18_TYPES_DISCOVER=<file> ./check C18   writes the observed status of every (entry, argument, spelling).
"""
import ast, json, os

TOL_SAME = 1e-10       # variant vs canonical: the same float64 arithmetic in another layout / container (relative to the largest entry)
TOL_F32 = 2e-5         # a float32 / float16 operand: the library then computes partly in that precision
TOL_H = 1e-12          # helpers: probabilities, absolute

# ---- spellings ----------------------------------------------------------------------------------------------------
MODEL_SP = ['F_order', 'F_order_data_and_mask', 'transpose_view', 'T_attr', 'reorder_pops', 'swapaxes', 'moveaxis', 'strided', 'neg',
            'f32', 'longdouble', 'int', 'from_list', 'nomask', 'nomask_F', 'hardmask', 'readonly', 'garbage_under_corners',
            'ma', 'ndarray', 'list']
COQ_MODEL_SP = ('F_order', 'reorder_pops', 'strided', 'nomask_F')
INTSEQ_SP = ['tuple', 'ndarray', 'ndarray_int32', 'ndarray_uint8', 'ndarray_float', 'ndarray_strided', 'ndarray_neg',
             'list_np_int64', 'list_np_int32', 'list_float', 'list_0d']
FLOATSEQ_SP = ['none', 'tuple', 'ndarray', 'ndarray_f32', 'ndarray_strided', 'ndarray_neg', 'list_int', 'ndarray_int', 'list_bool',
               'list_np_float64', 'list_np_float32', 'list_np_longdouble', 'list_0d', 'list_np_int64']
FLOAT_SP = ['int', 'bool', 'np_bool', 'np_int64', '0d_int', 'np_float64', 'np_float32', 'np_float16', 'np_longdouble', '0d', '0d_f32']
INT_SP = ['np_int64', 'np_int32', 'np_int16', 'np_int8', 'np_uint8', 'np_uint64', 'np_intp', 'float', 'np_float64', 'np_float32', '0d_int', '0d_float']
COV1_SP = ['list_of_lists', 'list_of_float_lists', 'list_of_arrays', 'tuple_of_arrays', 'F_order', 'transposed', 'strided', 'neg',
           'cols_strided', 'f32', 'longdouble', 'f16', 'readonly', 'object', 'masked', 'compute_cov_dist']
COVD_SP = ['ordered_dict', 'int_keys', 'shared_object', 'mixed'] + ['each:' + s for s in COV1_SP]
PART_SP = ['tuple', 'ndarray', 'ndarray_int8', 'list_np_int64', 'ndarray_neg']
CALLS_SP = ['F_order', 'strided', 'neg', 'transposed', 'int32', 'int8', 'float', 'list', 'readonly']

L_ARGS = [('model', MODEL_SP), ('cov', COVD_SP), ('nseq', INTSEQ_SP), ('nsub', INTSEQ_SP), ('Fx', FLOATSEQ_SP), ('thr', FLOAT_SP),
          ('nsim', INT_SP), ('pop_ids', ['tuple', 'ndarray', 'none']), ('call_ns', INTSEQ_SP + ['none']), ('call_pts', ['np_int64', 'float']),
          ('reuse', ['same_model_object', 'same_arguments', 'all'])]
H_ARGS = {'partitions_genotype': [('n', INT_SP), ('F', FLOAT_SP)],
          'partitions_af': [('n', INT_SP), ('F', FLOAT_SP), ('af', INT_SP)],
          'projection_matrix': [('n', INT_SP), ('k', INT_SP), ('F', FLOAT_SP)],
          'calling_error_matrix': [('cov', COV1_SP), ('k', INT_SP), ('F', FLOAT_SP)],
          'no_call': [('cov', COV1_SP), ('n', INT_SP), ('F', FLOAT_SP)],
          'enough': [('cov', COV1_SP), ('n', INT_SP), ('k', INT_SP)],
          'projection_inbreeding': [('part', PART_SP), ('k', INT_SP)],
          'subsample': [('calls', CALLS_SP), ('k', INT_SP)],
          'simulate': [('covd', COVD_SP), ('afs', ['list', 'tuple', 'ndarray_int32', 'ndarray_neg', 'list_np_int64']),
                       ('nseqs', INTSEQ_SP), ('nsubs', INTSEQ_SP), ('Fxs', FLOATSEQ_SP), ('nsim', INT_SP)]}
H_OUT = {'partitions_genotype': ('parts', 'probs'), 'partitions_af': ('parts', 'probs'), 'projection_matrix': ('proj',),
         'calling_error_matrix': ('cem',), 'no_call': ('nocall',), 'enough': ('enough',), 'projection_inbreeding': ('projinb',),
         'subsample': ('sub',), 'simulate': ('sim', 'sim_shape')}
HNAME = {'partitions_genotype': "partitions_and_probabilities(.., 'genotype')", 'partitions_af': "partitions_and_probabilities(.., 'allele_frequency')",
         'projection_matrix': 'projection_matrix', 'calling_error_matrix': 'calling_error_matrix',
         'no_call': 'probability_of_no_call_1D_GATK_multisample', 'enough': 'probability_enough_individuals_covered',
         'projection_inbreeding': 'projection_inbreeding', 'subsample': 'subsample_genotypes_1D', 'simulate': 'simulate_GATK_multisample_calling'}

# ---- what the unchanged library accepts ------------------------------------------------------------------------------
# Established on the unchanged tree with C18_TYPES_DISCOVER (numpy 2.x) and reviewed.  Everything NOT listed in REJECTED /
# DIFFERENT is accepted and must give the canonical result.  Keys: (entry, argument, spelling); entry 'L' = make_low_pass_func.
from harness.props.c18_types_table import REJECTED, DIFFERENT      # noqa: E402  (data file of this property)

def status(entry, arg, sp):
    k = (entry, arg, sp)
    if k in REJECTED:
        return 'raises'
    if k in DIFFERENT:
        return 'differs'
    return 'same'

def tol_for(sp):
    return TOL_F32 if ('f32' in sp or 'float32' in sp or 'f16' in sp or 'float16' in sp) else TOL_SAME

# ---- base cases ----------------------------------------------------------------------------------------------------------
def _pop(rng, gen_cov, nseq, nsub, kind, F):
    cov, kd = gen_cov(rng, kind)
    return {'nseq': nseq, 'nsub': nsub, 'cov': cov, 'covkind': kd, 'F': F}

def l_bases(ctx, gen_cov, big=False):
    """systematic base cases of the corrected model: (sizes, coverage kind, F, sim_threshold, which arguments get all spellings)"""
    rng = ctx.rng
    plans = [
        # sizes (nseq, nsub) per population, coverage kind, F per population, thr, nsim, all arguments?
        ([(6, 4)], 'low', [0.0], 1e-2, 60, False),
        ([(6, 4), (4, 2)], 'low', [0.0, 0.25], 1e-2, 40, True),
        ([(4, 4), (4, 4)], 'deep', [0.0, 0.0], 0.0, 40, False),
        ([(6, 4), (4, 2)], 'low', [0.0, 0.0], 1.0, 40, True),
        ([(4, 2), (2, 2), (4, 4)], 'low', [0.5, 0.0, 0.0], 1e-2, 30, False),
        ([(4, 2), (6, 4)], 'two', [0.0, 0.0], 0.0, 30, False),
        ([(6, 4), (4, 2)], 'deep', [0.0, 0.0], 1.0, 40, False),
    ]
    if big:
        for k in range(10):
            d = 2 + (k % 2)
            sizes = []
            for _ in range(d):
                n = 2 * rng.randint(1, 4 if d == 2 else 2)
                sizes.append((n, 2 * rng.randint(1, n // 2)))
            plans.append((sizes, rng.choice(['low', 'two', 'mid', 'nozero', 'deep']), [rng.choice([0.0, 0.0, 0.25, 0.5]) for _ in range(d)],
                          [0.0, 1e-2, 1.0][k % 3], 40, True))
    out = []
    for sizes, kind, Fs, thr, nsim, allargs in plans:
        pops = [_pop(rng, gen_cov, a, b, kind, F) for (a, b), F in zip(sizes, Fs)]
        if kind == 'two':                        # the same coverage distribution in every population: 'shared_object' is expressible
            for p in pops[1:]:
                p['cov'] = list(pops[0]['cov'])
        size = 1
        for p in pops:
            size *= p['nseq'] + 1
        model = [rng.randint(1, 64) / 8.0 for _ in range(size)]
        if thr == 1.0 and kind == 'low':         # integer-coded values: the 'int' spelling of the model is expressible
            model = [float(rng.randint(1, 40)) for _ in range(size)]
        c = {'kind': 'ltypes', 'pops': pops, 'thr': thr, 'nsim': nsim, 'seed': rng.randint(0, 2 ** 31 - 1), 'model': model,
             'deep': kind == 'deep', 'variants': []}
        for arg, sps in L_ARGS:
            if arg != 'model' and not (allargs or big):
                if arg not in ('thr', 'reuse'):
                    continue
            for sp in sps:
                c['variants'].append({'vid': len(c['variants']), 'arg': arg, 'sp': sp})
        out.append(c)
    return out

def h_bases(ctx, gen_cov, big=False):
    rng = ctx.rng
    plans = [(6, 4, 'low', 0.0), (8, 4, 'mid', 0.25), (4, 4, 'deep', 0.0), (6, 2, 'nozero', 1.0 / 1024)]
    if big:
        plans += [(2 * rng.randint(1, 5), 2, rng.choice(['low', 'wide', 'two']), rng.choice([0.0, 0.5, 63 / 64.0])) for _ in range(6)]
    out = []
    for i, (nseq, nsub, kind, F) in enumerate(plans):
        cov, kd = gen_cov(rng, kind)
        N = rng.randint(3, 5); k = rng.randint(1, N - 1)
        rows = []
        for _ in range(40):
            calls = rng.randint(max(k - 1, 0), N)
            row = [rng.choice([0, 1, 2]) for _ in range(calls)] + [99] * (N - calls)
            rng.shuffle(row); rows.append(row)
        cov2, _ = gen_cov(rng, 'low')
        sim_pops = [{'nseq': 4, 'nsub': 2, 'cov': cov, 'F': F}, {'nseq': 4, 'nsub': 4, 'cov': cov2, 'F': 0.0}][:1 + i % 2]
        c = {'kind': 'htypes', 'nseq': nseq, 'nsub': nsub, 'cov': cov, 'covkind': kd, 'F': F, 'rows': rows, 'rows_nsub': 2 * k,
             'sim_pops': sim_pops, 'sim_af': [rng.randint(1, 3) for _ in sim_pops], 'sim_nsim': 60, 'seed': rng.randint(0, 2 ** 31 - 1),
             'fns': list(H_ARGS), 'variants': []}
        for fn, args in H_ARGS.items():
            for arg, sps in args:
                if i >= 2 and not big and arg not in ('cov', 'covd', 'calls', 'part', 'F'):
                    continue                     # quick tier: scalar sizes in every spelling on the first two base cases only
                for sp in sps:
                    c['variants'].append({'vid': len(c['variants']), 'fn': fn, 'arg': arg, 'sp': sp})
        out.append(c)
    return out

# ---- comparison ------------------------------------------------------------------------------------------------------------
def _num(x):
    return isinstance(x, (int, float)) and not isinstance(x, bool)

def _dev(a, b):
    """largest absolute difference of two nested lists of numbers; inf when the shapes / non-finite spellings differ"""
    if isinstance(a, list) and isinstance(b, list):
        if len(a) != len(b):
            return float('inf')
        return max([_dev(x, y) for x, y in zip(a, b)] + [0.0])
    if _num(a) and _num(b):
        return abs(a - b)
    return 0.0 if a == b else float('inf')

def l_compare(c, ref, vr, tol):
    bad = []
    scale = max([abs(x) for x in c['model']] + [1.0])
    for k in ('shape', 'out_mask', 'folded', 'extrap_x', 'type', 'called_ns'):
        if vr.get(k) != ref.get(k):
            bad.append('%s = %r, canonical call gives %r' % (k, vr.get(k), ref.get(k)))
    if not bad:
        d = _dev(vr['out'], ref['out'])
        if d > tol * scale:
            i = max(range(len(ref['out'])), key=lambda j: _dev(vr['out'][j], ref['out'][j]))
            bad.append('corrected model differs from the canonical call by %.3e (entry %d: %r, canonical %r; totals %r vs %r)' % (
                d, i, vr['out'][i], ref['out'][i], vr['out_total'], ref['out_total']))
        for j, o in enumerate(vr.get('more', [])):
            d2 = _dev(o, ref['out'])
            if d2 > tol * scale:
                bad.append('%s differs from the canonical call by %.3e' % (['a second wrapped function built from the same argument objects',
                                                                            'the first wrapped function called again'][j], d2)); break
    if 'use' in vr and 'use' in ref:
        if vr['use'] != ref['use']:
            bad.append('analytic / simulated switch differs from the canonical call')
        elif _dev(vr['pnc'], ref['pnc']) > max(tol, 1e-12):
            bad.append('no-call probabilities differ from the canonical call by %.3e' % _dev(vr['pnc'], ref['pnc']))
        elif [k for k, _ in vr['sims']] != [k for k, _ in ref['sims']] or _dev([v for _, v in vr['sims']], [v for _, v in ref['sims']]) > max(tol, 1e-12):
            bad.append('simulated arrays differ from those of the canonical call (same seed)')
    return bad

def h_compare(fn, ref, outs, tol):
    bad = []
    if 'error' in ref:
        return bad
    for k in H_OUT[fn]:
        d = _dev(outs.get(k), ref.get(k))
        exact = k in ('parts', 'sub', 'sim_shape')
        if d > (0 if exact else tol):
            bad.append('%s differs from the canonical call by %.3e' % (k, d))
    return bad

# ---- fail-closed obligation on the source text: no write through a flattened / reshaped alias ---------------------------------
# calls whose result is a COPY for some memory layouts / dtypes of the operand and a VIEW for others (flatten: always a copy)
FLATTENERS = ('ravel', 'reshape', 'flatten', 'asarray', 'asanyarray', 'ascontiguousarray', 'asfortranarray', 'astype', 'require', 'array', 'filled')

def frame_obligation(ctx, repo):
    """In make_low_pass_func_GATK_multisample / low_cov_precalc (the code between the demographic function's spectrum and the
    corrected spectrum) no element may be written THROUGH a name bound to a ravel() / reshape() / asarray() / astype() ... result,
    nor through such an expression directly: whether that write reaches the array it is meant for depends on the memory
    layout of the model spectrum (a copy for some layouts, a view for others).  Returns the list of offending statements."""
    path = os.path.join(repo, 'dadi', 'LowPass', 'LowPass.py')
    try:
        tree = ast.parse(open(path).read())
    except Exception as e:
        ctx.obligation('source of dadi/LowPass/LowPass.py parses (types)', False, 'translator', str(e)[:200]); return ['LowPass.py does not parse']
    fns = [n for n in tree.body if isinstance(n, ast.FunctionDef) and n.name in ('make_low_pass_func_GATK_multisample', 'low_cov_precalc_GATK_multisample_GATK_multisample')]
    if len(fns) != 2:
        ctx.obligation('make_low_pass_func_GATK_multisample and its precalculation are defined once', False, 'translator'); return ['entry points not found']
    def flat_expr(e):
        if isinstance(e, ast.Call):
            f = e.func
            return (isinstance(f, ast.Attribute) and f.attr in FLATTENERS) or (isinstance(f, ast.Name) and f.id in FLATTENERS)
        return isinstance(e, ast.Attribute) and e.attr in FLATTENERS
    problems = []
    for fn in fns:
        alias = set()
        for n in ast.walk(fn):
            if isinstance(n, ast.Assign) and flat_expr(n.value):
                alias |= {t.id for t in n.targets if isinstance(t, ast.Name)}
        for n in ast.walk(fn):
            tg = []
            if isinstance(n, ast.Assign):
                tg = n.targets
            elif isinstance(n, ast.AugAssign):
                tg = [n.target]
            for t in tg:
                base = t.value if isinstance(t, ast.Subscript) else None
                if base is None:
                    continue
                if (isinstance(base, ast.Name) and base.id in alias) or flat_expr(base):
                    problems.append('%s (line %d)' % (ast.unparse(n)[:120], n.lineno))
            if isinstance(n, ast.Call) and isinstance(n.func, ast.Attribute) and n.func.attr in ('put', 'fill', 'itemset', 'putmask', 'place', 'copyto', 'resize', 'sort', 'setflags') :
                problems.append('%s (line %d)' % (ast.unparse(n)[:120], n.lineno))
    ok = not problems
    ctx.obligation('lowpass_func / precalculation write nothing through a flattened, reshaped or re-typed alias (layout-independent frame)', ok,
                   'translator', '; '.join(problems)[:300])
    return problems

# ---- the stream ---------------------------------------------------------------------------------------------------------------
def run_stream(ctx, c18, only=None, big=False, tag='types'):
    """returns the number of violations WITH a failing input that were reported"""
    from harness import lib
    if only is not None:
        lb = [only] if only['kind'] == 'ltypes' else []
        hb = [only] if only['kind'] == 'htypes' else []
    else:
        lb, hb = l_bases(ctx, c18.gen_cov, big), h_bases(ctx, c18.gen_cov, big)
    allc = lb + hb
    for i, c in enumerate(allc):
        c['id'] = (300000 if big else 200000) + i
    # three interpreters side by side, base cases dealt out by their number of variants
    import concurrent.futures
    chunks = [[], [], []]
    for c in sorted(allc, key=lambda c: -len(c['variants'])):
        min(chunks, key=lambda ch: sum(len(x['variants']) + 5 for x in ch)).append(c)
    chunks = [ch for ch in chunks if ch]
    with concurrent.futures.ThreadPoolExecutor(max_workers=3) as ex:
        res = [r for part in ex.map(lambda ch: lib.run_impl('c18_impl_types.py', ch, timeout=3000,
                                                           env_extra={'OMP_NUM_THREADS': '1', 'OPENBLAS_NUM_THREADS': '1', 'MKL_NUM_THREADS': '1'}), chunks) for r in part]
    byid = {r['id']: r for r in res}
    found = 0
    observed = {}
    lexprs, lmeta = [], {}
    def report(c, v, what, msgs):
        nonlocal found
        cc = dict(c); cc['variants'] = [dict(v, vid=0)]
        for w in msgs[:3]:
            ctx.violation(what + ': ' + w[:500], data={'case': cc})
            found += 1
    for c in lb:
        r = byid[c['id']]
        d = len(c['pops'])
        desc = 'pops=%s thr=%r' % ([(p['nseq'], p['nsub'], p['F'], p['covkind']) for p in c['pops']], c['thr'])
        if 'error' in r:
            ctx.violation('make_low_pass_func_GATK_multisample raised in the canonical spelling (%s): %s' % (desc, r['error']), data={'case': dict(c, variants=[])}); found += 1
            continue
        ctx.case(signature=('lt', json.dumps(c['pops']), c['thr'], c['model'][:6]), sample={'pops': desc, 'variants': len(c['variants'])})
        ctx.count('types: corrected-model base cases d=%d' % d)
        bad0 = c18.lowpass_bad(ctx, c, r)
        if r.get('changed'):
            bad0.append('the caller\'s objects changed during the canonical call: %r' % r['changed'])
        if bad0:
            report(c, {'arg': 'model', 'sp': 'spectrum'}, 'make_low_pass_func_GATK_multisample (%s)' % desc, bad0)
        layouts = set()
        vmap = {v['vid']: v for v in c['variants']}
        for vr in r['variants']:
            v = vmap[vr['vid']]
            key = ('L', v['arg'], v['sp'])
            st = status(*key)
            what = 'make_low_pass_func_GATK_multisample (%s) with %s spelled %r' % (desc, v['arg'], v['sp'])
            if 'inexpressible' in vr:
                ctx.count('types: spelling cannot express this base case'); observed.setdefault(key, set()).add('inexpressible'); continue
            if 'error' in vr:
                observed.setdefault(key, set()).add('raises')
                if st == 'same':
                    report(c, v, what, ['raises %s -- the unchanged library accepts this spelling and returns the canonical result (%s)' % (vr['error'], vr.get('where', '')[-200:])])
                    ctx.obligation('types %s=%s accepted, base %d' % (v['arg'], v['sp'], c['id']), False, 'predicate', vr['error'][:200])
                else:
                    ctx.count('types: spelling rejected by the library (as on the unchanged tree)')
                continue
            tol = tol_for(v['sp'])
            bad = l_compare(c, r, vr, tol)
            observed.setdefault(key, set()).add('differs' if bad else 'same')
            if st != 'same':
                ctx.count('types: spelling the unchanged library %s now %s' % ('rejects' if st == 'raises' else 'treats differently', 'differs' if bad else 'gives the canonical result'))
                continue
            if v['arg'] == 'model':
                layouts.add(vr['layout'].split()[0])
            # property predicates on the variant's own outputs
            merged = dict(r)
            for k in ('out', 'out_total', 'shape', 'called_ns', 'use', 'sims', 'sim_shapes_ok', 'pnc'):
                if k in vr:
                    merged[k] = vr[k]
            pb = c18.lowpass_bad(ctx, c, merged)
            if vr.get('changed'):
                pb.append('the caller\'s objects are not what they were before the call: %r' % vr['changed'])
            if v['arg'] == 'reuse' and vr.get('aliases_model'):
                pb.append('the corrected spectrum shares memory with the model spectrum the demographic function keeps')
            ok = not bad and not pb
            ctx.obligation('types %s=%s == canonical + predicates, base %d' % (v['arg'], v['sp'], c['id']), ok, 'predicate', '; '.join(bad + pb)[:300])
            ctx.count('types: corrected-model variants compared'); ctx.count('types: argument ' + v['arg'])
            if vr['out'] == r['out']:
                ctx.count('types: corrected-model variants bit-identical to the canonical call')
            if not ok:
                report(c, v, what + (' [model layout %s]' % vr['layout'] if v['arg'] == 'model' else ''), pb + bad)
            # the Coq model on the variant's outputs (same logical inputs)
            if ((v['arg'] == 'model' and v['sp'] in COQ_MODEL_SP) or (big and v['vid'] % 9 == 0)) and 'use' in vr and not any(
                    p != c['thr'] and abs(p - c['thr']) <= 1e-9 for p in vr['pnc']) and not (c['thr'] == 0.0 and any(0 < p < 1e-290 for p in vr['pnc'])):
                n = c['id'] * 1000 + v['vid']
                m2 = dict(vr); m2['model_mask'] = r['model_mask']
                try:
                    lexprs.append((n, c18.lexpr(c, m2))); lmeta[n] = (c, v, what)
                except Exception:
                    pass
        if d >= 2 and only is None:
            okl = bool(layouts - {'C', 'CF'})
            ctx.obligation('types: a model spectrum that is not C-contiguous reaches lowpass_func, base %d' % c['id'], okl, 'predicate', 'layouts %r' % sorted(layouts))
    # helpers
    for c in hb:
        r = byid[c['id']]
        desc = 'nseq=%d nsub=%d F=%r cov=%s' % (c['nseq'], c['nsub'], c['F'], c['covkind'])
        if 'error' in r:
            ctx.violation('LowPass helpers raised (types stream, %s): %s' % (desc, r['error']), data={'case': dict(c, variants=[])}); found += 1
            continue
        ctx.case(signature=('ht', c['nseq'], c['nsub'], c['cov'], c['F']), sample={'base': desc, 'variants': len(c['variants'])})
        ctx.count('types: helper base cases')
        canon = r['canon']
        full = None
        need = ('partitions_genotype', 'projection_matrix', 'calling_error_matrix', 'no_call', 'enough', 'projection_inbreeding')
        if all(f in canon and 'error' not in canon[f] for f in need):
            full = {'af_flavour_same': True}
            for f in need:
                full.update({k: canon[f][k] for k in H_OUT[f]})
            hb0 = c18.helper_bad(c, full)
            if 'partitions_af' in canon and 'error' not in canon['partitions_af'] and (canon['partitions_af']['parts'] != full['parts'] or _dev(canon['partitions_af']['probs'], full['probs']) > 0):
                hb0.append("partition_type 'allele_frequency' and 'genotype' disagree")
            for f in canon:
                if canon[f].get('changed'):
                    hb0.append('%s changed its arguments %r' % (HNAME[f], canon[f]['changed']))
            if hb0:
                report(c, {'fn': 'partitions_genotype', 'arg': 'n', 'sp': 'int'}, 'LowPass helpers (%s), canonical spelling' % desc, hb0)
        else:
            errs = {f: canon[f]['error'] for f in canon if 'error' in canon[f]}
            ctx.violation('LowPass helpers raised in the canonical spelling (%s): %r' % (desc, errs), data={'case': dict(c, variants=[])}); found += 1
        vmap = {v['vid']: v for v in c['variants']}
        for vr in r['variants']:
            v = vmap[vr['vid']]
            key = (v['fn'], v['arg'], v['sp'])
            st = status(*key)
            what = '%s (%s) with %s spelled %r' % (HNAME[v['fn']], desc, v['arg'], v['sp'])
            if 'inexpressible' in vr:
                ctx.count('types: spelling cannot express this base case'); observed.setdefault(key, set()).add('inexpressible'); continue
            if 'error' in vr:
                observed.setdefault(key, set()).add('raises')
                if st == 'same' and 'error' not in canon.get(v['fn'], {'error': 1}):
                    report(c, v, what, ['raises %s -- the unchanged library accepts this spelling and returns the canonical result (%s)' % (vr['error'], vr.get('where', '')[-200:])])
                    ctx.obligation('types %s %s=%s accepted, base %d' % (v['fn'], v['arg'], v['sp'], c['id']), False, 'predicate', vr['error'][:200])
                else:
                    ctx.count('types: spelling rejected by the library (as on the unchanged tree)')
                continue
            bad = h_compare(v['fn'], canon.get(v['fn'], {'error': 1}), vr['outs'], max(tol_for(v['sp']), TOL_H) if tol_for(v['sp']) == TOL_F32 else TOL_H)
            observed.setdefault(key, set()).add('differs' if bad else 'same')
            if st != 'same':
                ctx.count('types: spelling the unchanged library %s now %s' % ('rejects' if st == 'raises' else 'treats differently', 'differs' if bad else 'gives the canonical result'))
                continue
            pb = []
            if full is not None and v['fn'] in need + ('partitions_af',):
                merged = dict(full); merged.update({k: vr['outs'][k] for k in H_OUT[v['fn']]})
                pb = c18.helper_bad(c, merged)
            if v['fn'] == 'simulate' and isinstance(vr['outs'].get('sim'), list):
                s = vr['outs']['sim']
                if not all(_num(x) for x in s) or abs(sum(s) - 1.0) > 1e-12 or min(s) < 0:
                    pb.append('the simulated array is not a normalised non-negative histogram')
            if vr.get('changed'):
                pb.append('the caller\'s objects are not what they were before the call: %r' % vr['changed'])
            ok = not bad and not pb
            ctx.obligation('types %s %s=%s == canonical + predicates, base %d' % (v['fn'], v['arg'], v['sp'], c['id']), ok, 'predicate', '; '.join(bad + pb)[:300])
            ctx.count('types: helper variants compared'); ctx.count('types: entry ' + v['fn'])
            if not ok:
                report(c, v, what, pb + bad)
    # table is complete (fail-closed) and discovery aid
    if only is None:
        known = {('L', a, s) for a, sps in L_ARGS for s in sps} | {(f, a, s) for f, args in H_ARGS.items() for a, sps in args for s in sps}
        stale = [k for k in list(REJECTED) + list(DIFFERENT) if k not in known]
        ctx.obligation('types: every entry of the reviewed acceptance table names an enumerated (entry, argument, spelling)', not stale, 'predicate', repr(stale)[:300])
        never = [k for k in known if k not in observed]
        ctx.obligation('types: every enumerated spelling was handed to the library on some base case', not never, 'predicate', repr(sorted(never))[:300])
        ctx.stats['types: spellings enumerated'] = len(known)
        ctx.stats['types: spellings accepted by the unchanged library (compared)'] = len([k for k in known if status(*k) == 'same'])
        now_ok = sorted(k for k in known if status(*k) != 'same' and observed.get(k) == {'same'})
        if now_ok:
            ctx.stats['types: spellings listed as rejected / different that give the canonical result in this run'] = repr(now_ok)[:600]
    dis = os.environ.get('C18_TYPES_DISCOVER')
    if dis and only is None:
        with open(dis, 'w') as f:
            for k in sorted(observed):
                f.write('%r: %s\n' % (k, '/'.join(sorted(observed[k]))))
    # Coq model on the variants' outputs
    if lexprs:
        header = ('From Coq Require Import ZArith QArith List.\nFrom Dadi Require Import Base.Num Base.NumQ Model.LowPass Model.LowPassCheck.\n'
                  'Import ListNotations.\nOpen Scope Q_scope.')
        lres = ctx.coq_cases(tag, header, lexprs, '(lcheck %s)' % lib.q(c18.TOL_LP), 'rel 1e-9 of the largest entry', shard=ctx.pick(3, 4), timeout=2400)
        nbad = 0
        for n, (c, v, what) in lmeta.items():
            rr = lres.get(n)
            ok = rr is not None and rr[0]
            ctx.obligation('types corr make_low_pass_func %s=%s base %d' % (v['arg'], v['sp'], c['id']), ok, 'correspondence', '' if ok else 'model != impl %r' % (rr,))
            if not ok:
                nbad += 1
                if nbad <= 3:
                    report(c, v, what, ['the corrected spectrum disagrees with the exact Coq model of the correction on the same logical inputs: %r' % (rr,)])
    return found
